"""C08 — simulation results do not depend on process scheduling order.

Correspondence (differential, no source hook in /repo): the three unordered Python sets of the engine
(`PySimEngine._processes`, `_active_triggers`, `_PyEngineState.pending`; additionally the local sets of
`_PyTimeline.advance` and `_FragmentCompiler`) are created as `OrdSet`, a `set` subclass whose iteration order is a
seeded permutation of a deterministic key order (installed by rebinding the name `set` in the namespaces of
amaranth.sim.pysim / amaranth.sim._pyrtl at import of this module and checked on every engine).  Each generated
scenario is run under k orders (sorted, reversed, fixed seeded permutations, a fresh permutation at every iteration)
and all testbench observation traces + final signal values must be identical; scenarios with user processes are also
run with every process replaced by the equivalent circuit (docs/simulator.rst "Replacing circuits with code") and must
give the same trace; the trace is finally compared with the trace of coq/Model/Engine.v evaluated in Coq under the
ascending order.

Trace records: [k,-1,v] ctx.get, [k,-2,now_fs,results...] completed await, [k,-7] BrokenTrigger, [k,-8] DomainReset,
[k,-9,now_fs] testbench k finished; then -100 and the final value of every signal.  Markers appended by the harness:
[-555, j] trace under order j differs from order 0; [-556] process / circuit variants differ."""
import hashlib, random
from common import z, zlist, blit
import exprgen as G
import astser as AS

ID = "C08"
LEVEL = "proof"
PROPS_FILE = "C08.v"
RUN_MODULE = "RunC08"
TRANSLATOR_UNITS = ["pysim"]
SHARD = 40
RULE = ("dedicated clock cases: every period in {1,2,3,7,10,1000,999983} x {1,2,3} fs with phases {default,0,1,half,period,"
        "random} observed through changed/posedge/negedge/tick waits with elapsed_time() at each wake-up; delay cases: "
        "chains of delays (0, 1, half periods, coincident with edges, random) across 1-3 testbenches; random scenarios: "
        "1-3 clock domains (pos/neg edge, with/without reset), 1-4 submodules in a hierarchy with random comb/sync statements "
        "(exprgen terms, If-guards), 0-2 user processes in the two documented patterns, 1-3 clocks, 1-3 testbenches with "
        "scripts of <= 25 operations set/get/tick/tick.sample/delay/posedge/negedge/changed/until/repeat/trigger "
        "combinations; split-signal scenarios: one bus / register whose slices are owned by 2-3 comb fragments, by 2-3 clock "
        "domains with coincident edges, or by a comb and a sync process, the whole signal read after every set/tick. "
        "testbench-order scenarios: 3-5 testbenches setting and reading shared signals in the same time steps. "
        "Every scenario runs under k orders (quick 6, thorough 40) of all engine sets. "
        "non-trivial = some testbench record carries a value that differs from the signal's init or a non-zero time; "
        "distinct by case hash")
MODELLED = ("PySimEngine.step_design/advance, _PyEngineState.commit, _PySignalState.update/commit, _PyTriggerState, "
            "_PyTimeline, PyClockProcess, PyRTLProcess wakers, AsyncProcess.run (first-await rule), TestbenchContext.set/get, "
            "TickTrigger await/until/repeat, TriggerCombination one-shot awaits, Period/2 default phase are modelled in "
            "coq/Model/Engine.v (RTL statement semantics reused from Stmt.v/Process.v); validated only: coroutine mechanics "
            "(send, async generators, asyncgen hooks), Fragment elaboration, the compiled Python of _pyrtl. Abstractions: "
            "memories are not modelled (order comparison only, in extra()); a broken trigger object is the canonical dead "
            "trigger; stale timeline entries of abandoned trigger objects are dropped when the owner awaits again (they only "
            "cause empty advance() calls, so the loop is stopped by time, not by count)")
ASSUMPTIONS = ["write_disjoint: no two processes write a common signal bit in one delta; proved (C08_compiled_write_disjoint) "
               "for every system of compiled RTL processes over well-formed linear targets, clocks and the two documented "
               "user-process patterns whose LHS masks are pairwise disjoint (the single-driver rule); testbenches never "
               "write process-driven signals",
               "combinational logic is acyclic (every step_design converges)",
               "periods below 2^53 fs for the default phase (float division in Period.__truediv__)"]

CAP = 4000          # = RFUEL in coq/Harness/RunC08.v
S1_ID = "S1-cross-domain-write-collision-order"


# ------------------------------------------------------------------ order-controlled sets
class _Ctl:
    mode = None      # None: plain set order; ("fixed", seed) ; ("fresh", seed) ; ("sorted",) ; ("reversed",)
    counter = 0


def _keyof(x, depth=0):
    t = type(x).__name__
    try:
        if t == "PyRTLProcess":
            co = x.run.__code__
            return ("rtl", bool(x.is_comb), co.co_code.hex(), repr(co.co_consts), repr(co.co_names))
        if t == "PyClockProcess":
            return ("clk", x.slot)
        if t == "AsyncProcess":
            return ("async", getattr(x.constructor, "__name__", "?"))
        if t == "_PyTriggerState":
            return ("trig", _keyof(x._combination._process, depth + 1),
                    tuple(type(tr).__name__ for tr in x._combination._triggers))
        if t == "_PySignalState":
            return ("sig", x.signal.name)
        if t == "_PyMemoryState":
            return ("mem", repr(x.memory))
        if t == "_PyMemoryChange":
            return ("memch", _keyof(x.state, depth + 1), x.addr)
        if t == "str":
            return ("str", x)
        if t == "function" and depth < 3:
            cells = x.__closure__ or ()
            ks = []
            for c in cells:
                try:
                    ks.append(_keyof(c.cell_contents, depth + 1))
                except ValueError:
                    ks.append(("empty",))
            return ("fn", x.__qualname__, tuple(ks))
        if t in ("DelayTrigger",):
            return ("delay", x.interval.femtoseconds)
        if t in ("EdgeTrigger",):
            return ("edge", x.signal.name, x.bit, x.polarity)
    except Exception:
        pass
    return ("other", t)


class OrdSet(set):
    __slots__ = ()

    def __iter__(self):
        mode = _Ctl.mode
        if mode is None:
            return set.__iter__(self)
        items = list(set.__iter__(self))
        if len(items) < 2:
            return iter(items)
        items.sort(key=lambda e: repr(_keyof(e)))
        if mode[0] == "sorted":
            return iter(items)
        if mode[0] == "reversed":
            items.reverse()
            return iter(items)
        if mode[0] == "fresh":
            _Ctl.counter += 1
            rnd = random.Random(f"{mode[1]}:{_Ctl.counter}")
        else:
            rnd = random.Random(f"{mode[1]}:{len(items)}")
        rnd.shuffle(items)
        return iter(items)


_installed = False


def install():
    """No source change: rebinding the global name `set` of the two engine modules makes every set they create an OrdSet
    (slots keep a reference to the `pending` object they were created with, so it has to be an OrdSet from the start)."""
    global _installed
    if _installed:
        return
    import amaranth.sim.pysim as pysim
    import amaranth.sim._pyrtl as pyrtl
    pysim.set = OrdSet
    pyrtl.set = OrdSet
    orig_init = pysim.PySimEngine.__init__

    def init(self, design):
        orig_init(self, design)
        # belt and braces: whatever the namespaces did, the three sets are order-controlled
        if not isinstance(self._processes, OrdSet):
            self._processes = OrdSet(self._processes)
        if not isinstance(self._active_triggers, OrdSet):
            self._active_triggers = OrdSet(self._active_triggers)
        assert isinstance(self._state.pending, OrdSet), "pending is not order-controlled"
    pysim.PySimEngine.__init__ = init
    _installed = True


def order_modes(k):
    modes = [("sorted",), ("reversed",)]
    j = 0
    while len(modes) < k:
        modes.append(("fresh", j) if j % 2 else ("fixed", j))
        j += 1
    return modes[:k]


# ------------------------------------------------------------------ python-integer evaluation of process functions
def pyden(t, env):
    k = t[0]
    if k == "c":
        return t[1]
    if k == "s":
        return env[t[1]]
    if k == "o1":
        a = pyden(t[2], env)
        return {"~": lambda: ~a, "-": lambda: -a, "b": lambda: int(a != 0)}[t[1]]()
    if k == "o2":
        a, b = pyden(t[2], env), pyden(t[3], env)
        op = t[1]
        if op == "+": return a + b
        if op == "-": return a - b
        if op == "*": return a * b
        if op == "&": return a & b
        if op == "|": return a | b
        if op == "^": return a ^ b
        if op == "==": return int(a == b)
        if op == "!=": return int(a != b)
        if op == "<": return int(a < b)
        if op == ">=": return int(a >= b)
    if k == "sl":
        return (pyden(t[1], env) >> t[2]) & ((1 << (t[3] - t[2])) - 1)
    raise ValueError(t)


def pynorm(w, sg, v):
    v &= (1 << w) - 1
    if sg and w and v >> (w - 1):
        v -= 1 << w
    return v


# ------------------------------------------------------------------ building the real design
class Built:
    pass


def build(case, variant="proc"):
    """variant "proc": user processes are added with add_process; "rtl": each is replaced by the equivalent circuit."""
    from amaranth.hdl import Signal, Shape, Module, ClockDomain
    b = Built()
    sigs = [None] * len(case["sigs"])
    cds = []
    for d, dom in enumerate(case["doms"]):
        cd = ClockDomain(dom["name"], clk_edge=dom["edge"], reset_less=dom["rst"] is None)
        cds.append(cd)
        sigs[dom["clk"]] = cd.clk
        if dom["rst"] is not None:
            sigs[dom["rst"]] = cd.rst
    for i, (w, sg, init, rl) in enumerate(case["sigs"]):
        if sigs[i] is None:
            sigs[i] = Signal(Shape(w, bool(sg)), init=init, reset_less=bool(rl), name=f"s{i}")
    top = Module()
    for cd in cds:
        top.domains += cd
    mods = []

    def lhs(tgt):       # a whole signal, or [sig, lo, hi]: a slice owned by this (fragment, domain)
        return sigs[tgt] if isinstance(tgt, int) else sigs[tgt[0]][tgt[1]:tgt[2]]
    for k, md in enumerate(case["mods"]):
        m = Module()
        for tgt, term in md["comb"]:
            m.d.comb += lhs(tgt).eq(G.build(term, sigs))
        for d, tgt, term, cond in md["sync"]:
            dn = case["doms"][d]["name"]
            if cond is None:
                m.d[dn] += lhs(tgt).eq(G.build(term, sigs))
            else:
                with m.If(G.build(cond, sigs)):
                    m.d[dn] += lhs(tgt).eq(G.build(term, sigs))
        mods.append(m)
    for k, md in enumerate(case["mods"]):
        parent = top if md["parent"] is None else mods[md["parent"]]
        parent.submodules[f"m{k}"] = mods[k]
    if variant == "rtl":
        for k, up in enumerate(case["uprocs"]):
            m = Module()
            if up["k"] == "comb":
                m.d.comb += sigs[up["out"]].eq(G.build(up["f"], sigs))
            else:
                m.d[case["doms"][up["dom"]]["name"]] += sigs[up["out"]].eq(G.build(up["f"], sigs))
            top.submodules[f"u{k}"] = m
    b.top, b.sigs, b.cds = top, sigs, cds
    return b


def _mk_uproc(case, b, k, up):
    sigs = b.sigs
    out = sigs[up["out"]]
    w, sg, init, _ = case["sigs"][up["out"]]
    ins = [sigs[i] for i in up["ins"]]
    f = up["f"]
    if up["k"] == "comb":
        async def proc(ctx):
            async for vals in ctx.changed(*ins):
                env = dict(zip(up["ins"], vals))
                ctx.set(out, pyden(f, env))
    else:
        cd = b.cds[up["dom"]]

        async def proc(ctx):
            acc = init
            async for clk_edge, rst, *vals in ctx.tick(cd).sample(*ins):
                if rst:
                    acc = init
                    ctx.set(out, acc)
                elif clk_edge:
                    env = dict(zip(up["ins"], vals))
                    env[up["out"]] = acc
                    acc = pynorm(w, sg, pyden(f, env))
                    ctx.set(out, acc)
    proc.__name__ = f"uproc{k}"
    return proc


def _mk_tb(case, b, k, script, trace):
    from amaranth.hdl import Period
    from amaranth.sim import BrokenTrigger, DomainReset
    sigs, cds = b.sigs, b.cds

    def edge_arg(s, bit):
        sig = sigs[s]
        return sig if (len(sig) == 1 and bit == 0) else sig[bit]

    def combo(ctx, parts):
        trg = None
        for p in parts:
            src = ctx if trg is None else trg
            if p[0] == "edge":
                trg = src.edge(edge_arg(p[1], p[2]), p[3])
            elif p[0] == "delay":
                trg = src.delay(Period(fs=p[1]))
            elif p[0] == "changed":
                trg = src.changed(*[sigs[i] for i in p[1]])
            elif p[0] == "sample":
                trg = src.sample(*[sigs[i] for i in p[1]])
        return trg

    async def tb(ctx):
        def now():
            return ctx.elapsed_time().femtoseconds
        try:
            for op in script:
                o = op[0]
                if o == "set":
                    ctx.set(sigs[op[1]], op[2])
                elif o == "get":
                    trace.extend([k, -1, int(ctx.get(sigs[op[1]]))])
                elif o == "tick":
                    res = await ctx.tick(cds[op[1]]).sample(*[sigs[i] for i in op[2]])
                    trace.extend([k, -2, now()] + [int(v) for v in res])
                elif o == "delay":
                    res = await ctx.delay(Period(fs=op[1]))
                    trace.extend([k, -2, now()] + [int(v) for v in res])
                elif o == "combo":
                    res = await combo(ctx, op[1])
                    trace.extend([k, -2, now()] + [int(v) for v in res])
                elif o == "until":
                    res = await ctx.tick(cds[op[1]]).sample(*[sigs[i] for i in op[2]]).until(sigs[op[3]])
                    trace.extend([k, -2, now()] + [int(v) for v in res])
                elif o == "repeat":
                    res = await ctx.tick(cds[op[1]]).sample(*[sigs[i] for i in op[2]]).repeat(op[3])
                    trace.extend([k, -2, now()] + [int(v) for v in res])
                else:
                    raise ValueError(o)
        except BrokenTrigger:
            trace.extend([k, -7])
            return
        except DomainReset:
            trace.extend([k, -8])
            return
        trace.extend([k, -9, now()])
    tb.__name__ = f"tb{k}"
    return tb


def make_sim(case, variant):
    from amaranth.hdl import Period
    from amaranth.sim import Simulator
    install()
    b = build(case, variant)
    sim = Simulator(b.top)
    for d, period, phase in case["clocks"]:
        if phase is None:
            sim.add_clock(Period(fs=period), domain=b.cds[d])
        else:
            sim.add_clock(Period(fs=period), phase=Period(fs=phase), domain=b.cds[d])
    if variant == "proc":
        for k, up in enumerate(case["uprocs"]):
            sim.add_process(_mk_uproc(case, b, k, up))
    trace = []
    for k, script in enumerate(case["tbs"]):
        sim.add_testbench(_mk_tb(case, b, k, script, trace))
    return sim, b, trace


def run_once(case, mode, variant="proc"):
    _Ctl.mode = None
    sim, b, trace = make_sim(case, variant)
    eng = sim._engine
    assert isinstance(eng._processes, OrdSet) and isinstance(eng._active_triggers, OrdSet) \
        and isinstance(eng._state.pending, OrdSet)
    _Ctl.mode = mode
    _Ctl.counter = 0
    try:
        for _ in range(CAP):
            if not sim.advance():
                break
            if eng.now > case["t_end"]:
                break
            if (not eng._state.timeline.wakers and not eng._active_triggers
                    and not any(p.runnable for p in set.__iter__(eng._processes))
                    and not any(t.runnable for t in eng._testbenches)):
                break       # quiescent: nothing can ever happen again
        else:
            trace.extend([-98])
    except Exception as ex:
        trace.extend([-97, sum(map(ord, type(ex).__name__))])
    finally:
        _Ctl.mode = None
    final = [int(eng.get_value(s)) for s in b.sigs]
    return trace + [-100] + final


def run_impl(case):
    if case.get("k") == "mem":      # replay of an extra() memory case: number of distinct outcomes over the orders
        res = [_mem_run(md, *case["args"]) for md in order_modes(case.get("korders", 6))]
        return [len({tuple(r) for r in res})]
    k = case.get("korders", 6)
    modes = order_modes(k)
    base = run_once(case, modes[0])
    out = list(base)
    for j, mode in enumerate(modes[1:], 1):
        t = run_once(case, mode)
        if t != base:
            out += [-555, j]
            break
    if case["uprocs"]:
        t = run_once(case, modes[0], variant="rtl")
        if t != base:
            out += [-556]
    return out


# ------------------------------------------------------------------ the scenario as a Gallina term
def _sh(w, sg):
    return f"(Sh {z(w)} {blit(sg)})"


def _nats(xs):
    return "[" + "; ".join(f"{int(x)}%nat" for x in xs) + "]"


def _onat(x):
    return "None" if x is None else f"(Some {int(x)}%nat)"


def _trig(p, case):
    if p[0] == "edge":
        return [f"TEdge {p[1]}%nat {z(p[2])} {blit(p[3])}"]
    if p[0] == "delay":
        return [f"TDelay {z(p[1])}"]
    if p[0] == "changed":
        return [f"TChanged {i}%nat" for i in p[1]]
    if p[0] == "sample":
        return [f"TSample {i}%nat" for i in p[1]]
    raise ValueError(p)


def _tick_spec(case, d, samples):
    dom = case["doms"][d]
    pol = dom["edge"] == "pos"
    rst = f"TSample {dom['rst']}%nat" if dom["rst"] is not None else "TConst 0"
    return [f"TEdge {dom['clk']}%nat 0 {blit(pol)}", "TConst 0", rst] + [f"TSample {i}%nat" for i in samples]


def _spec(parts):
    return "[" + "; ".join(parts) + "]"


def _op(op, case):
    o = op[0]
    if o == "set":
        w, sg, _, _ = case["sigs"][op[1]]
        return f"OSet {op[1]}%nat {_sh(w, sg)} {z(op[2])}"
    if o == "get":
        return f"OGet {op[1]}%nat"
    if o == "tick":
        return f"OAwait {_spec(_tick_spec(case, op[1], op[2]))} true"
    if o == "delay":
        return f"OAwait [TDelay {z(op[1])}] false"
    if o == "combo":
        return f"OAwait {_spec([t for p in op[1] for t in _trig(p, case)])} false"
    if o == "until":
        return f"OUntil {_spec(_tick_spec(case, op[1], op[2] + [op[3]]))}"
    if o == "repeat":
        return f"ORepeat {_spec(_tick_spec(case, op[1], op[2]))} {int(op[3])}%nat"
    raise ValueError(o)


def rtl_processes(case):
    """(fragment, domain) pairs in the order _FragmentCompiler walks the elaborated design of the "proc" variant,
    each serialised with the case's signal numbering."""
    from amaranth.hdl._ir import Fragment
    b = build(case, "proc")
    design = Fragment.get(b.top, platform=None).prepare()
    sm = AS.SigMap(b.sigs)
    n = len(b.sigs)
    shapes = [[w, bool(sg)] for (w, sg, _, _) in case["sigs"]]
    out = []

    def walk(frag):
        for dn, stmts in frag.statements.items():
            terms = AS.ser_stmts(stmts, sm)
            if dn == "comb":
                inputs = sorted({sm.get(s) for s in stmts._rhs_signals()})
                out.append(f"DComb {AS.coq_stmts(terms, shapes)} {_nats(inputs)}")
            else:
                cd = frag.domains[dn]
                pol = 1 if cd.clk_edge == "pos" else 0
                rst = None if cd.rst is None else sm.get(cd.rst)
                out.append(f"DSync {AS.coq_stmts(terms, shapes)} {sm.get(cd.clk)}%nat {pol} {_onat(rst)} "
                           f"{blit(bool(cd.async_reset))}")
        for sub, _name, _loc in frag.subfragments:
            walk(sub)
    walk(design.fragment)
    if len(sm.signals) != n:
        raise ValueError("design uses a signal outside the case's table")
    return out


def coq_term(case):
    shapes = [[w, bool(sg)] for (w, sg, _, _) in case["sigs"]]
    sigs = "[" + "; ".join(f"Build_sigdesc {_sh(w, sg)} {z(init)} {blit(rl)}" for (w, sg, init, rl) in case["sigs"]) + "]"
    ds = rtl_processes(case)
    for d, period, phase in case["clocks"]:
        ph = "None" if phase is None else f"(Some {z(phase)})"
        ds.append(f"DClock {case['doms'][d]['clk']}%nat {ph} {z(period)}")
    for up in case["uprocs"]:
        f = G.coq_expr(up["f"], shapes)
        if up["k"] == "comb":
            ds.append(f"DUComb {up['out']}%nat {_nats(up['ins'])} {f}")
        else:
            dom = case["doms"][up["dom"]]
            ds.append(f"DUSync {up['out']}%nat {dom['clk']}%nat {blit(dom['edge'] == 'pos')} {_onat(dom['rst'])} "
                      f"{_nats(up['ins'])} {f}")
    tbs = "[" + "; ".join("[" + "; ".join(_op(op, case) for op in script) + "]" for script in case["tbs"]) + "]"
    return f"k_run {sigs} [{'; '.join(ds)}] {tbs} {z(case['t_end'])}"


# ------------------------------------------------------------------ generators
PERIODS = [1, 2, 3, 7, 10, 1000, 999983]
OPS_U = ["+", "-", "*", "&", "|", "^", "==", "!=", "<", ">="]


class SGen(G.Gen):
    """exprgen generator whose leaves are restricted to an allowed set of signals"""
    def __init__(self, rng, sigs, allowed, **kw):
        super().__init__(rng, sigs, **kw)
        self.allowed = list(allowed)

    def leaf(self):
        r = self.rng
        if r.random() < 0.75 and self.allowed:
            return ["s", r.choice(self.allowed)]
        w, sg = G.rand_shape(r, self.maxw)
        return ["c", G.rand_value(r, w, sg), w, sg]


def _uterm(rng, leaves, d):
    """term in the subset evaluated by pyden"""
    if d <= 0 or rng.random() < 0.2:
        if rng.random() < 0.8 and leaves:
            return ["s", rng.choice(leaves)]
        w = rng.randrange(1, 5)
        return ["c", rng.randrange(0, 1 << w), w, False]
    c = rng.random()
    if c < 0.15:
        # no "~": on an unsigned operand Amaranth's ~ stays inside the operand's width, Python's does not
        return ["o1", rng.choice(["-", "b"]), _uterm(rng, leaves, d - 1)]
    return ["o2", rng.choice(OPS_U), _uterm(rng, leaves, d - 1), _uterm(rng, leaves, d - 1)]


def _clock_case(period, phase, edge, style, rst, seed):
    rng = random.Random(f"clk:{seed}")
    half = period // 2
    sigs = [[1, False, 0, False]]
    dom = {"name": "sync", "edge": edge, "clk": 0, "rst": None}
    if rst:
        sigs.append([1, False, 0, False])
        dom["rst"] = 1
    r = len(sigs)
    sigs.append([4, False, 0, False])           # a counter in the domain
    mods = [{"parent": None, "comb": [], "sync": [[0, r, ["o2", "+", ["s", r], ["c", 1, 1, False]], None]]}]
    n = 7
    if style == "changed":
        s0 = [["combo", [["changed", [0]]]] for _ in range(n)]
    elif style == "edges":
        s0 = [["combo", [["edge", 0, 0, bool((i + (edge == "neg")) % 2 == 0)]]] for i in range(n)]
    elif style == "tick":
        s0 = [["tick", 0, [r]] for _ in range(n // 2 + 1)]
    else:
        s0 = [["repeat", 0, [r], 3], ["get", r], ["until", 0, [], r]]
    tbs = [s0]
    if rng.random() < 0.5:
        tbs.append([["tick", 0, []], ["get", r], ["combo", [["edge", 0, 0, False]]], ["get", r], ["tick", 0, [r]]])
    ph = phase if phase is not None else 0
    return {"sigs": sigs, "doms": [dom], "mods": mods, "uprocs": [], "clocks": [[0, period, phase]], "tbs": tbs,
            "t_end": ph + 12 * max(period, 1) + 10, "r": f"clock:{style}"}


def _delay_case(rng):
    nclk = rng.randrange(0, 3)
    sigs, doms, clocks, mods = [], [], [], []
    base = rng.choice(PERIODS[1:])
    for d in range(nclk):
        clk = len(sigs)
        sigs.append([1, False, 0, False])
        doms.append({"name": ["sync", "b"][d], "edge": rng.choice(["pos", "pos", "neg"]), "clk": clk, "rst": None})
        period = base * rng.choice((1, 2, 3))
        clocks.append([d, period, rng.choice((None, 0, 1, period // 2, period, rng.randrange(0, 2 * period + 1)))])
    cnts = []
    for d in range(nclk):
        r = len(sigs)
        sigs.append([5, False, rng.randrange(0, 32), False])
        cnts.append(r)
        mods.append({"parent": None, "comb": [], "sync": [[d, r, ["o2", "+", ["s", r], ["c", 1, 1, False]], None]]})
    if not cnts:
        sigs.append([3, False, 2, False])
        cnts.append(len(sigs) - 1)
    halves = [p // 2 for _, p, _ in clocks] or [base]
    tbs = []
    total = 0
    for k in range(rng.randrange(1, 4)):
        script, t = [], 0
        for _ in range(rng.randrange(2, 9)):
            h = rng.choice(halves)
            dl = rng.choice((0, 0, 1, h, 2 * h, h + 1, max(h - 1, 0), 3 * h, rng.randrange(0, 4 * h + 2)))
            script.append(["delay", dl])
            t += dl
            if rng.random() < 0.7:
                script.append(["get", rng.choice(cnts)])
        total = max(total, t)
        tbs.append(script)
    return {"sigs": sigs, "doms": doms, "mods": mods, "uprocs": [], "clocks": clocks, "tbs": tbs,
            "t_end": total + 4 * max(halves) + 5, "r": f"delay:{nclk}clk"}


def _rand_value(rng, w, sg):
    return G.rand_value(rng, w, sg)


def _split_case(rng, kind):
    """one signal whose bits are owned by several simulator processes that fire in the same delta:
    "bus"  : 2-3 submodules each drive a slice of one bus combinationally from a common input;
    "reg"  : two clock domains with coincident edges (equal period and phase) each own a part of one register;
    "mixed": a comb process and a sync process (plus possibly a second domain) drive different bits of one signal.
    The whole signal is read after every set / tick."""
    sigs, doms, clocks, mods, tbs = [], [], [], [], []
    period = rng.choice((2, 4, 10, 14, 1000)) if kind != "bus" else 10
    phase = rng.choice((None, 0, 1, period // 2, period))
    ndom = {"bus": rng.choice((0, 1)), "reg": rng.choice((2, 2, 3)), "mixed": rng.choice((1, 2))}[kind]
    for d in range(ndom):
        clk = len(sigs)
        sigs.append([1, False, 0, False])
        doms.append({"name": ["sync", "b", "c"][d], "edge": "pos", "clk": clk, "rst": None})
        clocks.append([d, period, phase])          # equal period and phase: every edge coincides
    nin = rng.randrange(1, 3)
    ins = []
    for _ in range(nin):
        w = rng.randrange(2, 6)
        sigs.append([w, False, rng.randrange(0, 1 << w), False])
        ins.append(len(sigs) - 1)
    nparts = {"bus": rng.choice((2, 3)), "reg": ndom, "mixed": ndom + 1}[kind]
    signed = rng.random() < 0.25
    cuts = sorted(rng.sample(range(1, 9), nparts - 1))
    W = rng.randrange(cuts[-1] + 1, 10)
    bounds = list(zip([0] + cuts, cuts + [W]))
    init = rng.randrange(0, 1 << W)
    shared = len(sigs)
    sigs.append([W, signed, pynorm(W, signed, init), False])
    shapes = [[w, sg] for (w, sg, _, _) in sigs]
    nm = rng.randrange(1, nparts + 1) if kind != "bus" else nparts      # bus: one fragment per slice
    mods = [{"parent": (None if k == 0 or rng.random() < 0.5 else rng.randrange(0, k)), "comb": [], "sync": []}
            for k in range(nm)]

    def term(extra):
        leaves = ins + extra
        op = rng.choice(("+", "-", "^", "&", "|", "*"))
        a = ["s", rng.choice(leaves)]
        b = ["s", rng.choice(leaves)] if rng.random() < 0.5 else ["c", rng.randrange(1, 8), 3, False]
        return ["o2", op, a, b]
    for j, (lo, hi) in enumerate(bounds):
        tgt = [shared, lo, hi]
        mod = mods[j % nm]
        if kind == "bus" or (kind == "mixed" and j == 0):
            mod["comb"].append([tgt, term([])])
        else:
            d = j if kind == "reg" else j - 1
            # registers feed on the whole shared signal: a lost slice shows up in every later cycle
            mod["sync"].append([d, tgt, ["o2", "+", ["sl", ["s", shared], lo, hi], term([shared])], None])
    for k in range(rng.randrange(1, 3)):
        script = [["get", shared]]
        for _ in range(rng.randrange(4, 10)):
            c = rng.random()
            if c < 0.5 or not doms:
                i = rng.choice(ins)
                script.append(["set", i, rng.randrange(0, 1 << shapes[i][0])])
            elif c < 0.85:
                script.append(["tick", rng.randrange(ndom), [shared]])
            else:
                script.append(["delay", rng.choice((period, period // 2, 1))])
            script.append(["get", shared])
        tbs.append(script)
    return {"sigs": sigs, "doms": doms, "mods": mods, "uprocs": [], "clocks": clocks, "tbs": tbs,
            "t_end": 40 * period, "r": f"split:{kind}:{nparts}parts"}


def _tborder_case(rng):
    """3-5 testbenches that set and read the same signals and wake in the same time steps (same clock tick, equal
    delays, delay 0): what each one reads depends on the testbenches before it in insertion order having already run
    (and their set() calls having settled)."""
    sigs = [[1, False, 0, False]]                       # clk
    doms = [{"name": "sync", "edge": "pos", "clk": 0, "rst": None}]
    period = rng.choice((4, 10, 1000))
    clocks = [[0, period, rng.choice((None, 0, period // 2))]]
    shared = []
    for _ in range(rng.randrange(2, 4)):
        w = rng.randrange(2, 6)
        sigs.append([w, False, rng.randrange(0, 1 << w), False])
        shared.append(len(sigs) - 1)
    comb = len(sigs)
    sigs.append([7, False, 0, False])
    reg = len(sigs)
    sigs.append([6, False, rng.randrange(0, 64), False])
    a, b = shared[0], shared[1]
    mods = [{"parent": None, "comb": [[comb, ["o2", rng.choice(("+", "^", "*")), ["s", a], ["s", b]]]],
             "sync": [[0, reg, ["o2", "+", ["s", reg], ["s", rng.choice(shared)]], None]]}]
    shapes = [[w, sg] for (w, sg, _, _) in sigs]
    ntb = rng.randrange(3, 6)
    tbs = []
    common_delay = rng.choice((0, 1, period, period // 2))
    for k in range(ntb):
        script = []
        for _ in range(rng.randrange(3, 8)):
            c = rng.random()
            if c < 0.30:
                script.append(["tick", 0, [rng.choice(shared + [comb, reg])]])
            elif c < 0.50:
                script.append(["delay", common_delay if rng.random() < 0.8 else rng.choice((0, 1, period))])
            # after every wake-up (and at start): read, write, read the shared state
            for _ in range(rng.randrange(1, 3)):
                q = rng.random()
                if q < 0.45:
                    i = rng.choice(shared)
                    script.append(["set", i, rng.randrange(0, 1 << shapes[i][0])])
                else:
                    script.append(["get", rng.choice(shared + [comb, comb, reg])])
        script.append(["get", comb])
        tbs.append(script)
    return {"sigs": sigs, "doms": doms, "mods": mods, "uprocs": [], "clocks": clocks, "tbs": tbs,
            "t_end": 30 * period, "r": f"tborder:{ntb}tb"}


def _scenario(rng, want_uproc):
    ndom = rng.choice((1, 1, 2, 2, 3))
    sigs, doms = [], []
    for d in range(ndom):
        clk = len(sigs)
        sigs.append([1, False, 0, False])
        rst = None
        if rng.random() < 0.6:
            rst = len(sigs)
            sigs.append([1, False, 0, False])
        doms.append({"name": ["sync", "b", "c"][d], "edge": "neg" if rng.random() < 0.2 else "pos", "clk": clk, "rst": rst})

    def new_sig(maxw=6):
        w, sg = G.rand_shape(rng, maxw, allow_zero=False)
        sigs.append([w, sg, _rand_value(rng, w, sg), rng.random() < 0.2])
        return len(sigs) - 1
    ins = [new_sig() for _ in range(rng.randrange(1, 4))]
    regs = [new_sig() for _ in range(rng.randrange(1, 5))]
    nu = 0
    if want_uproc:
        nu = rng.choice((1, 1, 2))
    uouts = [new_sig() for _ in range(nu)]
    for u in uouts:
        sigs[u][3] = False      # the replacement process resets its output like a resettable register
    combs = [new_sig() for _ in range(rng.randrange(0, 4))]
    shapes = [[w, sg] for (w, sg, _, _) in sigs]
    nm = rng.randrange(1, 5)
    mods = [{"parent": (None if k == 0 or rng.random() < 0.4 else rng.randrange(0, k)), "comb": [], "sync": []}
            for k in range(nm)]
    depth = rng.choice((1, 1, 2))
    for j, c in enumerate(combs):
        g = SGen(rng, shapes, ins + regs + uouts + combs[:j], maxw=6, maxtotal=20)
        mods[rng.randrange(nm)]["comb"].append([c, g.expr(depth)])
    data = ins + regs + uouts + combs
    reg_dom = {}
    for r_ in regs:
        d = rng.randrange(ndom)
        reg_dom[r_] = d
        mod = mods[rng.randrange(nm)]
        g = SGen(rng, shapes, data, maxw=6, maxtotal=20)
        for _ in range(rng.choice((1, 1, 1, 2))):
            cond = None
            if rng.random() < 0.4:
                cond = ["s", rng.choice(data)] if rng.random() < 0.6 else g.expr(1)
            mod["sync"].append([d, r_, g.expr(depth), cond])
    uprocs = []
    for u in uouts:
        if rng.random() < 0.5:
            srcs = rng.sample(ins + regs, min(len(ins + regs), rng.randrange(1, 3)))
            uprocs.append({"k": "comb", "out": u, "ins": srcs, "f": _uterm(rng, srcs, 2)})
        else:
            pool = ins + regs + combs
            srcs = rng.sample(pool, min(len(pool), rng.randrange(1, 3)))
            uprocs.append({"k": "sync", "out": u, "dom": rng.randrange(ndom), "ins": srcs,
                           "f": _uterm(rng, srcs + [u], 2)})
    # comb processes driven by user comb processes must not feed them back: user comb reads only ins + regs (acyclic)
    base = rng.choice(PERIODS)
    clocks = []
    for d in range(ndom):
        if rng.random() < 0.85:
            mult = rng.choice((1, 2, 3)) if base > 1 else rng.choice((2, 3))
            period = base * mult
            phase = rng.choice((None, None, 0, 1, period // 2, period, rng.randrange(0, 2 * period + 1)))
            clocks.append([d, period, phase])
    clocked = {d for d, _, _ in clocks}
    pmax = max([p for _, p, _ in clocks] or [base * 2])
    half = max(1, pmax // 2)
    tbs = []
    for k in range(rng.randrange(1, 4)):
        script = []
        clkval = {d: 0 for d in range(ndom)}
        for _ in range(rng.randrange(3, 26)):
            c = rng.random()
            if c < 0.24:
                s = rng.choice(ins)
                w, sg = shapes[s]
                v = _rand_value(rng, w, sg)
                if rng.random() < 0.1:
                    v += rng.choice((-1, 1)) << w
                script.append(["set", s, v])
            elif c < 0.48:
                script.append(["get", rng.choice(data)])
            elif c < 0.62:
                d = rng.randrange(ndom)
                script.append(["tick", d, rng.sample(data, rng.randrange(0, min(3, len(data)) + 1))])
            elif c < 0.72:
                script.append(["delay", rng.choice((0, 1, half, pmax, half + 1, rng.randrange(0, 3 * pmax + 1)))])
            elif c < 0.78:
                if rng.random() < 0.5:
                    s, bit = doms[rng.randrange(ndom)]["clk"], 0
                else:
                    s = rng.choice(regs + combs + uouts) if rng.random() < 0.8 else rng.choice(ins)
                    bit = rng.randrange(shapes[s][0])
                script.append(["combo", [["edge", s, bit, rng.random() < 0.6]]])
            elif c < 0.83:
                script.append(["combo", [["changed", rng.sample(data, rng.randrange(1, min(2, len(data)) + 1))]]])
            elif c < 0.86:
                d = rng.randrange(ndom)
                cond = rng.choice(data)
                script.append(["until", d, rng.sample(data, rng.randrange(0, 3)), cond])
            elif c < 0.91:
                d = rng.randrange(ndom)
                script.append(["repeat", d, rng.sample(data, rng.randrange(0, 3)), rng.randrange(1, 5)])
            elif c < 0.96:
                parts = []
                for _ in range(rng.randrange(2, 4)):
                    q = rng.random()
                    if q < 0.3:
                        s = rng.choice(data)
                        parts.append(["edge", s, rng.randrange(shapes[s][0]), rng.random() < 0.5])
                    elif q < 0.55:
                        parts.append(["delay", rng.choice((0, 1, half, pmax, rng.randrange(0, 3 * pmax + 1)))])
                    elif q < 0.8:
                        parts.append(["changed", [rng.choice(data)]])
                    else:
                        parts.append(["sample", rng.sample(data, rng.randrange(1, min(2, len(data)) + 1))])
                if all(p[0] == "sample" for p in parts):
                    parts.append(["delay", half])
                while parts[0][0] == "sample":       # ctx itself has no .sample(); a combination starts with a trigger
                    parts.append(parts.pop(0))
                script.append(["combo", parts])
            elif c < 0.98:
                d = rng.randrange(ndom)
                if doms[d]["rst"] is not None:
                    script.append(["set", doms[d]["rst"], rng.randrange(2)])
            else:
                unclocked = [d for d in range(ndom) if d not in clocked]
                if unclocked:
                    d = rng.choice(unclocked)
                    clkval[d] ^= 1
                    script.append(["set", doms[d]["clk"], clkval[d]])
        tbs.append(script)
    t_end = (rng.choice((8, 16, 24)) * pmax) if clocks else sum(op[1] for s in tbs for op in s if op[0] == "delay") + 10
    return {"sigs": sigs, "doms": doms, "mods": mods, "uprocs": uprocs, "clocks": clocks, "tbs": tbs,
            "t_end": t_end, "r": f"rand:{ndom}dom:{len(uprocs)}up:{len(clocks)}clk"}


def gen_cases(tier, seed):
    rng = random.Random(seed)
    thorough = tier == "thorough"
    k = 40 if thorough else 6
    cases = []
    n = 0
    for p in PERIODS:
        for mult in (1, 2, 3):
            period = p * mult
            phases = [None, 0, 1, period // 2, period, rng.randrange(0, 3 * period + 1)]
            for i, phase in enumerate(phases):
                styles = ["changed", "edges", "tick", "loops"] if thorough else \
                    [["changed", "edges", "tick", "loops"][(i + mult + n) % 4]]
                for style in styles:
                    n += 1
                    cases.append(_clock_case(period, phase, "neg" if n % 3 == 0 else "pos", style, n % 2 == 0, n))
    for _ in range(400 if thorough else 60):
        cases.append(_delay_case(rng))
    for i in range(3000 if thorough else 320):
        cases.append(_scenario(rng, want_uproc=(i % 3 == 0)))
    rng2 = random.Random(f"split:{seed}")
    for i in range(600 if thorough else 90):
        cases.append(_split_case(rng2, ("bus", "reg", "mixed")[i % 3]))
    rng3 = random.Random(f"tborder:{seed}")
    for i in range(400 if thorough else 50):
        cases.append(_tborder_case(rng3))
    for c in cases:
        c["korders"] = k
    return cases


def classify(c):
    return c["r"]


def nontrivial(c, obs):
    if -100 not in obs:
        return False
    inits = [s[2] for s in c["sigs"]]
    body = obs[:obs.index(-100)]
    final = obs[obs.index(-100) + 1: obs.index(-100) + 1 + len(inits)]
    return len(body) > 6 and (final != inits or any(v > 0 for v in body))


def known_finding(case, obs, model):
    return None


def explain(c):
    return __doc__.split("Trace records:")[1]


# ------------------------------------------------------------------ memories (not modelled): order comparison only
def _mem_run(mode, addr_a, addr_b, coincident=True, en_b=1):
    """lib.memory.Memory with write ports in domains a and b (data 0xAA / 0xBB), a read port; returns the rows."""
    from amaranth.hdl import Module, ClockDomain, Cat
    from amaranth.lib.memory import Memory
    from amaranth.sim import Simulator
    install()
    _Ctl.mode = None
    m = Module()
    m.domains.a = cd_a = ClockDomain("a")
    m.domains.b = cd_b = ClockDomain("b")
    m.submodules.mem = mem = Memory(shape=8, depth=4, init=[1, 2, 3, 4])
    wa = mem.write_port(domain="a")
    wb = mem.write_port(domain="b")
    rd = mem.read_port(domain="comb")
    sim = Simulator(m)
    rows = []

    async def tb(ctx):
        ctx.set(wa.addr, addr_a); ctx.set(wa.data, 0xAA); ctx.set(wa.en, 1)
        ctx.set(wb.addr, addr_b); ctx.set(wb.data, 0xBB); ctx.set(wb.en, en_b)
        if coincident:
            ctx.set(Cat(cd_a.clk, cd_b.clk), 3)
        else:
            ctx.set(cd_a.clk, 1)
            ctx.set(cd_b.clk, 1)
        for a in range(4):
            ctx.set(rd.addr, a)
            rows.append(int(ctx.get(rd.data)))
    sim.add_testbench(tb)
    _Ctl.mode = mode
    _Ctl.counter = 0
    try:
        sim.run()
    finally:
        _Ctl.mode = None
    return rows


def extra(tier, seed, findings):
    """Memories are outside the Coq model: write ports in two domains are compared across orders.  Disjoint addresses,
    non-coincident edges and a disabled second port must be order independent; the coincident same-address collision
    violates write_disjoint and is the known order dependence S1."""
    viol, cov = [], {}
    modes = order_modes(40 if tier == "thorough" else 6)
    benign = 0
    for (aa, ab, co, en) in [(0, 1, True, 1), (2, 3, True, 1), (0, 0, False, 1), (1, 1, True, 0), (3, 3, False, 1)]:
        res = [_mem_run(md, aa, ab, co, en) for md in modes]
        benign += 1
        if any(r != res[0] for r in res):
            viol.append({"property": ID, "kind": "input", "case": {"k": "mem", "args": [aa, ab, co, en], "korders": len(modes)},
                         "expected_by_model": [1], "observed": [len({tuple(r) for r in res})],
                         "explain": "memory rows depend on the set iteration order although the two write ports never "
                                    "write one row in one delta"})
    res = [_mem_run(md, 0, 0, True, 1) for md in modes]
    dep = any(r != res[0] for r in res)
    cov["memory_order_cases"] = benign + 1
    cov["s1_collision_order_dependent"] = dep
    if dep:
        listed = any(f.get("property") == ID and f.get("id") == S1_ID and f.get("status") == "open" for f in findings)
        payload = {"property": ID, "kind": "input",
                   "case": {"k": "mem", "args": [0, 0, True, 1], "korders": len(modes), "finding": S1_ID,
                            "what": "Memory depth 4, write ports in domains a and b both enabled on address 0 with data "
                                    "0xAA / 0xBB, ctx.set(Cat(clk_a, clk_b), 3)"},
                   "expected_by_model": [1], "observed": [len({tuple(r) for r in res})],
                   "row0_values": sorted({r[0] for r in res}),
                   "explain": "cross-domain same-address write collision: the surviving row depends on the process order "
                              "(violates write_disjoint; undefined in hardware, silent in the simulator)"}
        if listed:
            payload["known"] = f"{S1_ID}: row 0 ends as {sorted({r[0] for r in res})} depending on the process order"
        viol.append(payload)
    return viol, cov

"""C08 — simulation results do not depend on process scheduling order.

Correspondence (differential, no source hook in /repo): the three unordered Python sets of the engine
(`PySimEngine._processes`, `_active_triggers`, `_PyEngineState.pending`; additionally the local sets of
`_PyTimeline.advance` and `_FragmentCompiler`) are created as `OrdSet`, a `set` subclass whose iteration order is a
seeded permutation of a deterministic key order (installed by rebinding the name `set` in the namespaces of
amaranth.sim.pysim / amaranth.sim._pyrtl at import of this module and checked on every engine).  Each generated
scenario is run under k orders (sorted, reversed, fixed seeded permutations, a fresh permutation at every iteration)
and all testbench observation traces + final signal values must be identical; scenarios with user processes are also
run with every process replaced by the equivalent circuit (docs/simulator.rst "Replacing circuits with code") and must
give the same trace; the trace is finally compared with the trace of coq/Model/Engine.v evaluated in Coq under the
ascending order.

Trace records: [k,-1,v] ctx.get, [k,-2,now_fs,results...] completed await, [k,-7] BrokenTrigger, [k,-8] DomainReset,
[k,-9,now_fs] testbench k finished; then -100 and the final value of every signal.  Markers appended by the harness:
[-555, j] trace under order j differs from order 0; [-556] process / circuit variants differ."""
import hashlib, itertools, random
from common import z, zlist, blit
import exprgen as G
import astser as AS

ID = "C08"
LEVEL = "proof"
PROPS_FILE = "C08.v"
RUN_MODULE = "RunC08"
TRANSLATOR_UNITS = ["pysim", "pyclock"]
SHARD = 40
RULE = ("dedicated clock cases: every period in {1,2,3,7,10,1000,999983} x {1,2,3} fs with phases {default,0,1,half,period,"
        "random} observed through changed/posedge/negedge/tick waits with elapsed_time() at each wake-up; delay cases: "
        "chains of delays (0, 1, half periods, coincident with edges, random) across 1-3 testbenches; random scenarios: "
        "1-3 clock domains (pos/neg edge, with/without reset), 1-4 submodules in a hierarchy with random comb/sync statements "
        "(exprgen terms, If-guards), 0-2 user processes in the two documented patterns, 1-3 clocks, 1-3 testbenches with "
        "scripts of <= 25 operations set/get/tick/tick.sample/delay/posedge/negedge/changed/until/repeat/trigger "
        "combinations; split-signal scenarios: one bus / register whose slices are owned by 2-3 comb fragments, by 2-3 clock "
        "domains with coincident edges, or by a comb and a sync process, the whole signal read after every set/tick. "
        "testbench-order scenarios: 3-5 testbenches setting and reading shared signals in the same time steps; "
        "every second random scenario enriched with asynchronous-reset domains (reset asserted/released between edges), "
        "domains declared inside submodules, ClockSignal/ResetSignal leaves, times in other units, `async for` over a tick; "
        "memory scenarios: lib.memory.Memory with 1-2 write ports (granularity, one or two domains), comb and transparent "
        "sync read ports, rows read/written by testbenches, incl. two ports writing different rows in one delta with the "
        "comb read data read right after the edge; misc scenarios: background testbenches + ctx.critical(), run_until, "
        "user processes looping over edges / periodic delays / several triggers with 1-2 outputs, clocks given as "
        "frequencies (kHz/MHz/GHz) and ns/ps/us. The design is compiled under the permuted orders too; sets of <= 4 "
        "elements go through all their permutations as k grows; the model is evaluated under ascending, descending and "
        "alternating orders (-554/-553 when they differ). "
        "Every scenario runs under k orders (quick 6, thorough 40) of all engine sets. "
        "non-trivial = some testbench record carries a value that differs from the signal's init or a non-zero time; "
        "distinct by case hash")
MODELLED = ("PySimEngine.step_design/advance, _PyEngineState.commit, _PySignalState.update/commit, _PyTriggerState, "
            "_PyTimeline, PyClockProcess, PyRTLProcess wakers, AsyncProcess.run (first-await rule), TestbenchContext.set/get, "
            "TickTrigger await/until/repeat, TriggerCombination one-shot awaits, Period/2 default phase are modelled in "
            "coq/Model/Engine.v (RTL statement semantics reused from Stmt.v/Process.v), as are memories (rows = slots; "
            "mem_comb/mem_sync processes), asynchronous-reset processes (rtl_sync_arst), tick()/until() lowering "
            "(tick_spec), Period units (period_fs), background testbenches/critical()/async for/run_until; the regenerated "
            "_PySignalState/_PyTimeline/commit/step_design/advance are proved equal to the model (translator unit pysim); "
            "validated only: coroutine mechanics "
            "(send, async generators, asyncgen hooks), Fragment elaboration, the compiled Python of _pyrtl. Abstractions: "
            "a memory's commit wakes its comb read ports even when no row changed (the model wakes them only on a change; "
            "a re-run of a comb process is idempotent); memory ports in asynchronous-reset domains and user sync processes "
            "in them are not generated; cross-domain same-row write collisions only in extra() (S1); a broken trigger object is the canonical dead "
            "trigger; stale timeline entries of abandoned trigger objects are dropped when the owner awaits again (they only "
            "cause empty advance() calls, so the loop is stopped by time, not by count)")
ASSUMPTIONS = ["write_disjoint: no two processes write a common signal bit in one delta; proved (C08_compiled_write_disjoint) "
               "for every system of compiled RTL processes over well-formed linear targets, clocks and the two documented "
               "user-process patterns whose LHS masks are pairwise disjoint (the single-driver rule); testbenches never "
               "write process-driven signals",
               "combinational logic is acyclic (every step_design converges)",
               "periods below 2^53 fs for the default phase (float division in Period.__truediv__)"]

CAP = 4000          # = RFUEL in coq/Harness/RunC08.v
S1_ID = "S1-cross-domain-write-collision-order"


# ------------------------------------------------------------------ order-controlled sets
class _Ctl:
    mode = None      # None: plain set order; ("fixed", seed) ; ("fresh", seed) ; ("sorted",) ; ("reversed",)
    counter = 0


def _keyof(x, depth=0):
    t = type(x).__name__
    try:
        if t == "PyRTLProcess":
            co = x.run.__code__
            return ("rtl", bool(x.is_comb), co.co_code.hex(), repr(co.co_consts), repr(co.co_names))
        if t == "PyClockProcess":
            return ("clk", x.slot)
        if t == "AsyncProcess":
            return ("async", getattr(x.constructor, "__name__", "?"))
        if t == "_PyTriggerState":
            return ("trig", _keyof(x._combination._process, depth + 1),
                    tuple(type(tr).__name__ for tr in x._combination._triggers))
        if t == "_PySignalState":
            return ("sig", x.signal.name)
        if t == "_PyMemoryState":
            return ("mem", repr(x.memory))
        if t == "_PyMemoryChange":
            return ("memch", _keyof(x.state, depth + 1), x.addr)
        if t == "str":
            return ("str", x)
        if t == "function" and depth < 3:
            cells = x.__closure__ or ()
            ks = []
            for c in cells:
                try:
                    ks.append(_keyof(c.cell_contents, depth + 1))
                except ValueError:
                    ks.append(("empty",))
            return ("fn", x.__qualname__, tuple(ks))
        if t in ("DelayTrigger",):
            return ("delay", x.interval.femtoseconds)
        if t in ("EdgeTrigger",):
            return ("edge", x.signal.name, x.bit, x.polarity)
    except Exception:
        pass
    return ("other", t)


class OrdSet(set):
    __slots__ = ()

    def __iter__(self):
        mode = _Ctl.mode
        if mode is None:
            return set.__iter__(self)
        items = list(set.__iter__(self))
        if len(items) < 2:
            return iter(items)
        keys = {id(e): repr(_keyof(e)) for e in items}
        items.sort(key=lambda e: keys[id(e)])
        if mode[0] == "sorted":
            return iter(items)
        if mode[0] == "reversed":
            items.reverse()
            return iter(items)
        if mode[0] == "perm" and len(items) <= 4:
            # small sets: the mode number enumerates ALL permutations (thorough: 0..23 covers 4! of them)
            perms = list(itertools.permutations(items))
            return iter(perms[(mode[1] + 1) % len(perms)])
        if mode[0] == "fresh":
            _Ctl.counter += 1
            rnd = random.Random(f"{mode[1]}:{_Ctl.counter}")
        else:
            # a fixed permutation per set CONTENT (not per size): two sets of equal size are shuffled independently
            digest = hashlib.sha1("|".join(keys[id(e)] for e in items).encode()).hexdigest()
            rnd = random.Random(f"{mode[0]}:{mode[1]}:{digest}")
        rnd.shuffle(items)
        return iter(items)


_installed = False


def install():
    """No source change: rebinding the global name `set` of the two engine modules makes every set they create an OrdSet
    (slots keep a reference to the `pending` object they were created with, so it has to be an OrdSet from the start)."""
    global _installed
    if _installed:
        return
    import amaranth.sim.pysim as pysim
    import amaranth.sim._pyrtl as pyrtl
    pysim.set = OrdSet
    pyrtl.set = OrdSet
    orig_init = pysim.PySimEngine.__init__

    def init(self, design):
        orig_init(self, design)
        # belt and braces: whatever the namespaces did, the three sets are order-controlled
        if not isinstance(self._processes, OrdSet):
            self._processes = OrdSet(self._processes)
        if not isinstance(self._active_triggers, OrdSet):
            self._active_triggers = OrdSet(self._active_triggers)
        assert isinstance(self._state.pending, OrdSet), "pending is not order-controlled"
    pysim.PySimEngine.__init__ = init
    _installed = True


def order_modes(k):
    """sorted, reversed, then alternately: the j-th permutation of every set of <= 4 elements (content-seeded shuffle of
    larger ones) and a fresh permutation at every iteration"""
    modes = [("sorted",), ("reversed",)]
    j = 0
    while len(modes) < k:
        modes.append(("fresh", j) if j % 3 == 2 else ("perm", j))
        j += 1
    return modes[:k]


# ------------------------------------------------------------------ python-integer evaluation of process functions
def pyden(t, env):
    k = t[0]
    if k == "c":
        return t[1]
    if k == "s":
        return env[t[1]]
    if k == "o1":
        a = pyden(t[2], env)
        return {"~": lambda: ~a, "-": lambda: -a, "b": lambda: int(a != 0)}[t[1]]()
    if k == "o2":
        a, b = pyden(t[2], env), pyden(t[3], env)
        op = t[1]
        if op == "+": return a + b
        if op == "-": return a - b
        if op == "*": return a * b
        if op == "&": return a & b
        if op == "|": return a | b
        if op == "^": return a ^ b
        if op == "==": return int(a == b)
        if op == "!=": return int(a != b)
        if op == "<": return int(a < b)
        if op == ">=": return int(a >= b)
    if k == "sl":
        return (pyden(t[1], env) >> t[2]) & ((1 << (t[3] - t[2])) - 1)
    raise ValueError(t)


def pynorm(w, sg, v):
    v &= (1 << w) - 1
    if sg and w and v >> (w - 1):
        v -= 1 << w
    return v


# ------------------------------------------------------------------ building the real design
class Built:
    pass


UNITS = ["s", "ms", "us", "ns", "ps", "fs", "Hz", "kHz", "MHz", "GHz"]      # index = unit code of Engine.period_fs
_UNIT_FS = [10 ** 15, 10 ** 12, 10 ** 9, 10 ** 6, 10 ** 3, 1]


def tspec(case, fs):
    """a time as (unit code, integer value).  A plain int is femtoseconds; with case["units"] it is written in the
    coarsest time unit that divides it (Period(ns=3) instead of Period(fs=3000000)); [unit, value] is kept as given
    (frequency units: the model computes round(10^k / value) itself)."""
    if isinstance(fs, list):
        return UNITS.index(fs[0]), fs[1]
    if case.get("units") and fs > 0:
        for u, f in enumerate(_UNIT_FS):
            if fs % f == 0:
                return u, fs // f
    return 5, fs


def period_of(case, fs):
    from amaranth.hdl import Period
    u, v = tspec(case, fs)
    return Period(**{UNITS[u]: v})


def coq_time(case, fs):
    u, v = tspec(case, fs)
    return f"(period_fs {u}%nat {z(v)})"


def build(case, variant="proc"):
    """variant "proc": user processes are added with add_process; "rtl": each is replaced by the equivalent circuit."""
    from amaranth.hdl import Signal, Shape, Module, ClockDomain, ClockSignal, ResetSignal
    from amaranth.lib.memory import Memory
    b = Built()
    sigs = [None] * len(case["sigs"])
    cds = []
    for d, dom in enumerate(case["doms"]):
        cd = ClockDomain(dom["name"], clk_edge=dom["edge"], reset_less=dom["rst"] is None,
                         async_reset=bool(dom.get("async")))
        cds.append(cd)
        sigs[dom["clk"]] = cd.clk
        if dom["rst"] is not None:
            sigs[dom["rst"]] = cd.rst
    mems = []
    for mi, md in enumerate(case.get("mems", [])):
        mem = Memory(shape=Shape(md["w"], bool(md["sg"])), depth=md["depth"], init=md["init"])
        mems.append(mem)
        wps = []
        for wp in md["wports"]:
            kw = {} if wp["gran"] is None else {"granularity": wp["gran"]}
            port = mem.write_port(domain=case["doms"][wp["dom"]]["name"], **kw)
            wps.append(port)
            for idx, sig in zip(wp["sigs"], (port.addr, port.data, port.en)):
                sigs[idx] = sig
        for rp in md["rports"]:
            if rp["dom"] is None:
                port = mem.read_port(domain="comb")
            else:
                port = mem.read_port(domain=case["doms"][rp["dom"]]["name"], transparent_for=[wps[j] for j in rp["transp"]])
            for idx, sig in zip(rp["sigs"], (port.addr, port.data, port.en)):
                if idx is not None:
                    sigs[idx] = sig
        for a_ in range(md["depth"]):
            sigs[md["base"] + a_] = mem.data[a_]
    for i, (w, sg, init, rl) in enumerate(case["sigs"]):
        if sigs[i] is None:
            sigs[i] = Signal(Shape(w, bool(sg)), init=init, reset_less=bool(rl), name=f"s{i}")
        elif isinstance(sigs[i], Signal):
            # a signal created by the implementation (clock, reset, memory port member): the table must describe it
            assert (len(sigs[i]), bool(sigs[i].shape().signed), sigs[i].init) == (w, bool(sg), init), \
                f"signal table entry {i} does not describe {sigs[i]!r}"
    # right-hand sides may name a domain's clock / reset through ClockSignal / ResetSignal instead of the signal itself
    rsigs = list(sigs)
    if case.get("clk_leaf"):
        for dom in case["doms"]:
            rsigs[dom["clk"]] = ClockSignal(dom["name"])
            if dom["rst"] is not None:
                rsigs[dom["rst"]] = ResetSignal(dom["name"])
    top = Module()
    mods = []

    def lhs(tgt):       # a whole signal, or [sig, lo, hi]: a slice owned by this (fragment, domain)
        return sigs[tgt] if isinstance(tgt, int) else sigs[tgt[0]][tgt[1]:tgt[2]]
    for k, md in enumerate(case["mods"]):
        m = Module()
        for tgt, term in md["comb"]:
            m.d.comb += lhs(tgt).eq(G.build(term, rsigs))
        for d, tgt, term, cond in md["sync"]:
            dn = case["doms"][d]["name"]
            if cond is None:
                m.d[dn] += lhs(tgt).eq(G.build(term, rsigs))
            else:
                with m.If(G.build(cond, rsigs)):
                    m.d[dn] += lhs(tgt).eq(G.build(term, rsigs))
        mods.append(m)
    for d, cd in enumerate(cds):         # a domain is declared at the top or inside a submodule (and propagates upwards)
        where = case["doms"][d].get("where")
        (top if where is None else mods[where]).domains += cd
    for k, md in enumerate(case["mods"]):
        parent = top if md["parent"] is None else mods[md["parent"]]
        parent.submodules[f"m{k}"] = mods[k]
    for mi, md in enumerate(case.get("mems", [])):
        parent = top if md["parent"] is None else mods[md["parent"]]
        parent.submodules[f"mem{mi}"] = mems[mi]
    if variant == "rtl":
        for k, up in enumerate(case["uprocs"]):
            m = Module()
            if up["k"] == "comb":
                m.d.comb += sigs[up["out"]].eq(G.build(up["f"], sigs))
            elif up["k"] == "sync":
                m.d[case["doms"][up["dom"]]["name"]] += sigs[up["out"]].eq(G.build(up["f"], sigs))
            top.submodules[f"u{k}"] = m
    b.top, b.sigs, b.cds = top, sigs, cds
    return b


def _edge_arg(sigs, s, bit):
    sig = sigs[s]
    return sig if (len(sig) == 1 and bit == 0) else sig[bit]


def _combo(case, sigs, ctx, parts):
    trg = None
    for p in parts:
        src = ctx if trg is None else trg
        if p[0] == "edge":
            trg = src.edge(_edge_arg(sigs, p[1], p[2]), p[3])
        elif p[0] == "delay":
            trg = src.delay(period_of(case, p[1]))
        elif p[0] == "changed":
            trg = src.changed(*[sigs[i] for i in p[1]])
        elif p[0] == "sample":
            trg = src.sample(*[sigs[i] for i in p[1]])
    return trg


def _mk_uproc(case, b, k, up):
    sigs = b.sigs
    if up["k"] == "gen":
        # async for res in <trigger combination>: every output recomputed from the results and the old accumulators
        outs = up["outs"]
        shapes = {o: case["sigs"][o][:2] for o, _ in outs}

        async def proc(ctx):
            acc = {o: case["sigs"][o][2] for o, _ in outs}
            async for res in _combo(case, sigs, ctx, up["spec"]):
                env = dict(acc)
                env.update(zip(up["binds"], [int(v) for v in res]))
                acc = {o: pynorm(shapes[o][0], shapes[o][1], pyden(f, env)) for o, f in outs}
                for o, _ in outs:
                    ctx.set(sigs[o], acc[o])
        proc.__name__ = f"uproc{k}"
        return proc
    out = sigs[up["out"]]
    w, sg, init, _ = case["sigs"][up["out"]]
    ins = [sigs[i] for i in up["ins"]]
    f = up["f"]
    if up["k"] == "comb":
        async def proc(ctx):
            async for vals in ctx.changed(*ins):
                env = dict(zip(up["ins"], vals))
                ctx.set(out, pyden(f, env))
    else:
        cd = b.cds[up["dom"]]

        async def proc(ctx):
            acc = init
            async for clk_edge, rst, *vals in ctx.tick(cd).sample(*ins):
                if rst:
                    acc = init
                    ctx.set(out, acc)
                elif clk_edge:
                    env = dict(zip(up["ins"], vals))
                    env[up["out"]] = acc
                    acc = pynorm(w, sg, pyden(f, env))
                    ctx.set(out, acc)
    proc.__name__ = f"uproc{k}"
    return proc


def _mk_tb(case, b, k, script, trace):
    from amaranth.sim import BrokenTrigger, DomainReset
    sigs, cds = b.sigs, b.cds

    async def tb(ctx):
        def now():
            return ctx.elapsed_time().femtoseconds

        async def run_ops(ops):
            for op in ops:
                o = op[0]
                if o == "set":
                    ctx.set(sigs[op[1]], op[2])
                elif o == "get":
                    trace.extend([k, -1, int(ctx.get(sigs[op[1]]))])
                elif o == "tick":
                    res = await ctx.tick(cds[op[1]]).sample(*[sigs[i] for i in op[2]])
                    trace.extend([k, -2, now()] + [int(v) for v in res])
                elif o == "delay":
                    res = await ctx.delay(period_of(case, op[1]))
                    trace.extend([k, -2, now()] + [int(v) for v in res])
                elif o == "combo":
                    res = await _combo(case, sigs, ctx, op[1])
                    trace.extend([k, -2, now()] + [int(v) for v in res])
                elif o == "until":
                    res = await ctx.tick(cds[op[1]]).sample(*[sigs[i] for i in op[2]]).until(sigs[op[3]])
                    trace.extend([k, -2, now()] + [int(v) for v in res])
                elif o == "repeat":
                    res = await ctx.tick(cds[op[1]]).sample(*[sigs[i] for i in op[2]]).repeat(op[3])
                    trace.extend([k, -2, now()] + [int(v) for v in res])
                elif o == "for":
                    n = 0
                    async for res in ctx.tick(cds[op[1]]).sample(*[sigs[i] for i in op[2]]):
                        trace.extend([k, -2, now()] + [int(v) for v in res])
                        n += 1
                        if n >= op[3]:
                            break
                elif o == "crit":
                    with ctx.critical():
                        await run_ops(op[1])
                else:
                    raise ValueError(o)
        try:
            await run_ops(script)
        except BrokenTrigger:
            trace.extend([k, -7])
            return
        except DomainReset:
            trace.extend([k, -8])
            return
        trace.extend([k, -9, now()])
    tb.__name__ = f"tb{k}"
    return tb


def make_sim(case, variant):
    from amaranth.sim import Simulator
    install()
    b = build(case, variant)
    sim = Simulator(b.top)
    for d, period, phase in case["clocks"]:
        if phase is None:
            sim.add_clock(period_of(case, period), domain=b.cds[d])
        else:
            sim.add_clock(period_of(case, period), phase=period_of(case, phase), domain=b.cds[d])
    for k, up in enumerate(case["uprocs"]):
        if variant == "proc" or up["k"] == "gen":
            sim.add_process(_mk_uproc(case, b, k, up))
    trace = []
    bg = case.get("bg") or [False] * len(case["tbs"])
    for k, script in enumerate(case["tbs"]):
        sim.add_testbench(_mk_tb(case, b, k, script, trace), background=bool(bg[k]))
    return sim, b, trace


EXC_CODES = {"DriverConflict": 1, "DomainError": 2, "NameError": 3, "TypeError": 4, "ValueError": 5, "AssertionError": 6,
             "SyntaxError": 7, "RuntimeError": 8, "KeyError": 9, "IndexError": 10, "AttributeError": 11}


def run_once(case, mode, variant="proc"):
    from amaranth.hdl import Period
    trace, b, eng = [], None, None
    _Ctl.mode = mode                      # the sets built while the design is compiled are permuted as well
    _Ctl.counter = 0
    try:
        sim, b, trace = make_sim(case, variant)
        eng = sim._engine
        assert isinstance(eng._processes, OrdSet) and isinstance(eng._active_triggers, OrdSet) \
            and isinstance(eng._state.pending, OrdSet)
        if case.get("mode") == 1:
            sim.run_until(Period(fs=case["t_end"]))
        else:
            for _ in range(CAP):
                if not sim.advance():
                    break
                if eng.now > case["t_end"]:
                    break
                if (not eng._state.timeline.wakers and not eng._active_triggers
                        and not any(p.runnable for p in set.__iter__(eng._processes))
                        and not any(t.runnable for t in eng._testbenches)):
                    break       # quiescent: nothing can ever happen again
            else:
                trace.extend([-98])
    except Exception as ex:
        # the model never predicts an exception: any class is a mismatch, reported with its class
        name = type(ex).__name__
        trace.extend([-97, EXC_CODES.get(name, 100 + sum(map(ord, name)))])
    finally:
        _Ctl.mode = None
    final = [int(eng.get_value(s)) for s in b.sigs] if eng is not None else []
    return trace + [-100] + final


def run_impl(case):
    if case.get("k") == "mem":      # replay of an extra() memory case: number of distinct outcomes over the orders
        res = [_mem_run(md, *case["args"]) for md in order_modes(case.get("korders", 6))]
        return [len({tuple(r) for r in res})]
    k = case.get("korders", 6)
    modes = order_modes(k)
    base = run_once(case, modes[0])
    out = list(base)
    for j, mode in enumerate(modes[1:], 1):
        t = run_once(case, mode)
        if t != base:
            out += [-555, j]
            break
    if any(up["k"] != "gen" for up in case["uprocs"]):
        for mode in (modes[0], modes[1], modes[-1]):       # the circuit variant under several orders as well
            t = run_once(case, mode, variant="rtl")
            if t != base:
                out += [-556]
                break
    return out


# ------------------------------------------------------------------ the scenario as a Gallina term
def _sh(w, sg):
    return f"(Sh {z(w)} {blit(sg)})"


def _nats(xs):
    return "[" + "; ".join(f"{int(x)}%nat" for x in xs) + "]"


def _onat(x):
    return "None" if x is None else f"(Some {int(x)}%nat)"


def _trig(p, case):
    if p[0] == "edge":
        return [f"TEdge {p[1]}%nat {z(p[2])} {blit(p[3])}"]
    if p[0] == "delay":
        return [f"TDelay {coq_time(case, p[1])}"]
    if p[0] == "changed":
        return [f"TChanged {i}%nat" for i in p[1]]
    if p[0] == "sample":
        return [f"TSample {i}%nat" for i in p[1]]
    raise ValueError(p)


def _dd(case, d):
    """the domain as the model sees it; the lowering of tick()/until() to triggers is Engine.tick_spec"""
    dom = case["doms"][d]
    return f"(DD {dom['clk']}%nat {blit(dom['edge'] == 'pos')} {_onat(dom['rst'])} {blit(bool(dom.get('async')))})"


def _spec(parts):
    return "[" + "; ".join(parts) + "]"


def _op(op, case):
    o = op[0]
    if o == "set":
        w, sg, _, _ = case["sigs"][op[1]]
        return [f"OSet {op[1]}%nat {_sh(w, sg)} {z(op[2])}"]
    if o == "get":
        return [f"OGet {op[1]}%nat"]
    if o == "tick":
        return [f"OAwait (tick_spec {_dd(case, op[1])} {_nats(op[2])}) true"]
    if o == "delay":
        return [f"OAwait [TDelay {coq_time(case, op[1])}] false"]
    if o == "combo":
        return [f"OAwait {_spec([t for p in op[1] for t in _trig(p, case)])} false"]
    if o == "until":
        return [f"OUntil (until_spec {_dd(case, op[1])} {_nats(op[2])} {op[3]}%nat)"]
    if o == "repeat":
        return [f"ORepeat (tick_spec {_dd(case, op[1])} {_nats(op[2])}) {int(op[3])}%nat"]
    if o == "for":
        return [f"OFor (tick_spec {_dd(case, op[1])} {_nats(op[2])}) {int(op[3])}%nat"]
    if o == "crit":         # `with ctx.critical():` in a background testbench: critical inside, background again after
        return ["OCrit true"] + [t for x in op[1] for t in _op(x, case)] + ["OCrit false"]
    raise ValueError(o)


def rtl_processes(case):
    """(fragment, domain) pairs in the order _FragmentCompiler walks the elaborated design of the "proc" variant,
    each serialised with the case's signal numbering."""
    from amaranth.hdl import Cat
    from amaranth.hdl._ir import Fragment
    from amaranth.hdl._mem import MemoryInstance
    b = build(case, "proc")
    design = Fragment.get(b.top, platform=None).prepare()
    plain = [s for s in b.sigs if type(s).__name__ == "Signal"]
    sm = AS.SigMap([])
    for i, s in enumerate(b.sigs):          # rows are not signals: keep their indices out of the signal map
        if type(s).__name__ == "Signal":
            sm.index[id(s)] = i
    sm.signals = list(b.sigs)
    n = len(b.sigs)
    shapes = [[w, bool(sg)] for (w, sg, _, _) in case["sigs"]]
    out = []

    def ex(v):
        return G.coq_expr(AS.ser_value(v, sm), shapes)

    def walk(frag):
        if isinstance(frag, MemoryInstance):
            md = next(m for m in case["mems"] if b.sigs[m["base"]]._memory is frag._data)
            rowsh = _sh(md["w"], md["sg"])
            doms = {p._domain for p in frag._read_ports} | {p._domain for p in frag._write_ports}
            for dn in sorted(doms):
                rps = [p for p in frag._read_ports if p._domain == dn]
                if dn == "comb":
                    inputs = sorted({sm.get(s) for p in rps for s in p._addr._rhs_signals()})
                    rterms = [f"RP {ex(p._addr)} {ex(p._en)} {sm.get(p._data)}%nat []" for p in rps]
                    out.append(f"DMemComb {md['base']}%nat {md['depth']}%nat {rowsh} {_spec(rterms)} {_nats(inputs)}")
                else:
                    cd = frag.domains[dn]
                    if cd.async_reset and cd.rst is not None:
                        raise ValueError("memory ports in an asynchronous-reset domain are not modelled")
                    widx = [i for i, p in enumerate(frag._write_ports) if p._domain == dn]
                    wterms = []
                    for i in widx:
                        p = frag._write_ports[i]
                        en = Cat(bit.replicate(p._granularity) for bit in p._en)
                        wterms.append(f"WP {ex(p._addr)} {ex(p._data)} {ex(en)}")
                    rterms = [f"RP {ex(p._addr)} {ex(p._en)} {sm.get(p._data)}%nat "
                              f"{_nats([widx.index(j) for j in p._transparent_for])}" for p in rps]
                    out.append(f"DMemSync {md['base']}%nat {md['depth']}%nat {rowsh} {sm.get(cd.clk)}%nat "
                               f"{1 if cd.clk_edge == 'pos' else 0} {_spec(wterms)} {_spec(rterms)}")
        for dn, stmts in frag.statements.items():
            terms = AS.ser_stmts(stmts, sm)
            if dn == "comb":
                inputs = sorted({sm.get(s) for s in stmts._rhs_signals()})
                out.append(f"DComb {AS.coq_stmts(terms, shapes)} {_nats(inputs)}")
            else:
                cd = frag.domains[dn]
                rst = None if cd.rst is None else sm.get(cd.rst)
                if cd.async_reset and rst is not None:
                    out.append(f"DSyncA {AS.coq_stmts(terms, shapes)} {sm.get(cd.clk)}%nat {blit(cd.clk_edge == 'pos')} "
                               f"{rst}%nat")
                else:
                    out.append(f"DSync {AS.coq_stmts(terms, shapes)} {sm.get(cd.clk)}%nat "
                               f"{1 if cd.clk_edge == 'pos' else 0} {_onat(rst)} false")
        for sub, _name, _loc in frag.subfragments:
            walk(sub)
    walk(design.fragment)
    if len(sm.signals) != n:
        raise ValueError("design uses a signal outside the case's table")
    return out


def coq_term(case):
    shapes = [[w, bool(sg)] for (w, sg, _, _) in case["sigs"]]
    sigs = "[" + "; ".join(f"Build_sigdesc {_sh(w, sg)} {z(init)} {blit(rl)}" for (w, sg, init, rl) in case["sigs"]) + "]"
    ds = rtl_processes(case)
    for d, period, phase in case["clocks"]:
        pu, pv = tspec(case, period)
        ph = "None" if phase is None else "(Some ({}%nat, {}))".format(*map(z, tspec(case, phase)))
        ds.append(f"DClock {case['doms'][d]['clk']}%nat {ph} ({pu}%nat, {z(pv)})")
    for up in case["uprocs"]:
        if up["k"] == "gen":
            outs = "[" + "; ".join(f"({o}%nat, {G.coq_expr(f, shapes)})" for o, f in up["outs"]) + "]"
            ds.append(f"DUGen {_spec([t for p_ in up['spec'] for t in _trig(p_, case)])} {_nats(up['binds'])} {outs}")
            continue
        f = G.coq_expr(up["f"], shapes)
        if up["k"] == "comb":
            ds.append(f"DUComb {up['out']}%nat {_nats(up['ins'])} {f}")
        else:
            dom = case["doms"][up["dom"]]
            ds.append(f"DUSync {up['out']}%nat {dom['clk']}%nat {blit(dom['edge'] == 'pos')} {_onat(dom['rst'])} "
                      f"{_nats(up['ins'])} {f}")
    bg = case.get("bg") or [False] * len(case["tbs"])
    tbs = "[" + "; ".join(f"({blit(bg[k])}, [" + "; ".join(t for op in script for t in _op(op, case)) + "])"
                          for k, script in enumerate(case["tbs"])) + "]"
    return f"k_run {sigs} [{'; '.join(ds)}] {tbs} {z(case['t_end'])} {int(case.get('mode', 0))}"


# ------------------------------------------------------------------ generators
PERIODS = [1, 2, 3, 7, 10, 1000, 999983]
OPS_U = ["+", "-", "*", "&", "|", "^", "==", "!=", "<", ">="]


class SGen(G.Gen):
    """exprgen generator whose leaves are restricted to an allowed set of signals"""
    def __init__(self, rng, sigs, allowed, **kw):
        super().__init__(rng, sigs, **kw)
        self.allowed = list(allowed)

    def leaf(self):
        r = self.rng
        if r.random() < 0.75 and self.allowed:
            return ["s", r.choice(self.allowed)]
        w, sg = G.rand_shape(r, self.maxw)
        return ["c", G.rand_value(r, w, sg), w, sg]


def _uterm(rng, leaves, d):
    """term in the subset evaluated by pyden"""
    if d <= 0 or rng.random() < 0.2:
        if rng.random() < 0.8 and leaves:
            return ["s", rng.choice(leaves)]
        w = rng.randrange(1, 5)
        return ["c", rng.randrange(0, 1 << w), w, False]
    c = rng.random()
    if c < 0.15:
        # no "~": on an unsigned operand Amaranth's ~ stays inside the operand's width, Python's does not
        return ["o1", rng.choice(["-", "b"]), _uterm(rng, leaves, d - 1)]
    return ["o2", rng.choice(OPS_U), _uterm(rng, leaves, d - 1), _uterm(rng, leaves, d - 1)]


def _clock_case(period, phase, edge, style, rst, seed):
    rng = random.Random(f"clk:{seed}")
    half = period // 2
    sigs = [[1, False, 0, False]]
    dom = {"name": "sync", "edge": edge, "clk": 0, "rst": None}
    if rst:
        sigs.append([1, False, 0, False])
        dom["rst"] = 1
    r = len(sigs)
    sigs.append([4, False, 0, False])           # a counter in the domain
    mods = [{"parent": None, "comb": [], "sync": [[0, r, ["o2", "+", ["s", r], ["c", 1, 1, False]], None]]}]
    n = 7
    if style == "changed":
        s0 = [["combo", [["changed", [0]]]] for _ in range(n)]
    elif style == "edges":
        s0 = [["combo", [["edge", 0, 0, bool((i + (edge == "neg")) % 2 == 0)]]] for i in range(n)]
    elif style == "tick":
        s0 = [["tick", 0, [r]] for _ in range(n // 2 + 1)]
    else:
        s0 = [["repeat", 0, [r], 3], ["get", r], ["until", 0, [], r]]
    tbs = [s0]
    if rng.random() < 0.5:
        tbs.append([["tick", 0, []], ["get", r], ["combo", [["edge", 0, 0, False]]], ["get", r], ["tick", 0, [r]]])
    ph = phase if phase is not None else 0
    return {"sigs": sigs, "doms": [dom], "mods": mods, "uprocs": [], "clocks": [[0, period, phase]], "tbs": tbs,
            "t_end": ph + 12 * max(period, 1) + 10, "r": f"clock:{style}"}


def _delay_case(rng):
    nclk = rng.randrange(0, 3)
    sigs, doms, clocks, mods = [], [], [], []
    base = rng.choice(PERIODS[1:])
    for d in range(nclk):
        clk = len(sigs)
        sigs.append([1, False, 0, False])
        doms.append({"name": ["sync", "b"][d], "edge": rng.choice(["pos", "pos", "neg"]), "clk": clk, "rst": None})
        period = base * rng.choice((1, 2, 3))
        clocks.append([d, period, rng.choice((None, 0, 1, period // 2, period, rng.randrange(0, 2 * period + 1)))])
    cnts = []
    for d in range(nclk):
        r = len(sigs)
        sigs.append([5, False, rng.randrange(0, 32), False])
        cnts.append(r)
        mods.append({"parent": None, "comb": [], "sync": [[d, r, ["o2", "+", ["s", r], ["c", 1, 1, False]], None]]})
    if not cnts:
        sigs.append([3, False, 2, False])
        cnts.append(len(sigs) - 1)
    halves = [p // 2 for _, p, _ in clocks] or [base]
    tbs = []
    total = 0
    for k in range(rng.randrange(1, 4)):
        script, t = [], 0
        for _ in range(rng.randrange(2, 9)):
            h = rng.choice(halves)
            dl = rng.choice((0, 0, 1, h, 2 * h, h + 1, max(h - 1, 0), 3 * h, rng.randrange(0, 4 * h + 2)))
            script.append(["delay", dl])
            t += dl
            if rng.random() < 0.7:
                script.append(["get", rng.choice(cnts)])
        total = max(total, t)
        tbs.append(script)
    return {"sigs": sigs, "doms": doms, "mods": mods, "uprocs": [], "clocks": clocks, "tbs": tbs,
            "t_end": total + 4 * max(halves) + 5, "r": f"delay:{nclk}clk"}


def _rand_value(rng, w, sg):
    return G.rand_value(rng, w, sg)


def _split_case(rng, kind):
    """one signal whose bits are owned by several simulator processes that fire in the same delta:
    "bus"  : 2-3 submodules each drive a slice of one bus combinationally from a common input;
    "reg"  : two clock domains with coincident edges (equal period and phase) each own a part of one register;
    "mixed": a comb process and a sync process (plus possibly a second domain) drive different bits of one signal.
    The whole signal is read after every set / tick."""
    sigs, doms, clocks, mods, tbs = [], [], [], [], []
    period = rng.choice((2, 4, 10, 14, 1000)) if kind != "bus" else 10
    phase = rng.choice((None, 0, 1, period // 2, period))
    ndom = {"bus": rng.choice((0, 1)), "reg": rng.choice((2, 2, 3)), "mixed": rng.choice((1, 2))}[kind]
    for d in range(ndom):
        clk = len(sigs)
        sigs.append([1, False, 0, False])
        doms.append({"name": ["sync", "b", "c"][d], "edge": "pos", "clk": clk, "rst": None})
        clocks.append([d, period, phase])          # equal period and phase: every edge coincides
    nin = rng.randrange(1, 3)
    ins = []
    for _ in range(nin):
        w = rng.randrange(2, 6)
        sigs.append([w, False, rng.randrange(0, 1 << w), False])
        ins.append(len(sigs) - 1)
    nparts = {"bus": rng.choice((2, 3)), "reg": ndom, "mixed": ndom + 1}[kind]
    signed = rng.random() < 0.25
    cuts = sorted(rng.sample(range(1, 9), nparts - 1))
    W = rng.randrange(cuts[-1] + 1, 10)
    bounds = list(zip([0] + cuts, cuts + [W]))
    init = rng.randrange(0, 1 << W)
    shared = len(sigs)
    sigs.append([W, signed, pynorm(W, signed, init), False])
    shapes = [[w, sg] for (w, sg, _, _) in sigs]
    nm = rng.randrange(1, nparts + 1) if kind != "bus" else nparts      # bus: one fragment per slice
    mods = [{"parent": (None if k == 0 or rng.random() < 0.5 else rng.randrange(0, k)), "comb": [], "sync": []}
            for k in range(nm)]

    def term(extra):
        leaves = ins + extra
        op = rng.choice(("+", "-", "^", "&", "|", "*"))
        a = ["s", rng.choice(leaves)]
        b = ["s", rng.choice(leaves)] if rng.random() < 0.5 else ["c", rng.randrange(1, 8), 3, False]
        return ["o2", op, a, b]
    for j, (lo, hi) in enumerate(bounds):
        tgt = [shared, lo, hi]
        mod = mods[j % nm]
        if kind == "bus" or (kind == "mixed" and j == 0):
            mod["comb"].append([tgt, term([])])
        else:
            d = j if kind == "reg" else j - 1
            # registers feed on the whole shared signal: a lost slice shows up in every later cycle
            mod["sync"].append([d, tgt, ["o2", "+", ["sl", ["s", shared], lo, hi], term([shared])], None])
    for k in range(rng.randrange(1, 3)):
        script = [["get", shared]]
        for _ in range(rng.randrange(4, 10)):
            c = rng.random()
            if c < 0.5 or not doms:
                i = rng.choice(ins)
                script.append(["set", i, rng.randrange(0, 1 << shapes[i][0])])
            elif c < 0.85:
                script.append(["tick", rng.randrange(ndom), [shared]])
            else:
                script.append(["delay", rng.choice((period, period // 2, 1))])
            script.append(["get", shared])
        tbs.append(script)
    return {"sigs": sigs, "doms": doms, "mods": mods, "uprocs": [], "clocks": clocks, "tbs": tbs,
            "t_end": 40 * period, "r": f"split:{kind}:{nparts}parts"}


def _tborder_case(rng):
    """3-5 testbenches that set and read the same signals and wake in the same time steps (same clock tick, equal
    delays, delay 0): what each one reads depends on the testbenches before it in insertion order having already run
    (and their set() calls having settled)."""
    sigs = [[1, False, 0, False]]                       # clk
    doms = [{"name": "sync", "edge": "pos", "clk": 0, "rst": None}]
    period = rng.choice((4, 10, 1000))
    clocks = [[0, period, rng.choice((None, 0, period // 2))]]
    shared = []
    for _ in range(rng.randrange(2, 4)):
        w = rng.randrange(2, 6)
        sigs.append([w, False, rng.randrange(0, 1 << w), False])
        shared.append(len(sigs) - 1)
    comb = len(sigs)
    sigs.append([7, False, 0, False])
    reg = len(sigs)
    sigs.append([6, False, rng.randrange(0, 64), False])
    a, b = shared[0], shared[1]
    mods = [{"parent": None, "comb": [[comb, ["o2", rng.choice(("+", "^", "*")), ["s", a], ["s", b]]]],
             "sync": [[0, reg, ["o2", "+", ["s", reg], ["s", rng.choice(shared)]], None]]}]
    shapes = [[w, sg] for (w, sg, _, _) in sigs]
    ntb = rng.randrange(3, 6)
    tbs = []
    common_delay = rng.choice((0, 1, period, period // 2))
    for k in range(ntb):
        script = []
        for _ in range(rng.randrange(3, 8)):
            c = rng.random()
            if c < 0.30:
                script.append(["tick", 0, [rng.choice(shared + [comb, reg])]])
            elif c < 0.50:
                script.append(["delay", common_delay if rng.random() < 0.8 else rng.choice((0, 1, period))])
            # after every wake-up (and at start): read, write, read the shared state
            for _ in range(rng.randrange(1, 3)):
                q = rng.random()
                if q < 0.45:
                    i = rng.choice(shared)
                    script.append(["set", i, rng.randrange(0, 1 << shapes[i][0])])
                else:
                    script.append(["get", rng.choice(shared + [comb, comb, reg])])
        script.append(["get", comb])
        tbs.append(script)
    tag = ""
    if rng.random() < 0.5:
        # relay: a MIDDLE testbench sleeps on changed(a) and is woken, during the pass over the testbenches, by the
        # set() of the first one, while the later ones are already runnable (woken by the same tick): it must still run
        # before them (list order is checked as each testbench is reached, not snapshotted at the start of the pass)
        tag = ":relay"
        wa, wb = shapes[a][0], shapes[b][0]
        va = sigs[a][2]
        first, relay = [], []
        for r in range(rng.randrange(2, 5)):
            va = (va + 1 + rng.randrange(0, (1 << wa) - 1)) % (1 << wa) if wa > 1 else 1 - va
            first += [["tick", 0, []], ["set", a, va], ["get", comb]]
            relay += [["combo", [["changed", [a]]]], ["get", a], ["set", b, rng.randrange(0, 1 << wb)], ["get", comb]]
        m = rng.randrange(1, ntb - 1)
        tbs[0] = first
        tbs[m] = relay
        for k in range(m + 1, ntb):                      # the later ones wake at every tick and read the relayed value
            tbs[k] = [x for r in range(len(first) // 3) for x in (["tick", 0, []], ["get", b], ["get", comb])]
    return {"sigs": sigs, "doms": doms, "mods": mods, "uprocs": [], "clocks": clocks, "tbs": tbs,
            "t_end": 30 * period, "r": f"tborder:{ntb}tb{tag}"}


def _map_leaves(t, fn):
    """apply fn to every ["s", i] leaf of a term"""
    k = t[0]
    if k == "s":
        return fn(t)
    if k == "c":
        return t
    if k == "o1":
        return [k, t[1], _map_leaves(t[2], fn)]
    if k == "o2":
        return [k, t[1], _map_leaves(t[2], fn), _map_leaves(t[3], fn)]
    if k == "sl":
        return [k, _map_leaves(t[1], fn), t[2], t[3]]
    if k == "pt":
        return [k, _map_leaves(t[1], fn), _map_leaves(t[2], fn), t[3], t[4]]
    if k == "cat":
        return [k, [_map_leaves(x, fn) for x in t[1]]]
    if k == "sw":
        return [k, _map_leaves(t[1], fn), [[ps, _map_leaves(e, fn)] for ps, e in t[2]]]
    return t


def _enrich(case, rng):
    """audit follow-up: asynchronous-reset domains, domains declared inside submodules, ClockSignal / ResetSignal leaves,
    times written in other units, `async for` over a tick"""
    sync_up_doms = {up["dom"] for up in case["uprocs"] if up["k"] == "sync"}
    if rng.random() < 0.5:
        case["clk_leaf"] = True
        ctl = [dom["clk"] for dom in case["doms"]] + [dom["rst"] for dom in case["doms"] if dom["rst"] is not None]
        for md in case["mods"]:
            for ent in md["comb"]:
                if rng.random() < 0.3:
                    ent[1] = ["o2", rng.choice(("^", "+", "&")), ent[1], ["s", rng.choice(ctl)]]
            for ent in md["sync"]:
                if rng.random() < 0.3:
                    ent[2] = ["o2", rng.choice(("^", "+", "|")), ent[2], ["s", rng.choice(ctl)]]

    def chain(k):
        out = []
        while k is not None:
            out.append(k)
            k = case["mods"][k]["parent"]
        return out
    for d, dom in enumerate(case["doms"]):
        if dom["rst"] is not None and d not in sync_up_doms and rng.random() < 0.45:
            dom["async"] = True
        if rng.random() < 0.5 and d not in sync_up_doms:
            # domains only propagate DOWN the hierarchy: declare the domain in a submodule that contains all its users
            # (modules with statements in it, or naming its clock / reset through ClockSignal / ResetSignal)
            ctl_d = {dom["clk"], dom["rst"]}
            users = []
            for k, md in enumerate(case["mods"]):
                terms = [e[1] for e in md["comb"]] + [e[2] for e in md["sync"]] + [e[3] for e in md["sync"] if e[3]]
                if any(e[0] == d for e in md["sync"]) or \
                        (case.get("clk_leaf") and any(ctl_d & set(G.sig_ids(t)) for t in terms)):
                    users.append(k)
            common = None
            for k in users:
                common = chain(k) if common is None else [x for x in common if x in chain(k)]
            cands = list(range(len(case["mods"]))) if common is None else common
            if cands:
                dom["where"] = rng.choice(cands)
    for d, dom in enumerate(case["doms"]):
        if dom.get("async"):
            # assert and release the asynchronous reset between clock edges, with reads right after
            regs_d = [e[1] for md in case["mods"] for e in md["sync"] if e[0] == d and isinstance(e[1], int)]
            script = rng.choice(case["tbs"])
            for v in (1, 0) if rng.random() < 0.7 else (1,):
                pos = rng.randrange(len(script) + 1)
                ins_ = [["set", dom["rst"], v]] + [["get", r_] for r_ in regs_d[:2]]
                script[pos:pos] = ins_
    if rng.random() < 0.4:
        case["units"] = True
    for script in case["tbs"]:
        for i, op in enumerate(script):
            if op[0] == "tick" and rng.random() < 0.25:
                script[i] = ["for", op[1], op[2], rng.randrange(1, 4)]
    tags = "".join(t for t, on in (("A", any(d_.get("async") for d_ in case["doms"])), ("L", case.get("clk_leaf")),
                                   ("U", case.get("units"))) if on)
    case["r"] += ":x" + tags
    return case


def _mem_case(rng, kind):
    """a lib.memory.Memory inside the design: 1-2 write ports (one or two domains whose edges never coincide), a comb
    read port and possibly a synchronous (transparent) one, logic consuming the read data; testbenches drive the port
    signals, read the comb read data IMMEDIATELY after the edge, read and write rows directly.
    kind "two_wr": two write ports of one domain write different rows in one delta while the comb read port watches one
    of them (the `changed` flag of _PyMemoryState.commit must be the OR over all queued rows)."""
    sigs, doms, clocks = [], [], []
    ndom = 1 if kind == "two_wr" else rng.choice((1, 1, 2))
    period = rng.choice((10, 20, 1000))
    for d in range(ndom):
        clk = len(sigs)
        sigs.append([1, False, 0, False])
        rst = None
        if rng.random() < 0.4:
            rst = len(sigs)
            sigs.append([1, False, 0, False])
        doms.append({"name": ["sync", "b"][d], "edge": "pos" if rng.random() < 0.8 else "neg", "clk": clk, "rst": rst})
        clocks.append([d, period, (0, 3)[d]])        # toggles at 0,5,10.. and 3,8,13..: edges never coincide
    sg = kind != "two_wr" and rng.random() < 0.2
    w = rng.randrange(2, 7)
    depth = rng.choice((2, 3, 4, 5))
    aw = (depth - 1).bit_length()
    init = [G.rand_value(rng, w, sg) for _ in range(rng.randrange(0, depth + 1))]
    nw = 2 if kind == "two_wr" else rng.choice((1, 2))
    wports, rports = [], []
    for j in range(nw):
        gran = None
        if not sg and rng.random() < 0.4:
            gran = rng.choice([g for g in range(1, w + 1) if w % g == 0])
        a, dd, e = len(sigs), len(sigs) + 1, len(sigs) + 2
        sigs += [[aw, False, 0, False], [w, sg, 0, False], [(w // gran) if gran else 1, False, 0, False]]
        wports.append({"dom": 0 if kind == "two_wr" else rng.randrange(ndom), "gran": gran, "sigs": [a, dd, e]})
    a, dd = len(sigs), len(sigs) + 1
    sigs += [[aw, False, 0, False], [w, sg, 0, False]]
    rports.append({"dom": None, "transp": [], "sigs": [a, dd, None]})
    if rng.random() < 0.6:
        d = rng.randrange(ndom)
        same = [j for j, wp in enumerate(wports) if wp["dom"] == d]
        a, dd, e = len(sigs), len(sigs) + 1, len(sigs) + 2
        sigs += [[aw, False, 0, False], [w, sg, 0, False], [1, False, 1, False]]
        rports.append({"dom": d, "transp": [j for j in same if rng.random() < 0.6], "sigs": [a, dd, e]})
    # design logic fed by the read data
    comb = len(sigs)
    sigs.append([w + 1, False, 0, False])
    reg = len(sigs)
    sigs.append([w, False, 0, False])
    mods = [{"parent": None, "comb": [[comb, ["o2", "+", ["s", rports[0]["sigs"][1]], ["c", 1, 1, False]]]],
             "sync": [[0, reg, ["o2", "^", ["s", reg], ["s", rports[-1]["sigs"][1]]], None]]}]
    base = len(sigs)
    initn = [init[i] if i < len(init) else 0 for i in range(depth)]
    for a_ in range(depth):
        sigs.append([w, sg, initn[a_], False])
    mems = [{"w": w, "sg": sg, "depth": depth, "init": init, "parent": rng.choice((None, 0)), "wports": wports,
             "rports": rports, "base": base}]
    rows = list(range(base, base + depth))
    rdata = [rp["sigs"][1] for rp in rports]
    tbs = []
    maxa = (1 << aw) - 1

    def val(i):
        ww, ss = sigs[i][0], sigs[i][1]
        return G.rand_value(rng, ww, ss)
    for k in range(rng.randrange(1, 3)):
        script = []
        for _ in range(rng.randrange(5, 13)):
            if kind == "two_wr" and k == 0:
                # both ports enabled on DIFFERENT rows; the comb read port watches the row of the FIRST port, whose data
                # changes, while the second port (queued last) often rewrites the value its row already holds
                a0 = rng.randrange(depth)
                a1 = rng.choice([x for x in range(depth) if x != a0])
                script += [["set", wports[0]["sigs"][0], a0], ["set", wports[0]["sigs"][1], val(wports[0]["sigs"][1])],
                           ["set", wports[0]["sigs"][2], (1 << sigs[wports[0]["sigs"][2]][0]) - 1],
                           ["set", wports[1]["sigs"][0], a1], ["set", wports[1]["sigs"][2], (1 << sigs[wports[1]["sigs"][2]][0]) - 1],
                           ["set", rports[0]["sigs"][0], a0], ["get", base + a1]]
                if rng.random() < 0.6:      # second port writes what is already there: its row does not change
                    script.insert(-1, ["get", base + a1])
                    script.append(["set", wports[1]["sigs"][1], 0])
                else:
                    script.append(["set", wports[1]["sigs"][1], val(wports[1]["sigs"][1])])
                script += [["tick", 0, []], ["get", rports[0]["sigs"][1]], ["get", comb], ["get", base + a0]]
                continue
            c = rng.random()
            if c < 0.35:
                port = rng.choice(wports)
                i = rng.choice(port["sigs"])
                script.append(["set", i, rng.randrange(0, maxa + 1) if i == port["sigs"][0] else
                               ((1 << sigs[i][0]) - 1 if (i == port["sigs"][2] and rng.random() < 0.5) else val(i))])
            elif c < 0.5:
                rp = rng.choice(rports)
                i = rng.choice([x for x in rp["sigs"] if x is not None and x != rp["sigs"][1]])
                script.append(["set", i, rng.randrange(0, maxa + 1) if i == rp["sigs"][0] else rng.randrange(2)])
            elif c < 0.68:
                script.append(["tick", rng.randrange(ndom), rng.sample(rdata + [comb, reg], rng.randrange(0, 3))])
                script.append(["get", rng.choice(rdata)])
            elif c < 0.8:
                script.append(["get", rng.choice(rows + rdata + [comb, reg])])
            elif c < 0.88:
                r_ = rng.choice(rows)
                script.append(["set", r_, val(r_) + (rng.choice((0, 0, 1 << w)))])
                script.append(["get", rdata[0]])
            elif c < 0.94:
                script.append(["delay", rng.choice((1, 5, 10, period))])
            else:
                for dom in doms:
                    if dom["rst"] is not None:
                        script.append(["set", dom["rst"], rng.randrange(2)])
                        break
        for r_ in rows[:2]:
            script.append(["get", r_])
        tbs.append(script)
    return {"sigs": sigs, "doms": doms, "mods": mods, "mems": mems, "uprocs": [], "clocks": clocks, "tbs": tbs,
            "t_end": 40 * period, "r": f"mem:{kind}:{nw}w{len(rports)}r{ndom}d" + (":s" if sg else "")}


def _misc_case(rng, kind):
    """script operations and processes outside the two documented patterns:
    "bg"   : background testbenches, `with ctx.critical():`, `async for` over a tick; the run ends with the critical ones;
    "until": the simulation is driven by Simulator.run_until(deadline) instead of advance() while critical;
    "gen"  : user processes that loop over an edge / a periodic delay / several triggers and drive one or two signals;
    "freq" : clock periods given as frequencies and other time units."""
    sigs = [[1, False, 0, False], [1, False, 0, False]]
    doms = [{"name": "sync", "edge": "pos", "clk": 0, "rst": 1, "async": rng.random() < 0.3}]
    period = rng.choice((4, 10, 14, 1000))
    clocks = [[0, period, rng.choice((None, 0, period // 2))]]
    case = {"doms": doms, "uprocs": [], "mode": 0}
    if kind == "freq":
        unit, v = rng.choice((("MHz", 3), ("MHz", 7), ("GHz", 3), ("GHz", 1000), ("kHz", 999983), ("MHz", 1000),
                              ("GHz", 7), ("ns", 7), ("ps", 999983), ("us", 1), ("GHz", 6), ("MHz", 125)))
        clocks = [[0, [unit, v], rng.choice((None, ["ps", 1], ["fs", 0]))]]
        period = {"MHz": round(10 ** 9 / v), "GHz": round(10 ** 6 / v), "kHz": round(10 ** 12 / v)}.get(unit) or \
            v * _UNIT_FS[UNITS.index(unit)]
        case["units"] = True

    def new_sig(w, init=0):
        sigs.append([w, False, init, False])
        return len(sigs) - 1
    a = new_sig(4, rng.randrange(16))
    b_ = new_sig(3, rng.randrange(8))
    cnt = new_sig(5, rng.randrange(32))
    cmb = new_sig(6)
    mods = [{"parent": None, "comb": [[cmb, ["o2", "+", ["s", a], ["s", cnt]]]],
             "sync": [[0, cnt, ["o2", "+", ["s", cnt], ["s", b_]], None]]}]
    data = [a, b_, cnt, cmb]
    if kind == "gen":
        for j in range(rng.randrange(1, 3)):
            outs = [new_sig(rng.randrange(3, 7), rng.randrange(8)) for _ in range(rng.choice((1, 1, 2)))]
            style = rng.choice(("edge", "delay", "multi"))
            if style == "edge":
                s_ = rng.choice((0, cnt))
                spec, binds = [["edge", s_, 0, rng.random() < 0.5], ["sample", [a, cnt]]], [90, a, cnt]
            elif style == "delay":
                spec, binds = [["delay", rng.choice((period, period // 2 + 1, 3 * period))], ["sample", [b_]]], [91, b_]
            else:
                spec, binds = [["changed", [a]], ["edge", 0, 0, True], ["sample", [b_]]], [a, 92, b_]
            leaves = [x for x in binds if x < 90] + outs
            up = {"k": "gen", "spec": spec, "binds": binds,
                  "outs": [[o, _uterm(rng, leaves, 2)] for o in outs]}
            case["uprocs"].append(up)
            data += outs
    tbs, bg = [], []
    ntb = rng.randrange(2, 4)
    for k in range(ntb):
        script = []
        is_bg = kind == "bg" and k > 0
        for _ in range(rng.randrange(3, 9)):
            c = rng.random()
            if c < 0.25:
                s_ = rng.choice((a, b_))
                script.append(["set", s_, rng.randrange(1 << sigs[s_][0])])
            elif c < 0.45:
                script.append(["get", rng.choice(data)])
            elif c < 0.6:
                script.append(["tick", 0, rng.sample(data, rng.randrange(0, 3))])
            elif c < 0.72:
                script.append(["for", 0, rng.sample(data, rng.randrange(0, 3)), rng.randrange(1, 5)])
            elif c < 0.82:
                script.append(["delay", rng.choice((0, 1, period, period // 2, 2 * period + 1))])
            elif c < 0.9 and is_bg:
                script.append(["crit", [["tick", 0, [cnt]], ["get", cmb], ["delay", period]]])
            elif c < 0.95:
                script.append(["repeat", 0, [cnt], rng.randrange(1, 4)])
            else:
                script.append(["set", 1, rng.randrange(2)])
        if is_bg and rng.random() < 0.5:
            script += [["for", 0, [cnt], 50]]          # a background testbench that would go on for ever
        tbs.append(script)
        bg.append(is_bg)
    case.update({"sigs": sigs, "mods": mods, "clocks": clocks, "tbs": tbs, "bg": bg,
                 "t_end": rng.choice((10, 20, 30)) * period, "r": f"misc:{kind}"})
    if kind == "until":
        case["mode"] = 1
        case["t_end"] = rng.choice((7, 12, 25)) * period + rng.randrange(0, period)
    return case


def _scenario(rng, want_uproc):
    ndom = rng.choice((1, 1, 2, 2, 3))
    sigs, doms = [], []
    for d in range(ndom):
        clk = len(sigs)
        sigs.append([1, False, 0, False])
        rst = None
        if rng.random() < 0.6:
            rst = len(sigs)
            sigs.append([1, False, 0, False])
        doms.append({"name": ["sync", "b", "c"][d], "edge": "neg" if rng.random() < 0.2 else "pos", "clk": clk, "rst": rst})

    def new_sig(maxw=6):
        w, sg = G.rand_shape(rng, maxw, allow_zero=False)
        sigs.append([w, sg, _rand_value(rng, w, sg), rng.random() < 0.2])
        return len(sigs) - 1
    ins = [new_sig() for _ in range(rng.randrange(1, 4))]
    regs = [new_sig() for _ in range(rng.randrange(1, 5))]
    nu = 0
    if want_uproc:
        nu = rng.choice((1, 1, 2))
    uouts = [new_sig() for _ in range(nu)]
    for u in uouts:
        sigs[u][3] = False      # the replacement process resets its output like a resettable register
    combs = [new_sig() for _ in range(rng.randrange(0, 4))]
    shapes = [[w, sg] for (w, sg, _, _) in sigs]
    nm = rng.randrange(1, 5)
    mods = [{"parent": (None if k == 0 or rng.random() < 0.4 else rng.randrange(0, k)), "comb": [], "sync": []}
            for k in range(nm)]
    depth = rng.choice((1, 1, 2))
    for j, c in enumerate(combs):
        g = SGen(rng, shapes, ins + regs + uouts + combs[:j], maxw=6, maxtotal=20)
        mods[rng.randrange(nm)]["comb"].append([c, g.expr(depth)])
    data = ins + regs + uouts + combs
    reg_dom = {}
    for r_ in regs:
        d = rng.randrange(ndom)
        reg_dom[r_] = d
        mod = mods[rng.randrange(nm)]
        g = SGen(rng, shapes, data, maxw=6, maxtotal=20)
        for _ in range(rng.choice((1, 1, 1, 2))):
            cond = None
            if rng.random() < 0.4:
                cond = ["s", rng.choice(data)] if rng.random() < 0.6 else g.expr(1)
            mod["sync"].append([d, r_, g.expr(depth), cond])
    uprocs = []
    for u in uouts:
        if rng.random() < 0.5:
            srcs = rng.sample(ins + regs, min(len(ins + regs), rng.randrange(1, 3)))
            uprocs.append({"k": "comb", "out": u, "ins": srcs, "f": _uterm(rng, srcs, 2)})
        else:
            pool = ins + regs + combs
            srcs = rng.sample(pool, min(len(pool), rng.randrange(1, 3)))
            uprocs.append({"k": "sync", "out": u, "dom": rng.randrange(ndom), "ins": srcs,
                           "f": _uterm(rng, srcs + [u], 2)})
    # comb processes driven by user comb processes must not feed them back: user comb reads only ins + regs (acyclic)
    base = rng.choice(PERIODS)
    clocks = []
    for d in range(ndom):
        if rng.random() < 0.85:
            mult = rng.choice((1, 2, 3)) if base > 1 else rng.choice((2, 3))
            period = base * mult
            phase = rng.choice((None, None, 0, 1, period // 2, period, rng.randrange(0, 2 * period + 1)))
            clocks.append([d, period, phase])
    clocked = {d for d, _, _ in clocks}
    pmax = max([p for _, p, _ in clocks] or [base * 2])
    half = max(1, pmax // 2)
    tbs = []
    for k in range(rng.randrange(1, 4)):
        script = []
        clkval = {d: 0 for d in range(ndom)}
        for _ in range(rng.randrange(3, 26)):
            c = rng.random()
            if c < 0.24:
                s = rng.choice(ins)
                w, sg = shapes[s]
                v = _rand_value(rng, w, sg)
                if rng.random() < 0.1:
                    v += rng.choice((-1, 1)) << w
                script.append(["set", s, v])
            elif c < 0.48:
                script.append(["get", rng.choice(data)])
            elif c < 0.62:
                d = rng.randrange(ndom)
                script.append(["tick", d, rng.sample(data, rng.randrange(0, min(3, len(data)) + 1))])
            elif c < 0.72:
                script.append(["delay", rng.choice((0, 1, half, pmax, half + 1, rng.randrange(0, 3 * pmax + 1)))])
            elif c < 0.78:
                if rng.random() < 0.5:
                    s, bit = doms[rng.randrange(ndom)]["clk"], 0
                else:
                    s = rng.choice(regs + combs + uouts) if rng.random() < 0.8 else rng.choice(ins)
                    bit = rng.randrange(shapes[s][0])
                script.append(["combo", [["edge", s, bit, rng.random() < 0.6]]])
            elif c < 0.83:
                script.append(["combo", [["changed", rng.sample(data, rng.randrange(1, min(2, len(data)) + 1))]]])
            elif c < 0.86:
                d = rng.randrange(ndom)
                cond = rng.choice(data)
                script.append(["until", d, rng.sample(data, rng.randrange(0, 3)), cond])
            elif c < 0.91:
                d = rng.randrange(ndom)
                script.append(["repeat", d, rng.sample(data, rng.randrange(0, 3)), rng.randrange(1, 5)])
            elif c < 0.96:
                parts = []
                for _ in range(rng.randrange(2, 4)):
                    q = rng.random()
                    if q < 0.3:
                        s = rng.choice(data)
                        parts.append(["edge", s, rng.randrange(shapes[s][0]), rng.random() < 0.5])
                    elif q < 0.55:
                        parts.append(["delay", rng.choice((0, 1, half, pmax, rng.randrange(0, 3 * pmax + 1)))])
                    elif q < 0.8:
                        parts.append(["changed", [rng.choice(data)]])
                    else:
                        parts.append(["sample", rng.sample(data, rng.randrange(1, min(2, len(data)) + 1))])
                if all(p[0] == "sample" for p in parts):
                    parts.append(["delay", half])
                while parts[0][0] == "sample":       # ctx itself has no .sample(); a combination starts with a trigger
                    parts.append(parts.pop(0))
                script.append(["combo", parts])
            elif c < 0.98:
                d = rng.randrange(ndom)
                if doms[d]["rst"] is not None:
                    script.append(["set", doms[d]["rst"], rng.randrange(2)])
            else:
                unclocked = [d for d in range(ndom) if d not in clocked]
                if unclocked:
                    d = rng.choice(unclocked)
                    clkval[d] ^= 1
                    script.append(["set", doms[d]["clk"], clkval[d]])
        tbs.append(script)
    t_end = (rng.choice((8, 16, 24)) * pmax) if clocks else sum(op[1] for s in tbs for op in s if op[0] == "delay") + 10
    return {"sigs": sigs, "doms": doms, "mods": mods, "uprocs": uprocs, "clocks": clocks, "tbs": tbs,
            "t_end": t_end, "r": f"rand:{ndom}dom:{len(uprocs)}up:{len(clocks)}clk"}


def gen_cases(tier, seed):
    rng = random.Random(seed)
    thorough = tier == "thorough"
    k = 40 if thorough else 6
    cases = []
    n = 0
    for p in PERIODS:
        for mult in (1, 2, 3):
            period = p * mult
            phases = [None, 0, 1, period // 2, period, rng.randrange(0, 3 * period + 1)]
            for i, phase in enumerate(phases):
                styles = ["changed", "edges", "tick", "loops"] if thorough else \
                    [["changed", "edges", "tick", "loops"][(i + mult + n) % 4]]
                for style in styles:
                    n += 1
                    cases.append(_clock_case(period, phase, "neg" if n % 3 == 0 else "pos", style, n % 2 == 0, n))
    for _ in range(400 if thorough else 60):
        cases.append(_delay_case(rng))
    rng4 = random.Random(f"enrich:{seed}")
    for i in range(3000 if thorough else 320):
        c = _scenario(rng, want_uproc=(i % 3 == 0))
        cases.append(_enrich(c, rng4) if i % 2 else c)
    rng5 = random.Random(f"mem:{seed}")
    for i in range(600 if thorough else 90):
        cases.append(_mem_case(rng5, "two_wr" if i % 3 == 0 else "rand"))
    rng6 = random.Random(f"misc:{seed}")
    for i in range(500 if thorough else 80):
        cases.append(_misc_case(rng6, ("bg", "until", "gen", "freq")[i % 4]))
    rng2 = random.Random(f"split:{seed}")
    for i in range(600 if thorough else 90):
        cases.append(_split_case(rng2, ("bus", "reg", "mixed")[i % 3]))
    rng3 = random.Random(f"tborder:{seed}")
    for i in range(400 if thorough else 50):
        cases.append(_tborder_case(rng3))
    for c in cases:
        c["korders"] = k
    return cases


def classify(c):
    return c["r"]


def nontrivial(c, obs):
    if -100 not in obs:
        return False
    inits = [s[2] for s in c["sigs"]]
    body = obs[:obs.index(-100)]
    final = obs[obs.index(-100) + 1: obs.index(-100) + 1 + len(inits)]
    return len(body) > 6 and (final != inits or any(v > 0 for v in body))


def known_finding(case, obs, model):
    return None


def explain(c):
    return __doc__.split("Trace records:")[1]


# ------------------------------------------------------------------ memories (not modelled): order comparison only
def _mem_run(mode, addr_a, addr_b, coincident=True, en_b=1):
    """lib.memory.Memory with write ports in domains a and b (data 0xAA / 0xBB), a read port; returns the rows."""
    from amaranth.hdl import Module, ClockDomain, Cat
    from amaranth.lib.memory import Memory
    from amaranth.sim import Simulator
    install()
    _Ctl.mode = None
    m = Module()
    m.domains.a = cd_a = ClockDomain("a")
    m.domains.b = cd_b = ClockDomain("b")
    m.submodules.mem = mem = Memory(shape=8, depth=4, init=[1, 2, 3, 4])
    wa = mem.write_port(domain="a")
    wb = mem.write_port(domain="b")
    rd = mem.read_port(domain="comb")
    sim = Simulator(m)
    rows = []

    async def tb(ctx):
        ctx.set(wa.addr, addr_a); ctx.set(wa.data, 0xAA); ctx.set(wa.en, 1)
        ctx.set(wb.addr, addr_b); ctx.set(wb.data, 0xBB); ctx.set(wb.en, en_b)
        if coincident:
            ctx.set(Cat(cd_a.clk, cd_b.clk), 3)
        else:
            ctx.set(cd_a.clk, 1)
            ctx.set(cd_b.clk, 1)
        for a in range(4):
            ctx.set(rd.addr, a)
            rows.append(int(ctx.get(rd.data)))
    sim.add_testbench(tb)
    _Ctl.mode = mode
    _Ctl.counter = 0
    try:
        sim.run()
    finally:
        _Ctl.mode = None
    return rows


def extra(tier, seed, findings):
    """Memories are outside the Coq model: write ports in two domains are compared across orders.  Disjoint addresses,
    non-coincident edges and a disabled second port must be order independent; the coincident same-address collision
    violates write_disjoint and is the known order dependence S1."""
    viol, cov = [], {}
    modes = order_modes(40 if tier == "thorough" else 6)
    benign = 0
    for (aa, ab, co, en) in [(0, 1, True, 1), (2, 3, True, 1), (0, 0, False, 1), (1, 1, True, 0), (3, 3, False, 1)]:
        res = [_mem_run(md, aa, ab, co, en) for md in modes]
        benign += 1
        if any(r != res[0] for r in res):
            viol.append({"property": ID, "kind": "input", "case": {"k": "mem", "args": [aa, ab, co, en], "korders": len(modes)},
                         "expected_by_model": [1], "observed": [len({tuple(r) for r in res})],
                         "explain": "memory rows depend on the set iteration order although the two write ports never "
                                    "write one row in one delta"})
    res = [_mem_run(md, 0, 0, True, 1) for md in modes]
    dep = any(r != res[0] for r in res)
    cov["memory_order_cases"] = benign + 1
    cov["s1_collision_order_dependent"] = dep
    if dep:
        listed = any(f.get("property") == ID and f.get("id") == S1_ID and f.get("status") == "open" for f in findings)
        payload = {"property": ID, "kind": "input",
                   "case": {"k": "mem", "args": [0, 0, True, 1], "korders": len(modes), "finding": S1_ID,
                            "what": "Memory depth 4, write ports in domains a and b both enabled on address 0 with data "
                                    "0xAA / 0xBB, ctx.set(Cat(clk_a, clk_b), 3)"},
                   "expected_by_model": [1], "observed": [len({tuple(r) for r in res})],
                   "row0_values": sorted({r[0] for r in res}),
                   "explain": "cross-domain same-address write collision: the surviving row depends on the process order "
                              "(violates write_disjoint; undefined in hardware, silent in the simulator)"}
        if listed:
            payload["known"] = f"{S1_ID}: row 0 ends as {sorted({r[0] for r in res})} depending on the process order"
        viol.append(payload)
    return viol, cov

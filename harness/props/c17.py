"""C17 — clock-domain-crossing primitives meet their latency and pulse contracts.

Correspondence: the real lib.cdc components run in the real simulator with hand-driven clocks; the
output is read after every step and compared with the trace of coq/Model/Cdc.v evaluated in Coq.
A step is [kind, v]: kind 0 no clock activity, 1 active edge of the output-domain clock, 2 active edge
of the input-domain clock, 3 both in one ctx.set, 4 inactive edges (all clocks return to rest);
v (or None) is a new input value driven in the SAME ctx.set."""
import itertools, random
from common import z, zlist, blit

ID = "C17"
LEVEL = "proof"
PROPS_FILE = "C17.v"
RUN_MODULE = "RunC17"
TRANSLATOR_UNITS = ["cdc"]
RULE = ("exhaustive words over {output edge, input toggle, toggle coincident with the edge} (PulseSynchronizer: {o edge, i edge, "
        "both edges, input toggle}), outputs read after every step so every prefix is covered: stages=2 length 7 (thorough 8) with "
        "ONE parameter variant drawn per word in quick (ff: 6 (init, input init) pairs incl. init absent; af: async_edge x input init; "
        "rs: input init, half of the words), stages=3 length 5 (thorough 7) with all variants; PulseSynchronizer stages 2 / 3 "
        "length 6 / 5 (thorough 8 / 7), input init drawn per word, 15% negedge input domain; same-domain PulseSynchronizer "
        "(i_domain = o_domain) over {edge, toggle} length 8 (10); FFSynchronizer under the output domain's reset (family ffr: "
        "words over {edge, input toggle, rst:=1, rst:=0, rst:=1 in the same ctx.set as the edge}, sync / async-reset domain x "
        "reset_less True (passed or defaulted) / False, plus 80-step walks with rst changing alone or in the same ctx.set as the "
        "edge); FFSynchronizer power-up family: synchroniser init (absent / 0 / every value) x input Signal init (every value) "
        "x input = Signal or ~Signal x o of the same or another shape, widths 1..3 and 8, 12; seeded random walks of 300 steps "
        "for stages 2..5, widths 0..4 signed/unsigned, synchroniser init (absent 30% / 0 / random) independent of the input init "
        "(all-ones 30% / random / 0), 30% o of another width/signedness, async_edge pos/neg, posedge and negedge output and input "
        "domains, 25% default domain (domain named sync, o_domain=/domain= omitted), four clock-ratio regimes (o fast, i fast, "
        "balanced with coincident edges, well-formed single-cycle pulses) with inactive edges and out-of-range input values; "
        "constructor stage checks and RequirePosedge rejection (explicit and default domain) compared on exception class. "
        "non-trivial = the observed output changes at least once; distinct by case hash")
MODELLED = ("FFSynchronizer (incl. init default, reset_less, o of another shape, sync/async output-domain reset), "
            "AsyncFFSynchronizer, ResetSynchronizer, PulseSynchronizer.elaborate and the simulator's treatment of clock edges, "
            "simultaneous edges and asynchronous reset (a rise of rst alone loads init into the resettable flops only -- /repo 574e1db, "
            "the repair of F7 -- and an edge with rst high does the same while reset_less flops shift) "
            "are modelled in coq/Model/Cdc.v; validated only: Module/Fragment elaboration, the simulator's delta-cycle engine, "
            "RequirePosedge (which components carry it is modelled, the rejection class compared), constructor argument checks; "
            "out of scope: platform overrides "
            "get_ff_sync/get_async_ff_sync, max_input_delay")
ASSUMPTIONS = ["a value driven by the testbench in the same ctx.set as a clock edge is seen by that edge (simulator semantics; "
               "modelled as the group [Ein v; edge])",
               "C17_ff_sync_latency carries over to any output domain for default (reset_less) flops and to any flops while the reset "
               "is not asserted (C17_ff_reset_less_ignores_reset, C17_ff_no_reset); resettable flops: C17_ff_reset_is_power_up"]
SHARD = 1000

_HDR = {"ff": 1, "ffr": 1, "af": 1, "rs": 1, "ps": 3}      # answer = header entries, then the packed trace
EXC = {"DomainRequirementFailed": 1, "TypeError": 2, "ValueError": 3}


# ------------------------------------------------------------------ generators
def _toggle_word(word, i0, letters):
    """letters: per symbol (kind, toggles_input). Returns steps with explicit values (1-bit input)."""
    cur = i0 & 1
    steps = []
    for s in word:
        kind, tog = letters[s]
        if tog:
            cur ^= 1
            steps.append([kind, cur])
        else:
            steps.append([kind, None])
    return steps


FF_LETTERS = [(1, False), (0, True), (1, True)]
PS_LETTERS = [(1, False), (2, False), (3, False), (0, True)]


def _walk(rng, n, regime, vals, two_clocks):
    """random walk of n steps. vals() draws an input value."""
    steps = []
    if regime == "pulses":
        # single-cycle input pulses, an output edge between consecutive pulses, random extra edges
        while len(steps) < n:
            for _ in range(rng.randrange(0, 3)):
                steps.append([rng.choice((1, 1, 2, 4)), None])
            coincident = rng.random() < 0.3
            if rng.random() < 0.5:
                steps.append([0, 1]); steps.append([3 if coincident else 2, None])
            else:
                steps.append([3 if coincident else 2, 1])
            if rng.random() < 0.5:
                steps.append([0, 0])
            else:
                for _ in range(rng.randrange(0, 2)):
                    steps.append([1, None])
                steps.append([rng.choice((0, 4)), 0])
            for _ in range(rng.randrange(1, 4)):
                steps.append([1 if rng.random() < 0.8 else 3, None])
        return steps[:n]
    po, pi, pb, pv = {"ofast": (0.55, 0.10, 0.05, 0.20),
                      "ifast": (0.12, 0.50, 0.05, 0.23),
                      "coinc": (0.20, 0.20, 0.30, 0.20)}[regime]
    if not two_clocks:
        po, pi, pb = po + pi / 2 + pb, 0.0, 0.0
    for _ in range(n):
        r = rng.random()
        if r < po:
            kind = 1
        elif r < po + pi:
            kind = 2
        elif r < po + pi + pb:
            kind = 3
        elif r < po + pi + pb + pv:
            kind = 0
        else:
            kind = 4
        v = None
        if kind == 0 or rng.random() < 0.25:
            v = vals()
        steps.append([kind, v])
    return steps


RS_LETTERS = [(1, False), (0, True), (5, False), (6, False), (7, False)]   # ffr: edge, input toggle, rst:=1, rst:=0, rst:=1 with the edge


def gen_cases(tier, seed):
    """The exhaustive word families are SAMPLED over their parameter variants: every word occurs, with
    one variant drawn per word in the quick tier (all variants for the shorter stages = 3 words), so
    every (family, variant) class is represented by hundreds of words."""
    rng = random.Random(seed)
    thorough = tier == "thorough"
    cases = []
    L = 8 if thorough else 7          # stages = 2 words
    L3 = 7 if thorough else 5         # stages = 3 words
    LP = 8 if thorough else 6
    FFV = ((0, 0), (1, 0), (None, 1), (None, 0), (0, 1), (1, 1))      # (synchroniser init, input init)
    AFV = ((True, 0), (True, 1), (False, 0), (False, 1))              # (async_edge pos, input init)
    def variants(vs, full):
        if full and thorough and len(vs) > 4:
            return rng.sample(vs, 3)
        return vs if full else (rng.choice(vs),)
    for st, n, full in ((2, L, thorough), (3, L3, True)):
        for word in itertools.product(range(3), repeat=n):
            for init, i0 in variants(FFV, full):
                cases.append({"k": "ff", "w": 1, "sg": False, "st": st, "init": init, "i0": i0, "inv": False, "neg": False,
                              "ev": _toggle_word(word, i0, FF_LETTERS), "r": "exh"})
            for pos, i0 in variants(AFV, full):
                cases.append({"k": "af", "pos": pos, "st": st, "i0": i0,
                              "ev": _toggle_word(word, i0, FF_LETTERS), "r": "exh"})
            for i0 in variants((0, 1), full and (thorough or rng.random() < 0.5)):
                if thorough or st == 3 or rng.random() < 0.5:
                    cases.append({"k": "rs", "st": st, "i0": i0, "ev": _toggle_word(word, i0, FF_LETTERS), "r": "exh"})
    for st, n in ((2, LP), (3, LP - 1)):
        for word in itertools.product(range(4), repeat=n):
            i0 = rng.randrange(0, 2)
            cases.append({"k": "ps", "st": st, "i0": i0, "neg": False, "negi": rng.random() < 0.15,
                          "ev": _toggle_word(word, i0, PS_LETTERS), "r": "exh"})
            if st == 2 and (not thorough or rng.random() < 0.5):
                cases.append({"k": "sep", "i0": i0, "ev": _toggle_word(word, i0, PS_LETTERS), "r": "exh"})
    # PulseSynchronizer with i_domain == o_domain: words over {edge, input toggle}
    for st in (2, 3):
        for word in itertools.product((0, 3), repeat=LP + 2):
            for i0 in (0, 1):
                cases.append({"k": "ps", "st": st, "i0": i0, "neg": False, "same": True,
                              "ev": _toggle_word(word, i0, PS_LETTERS), "r": "exh"})
    # FFSynchronizer under the output domain's reset: words over {edge, input toggle, rst:=1, rst:=0}
    for st, n in ((2, 6 if thorough else 5), (3, 5 if thorough else 4)):
        for word in itertools.product(range(5), repeat=n):
            for asy, rl in variants(((False, False), (False, True), (True, False), (True, True)), st == 3):
                cases.append({"k": "ffr", "w": 1, "sg": False, "st": st, "init": rng.choice((None, 0, 1)), "i0": 1,
                              "async": asy, "rl": rl, "rlx": rng.random() < 0.5,
                              "ev": _toggle_word(word, 1, RS_LETTERS), "r": "exh"})
    # --- random walks
    N = 300
    reps = 24 if thorough else 6
    for st in (2, 3, 4, 5):
        for regime in ("ofast", "ifast", "coinc", "pulses"):
            for _ in range(reps):
                for w in range(0, 5):
                    sg = w > 0 and rng.random() < 0.4
                    lo, hi = (-(1 << (w - 1)), (1 << (w - 1))) if sg else (0, 1 << w)
                    def vals(lo=lo, hi=hi):
                        if rng.random() < 0.1:
                            return rng.randrange(-40, 41)      # out of range: truncated by the simulator
                        return rng.randrange(lo, hi)
                    r = rng.random()     # the synchroniser's init and the input's init are drawn independently
                    init = None if r < 0.3 else 0 if r < 0.4 else vals()
                    r = rng.random()
                    i0 = (-1 if sg else (1 << w) - 1) if r < 0.3 else vals() if r < 0.9 else 0
                    c = {"k": "ff", "w": w, "sg": sg, "st": st, "init": init, "i0": i0,
                         "inv": w > 0 and rng.random() < 0.25, "neg": rng.random() < 0.25, "dd": rng.random() < 0.25,
                         "ev": _walk(rng, N, regime, vals, False), "r": regime}
                    if rng.random() < 0.3:     # o of another shape than i
                        c["osg"] = rng.random() < 0.4
                        c["ow"] = rng.randrange(1 if c["osg"] else 0, 7)
                    cases.append(c)
                bit = lambda: rng.randrange(0, 2)
                for pos in (True, False):
                    cases.append({"k": "af", "pos": pos, "st": st, "i0": bit(), "dd": rng.random() < 0.25,
                                  "ev": _walk(rng, N, regime, bit, False), "r": regime})
                cases.append({"k": "rs", "st": st, "i0": bit(), "dd": rng.random() < 0.25,
                              "ev": _walk(rng, N, regime, bit, False), "r": regime})
                for _ in range(3):
                    ev = _walk(rng, N, regime, bit, True)
                    i0 = bit() if regime != "pulses" or rng.random() < 0.3 else 0
                    cases.append({"k": "ps", "st": st, "i0": i0, "neg": rng.random() < 0.25, "negi": rng.random() < 0.25,
                                  "same": rng.random() < 0.1, "dd": rng.random() < 0.15, "ev": ev, "r": regime})
                    cases.append({"k": "sep", "i0": i0, "ev": ev, "r": regime})
            # walks with the output domain's reset toggling (family ffr), 80 steps
            for _ in range(reps):
                w = rng.randrange(1, 5)
                sg = rng.random() < 0.4
                lo, hi = (-(1 << (w - 1)), (1 << (w - 1))) if sg else (0, 1 << w)
                asy = rng.random() < 0.5
                ev, rst = [], 0
                for _ in range(80):
                    r = rng.random()
                    v = rng.randrange(lo, hi) if rng.random() < 0.3 else None
                    if r < 0.45:
                        kind = 1
                    elif r < 0.55:
                        kind = 4
                    elif r < 0.70:
                        kind, v = 0, rng.randrange(lo, hi)
                    elif r < 0.85:
                        rst ^= 1
                        kind = 5 if rst else 6
                    else:                  # rst changes in the same ctx.set as the edge
                        rst ^= 1
                        kind = 7 if rst else 2
                    ev.append([kind, v])
                cases.append({"k": "ffr", "w": w, "sg": sg, "st": st, "init": rng.choice((None, 0, rng.randrange(lo, hi))),
                              "i0": rng.randrange(lo, hi), "async": asy, "rl": rng.random() < 0.5, "rlx": rng.random() < 0.5,
                              "dd": rng.random() < 0.25, "ev": ev, "r": regime})
    # --- power-up: synchroniser init (None / 0 / k) x input init (0 / non-zero / all-ones), Signal and ~Signal inputs,
    #     o of the same or of another shape; st + 1 output edges, one input change, st + 1 output edges
    def power_up(w, sg, st, init, i0, inv, v2, neg=False, pre=(), oshape=None):
        ev = list(pre) + [[1, None]] * (st + 1) + [[0, v2]] + [[1, None]] * (st + 1)
        c = {"k": "ff", "w": w, "sg": sg, "st": st, "init": init, "i0": i0, "inv": inv, "neg": neg,
             "dd": rng.random() < 0.2, "ev": [list(e) for e in ev], "r": "init"}
        if oshape is not None:
            c["ow"], c["osg"] = oshape
        cases.append(c)
    for w in (1, 2, 3):
        for sg in (False, True):
            lo, hi = (-(1 << (w - 1)), (1 << (w - 1))) if sg else (0, 1 << w)
            for st in (2, 3):
                for init in [None] + list(range(lo, hi)):
                    for i0 in range(lo, hi):
                        for inv in (False, True):
                            if not thorough and w == 3 and rng.random() < 0.5:
                                continue
                            osh = None
                            if rng.random() < 0.3:
                                osg = rng.random() < 0.5
                                osh = (rng.randrange(1 if osg else 0, 6), osg)
                            power_up(w, sg, st, init, i0, inv, rng.randrange(lo, hi), oshape=osh)
    for w in (8, 12):
        full = (1 << w) - 1
        for sg in (False, True):
            lo, hi = (-(1 << (w - 1)), (1 << (w - 1))) if sg else (0, 1 << w)
            for st in (2, 3, 4, 5):
                for init in (None, 0, 0xA5, full, rng.randrange(lo, hi), rng.randrange(lo, hi)):
                    for i0 in (0xA5, full, -1, 1, 0, rng.randrange(lo, hi), rng.randrange(lo, hi)):
                        for inv in (False, True):
                            if not thorough and rng.random() < 0.5:
                                continue
                            pre = [[rng.choice((0, 4)), None]] * rng.randrange(0, 2)
                            osh = (rng.choice((4, 8, 12, 16)), rng.random() < 0.5) if rng.random() < 0.3 else None
                            power_up(w, sg, st, init, i0, inv, rng.randrange(lo, hi), rng.random() < 0.2, pre, osh)
    # --- constructor checks and RequirePosedge (explicit and default domain)
    for comp in ("ff", "af", "rs", "ps"):
        for st in (-3, -1, 0, 1, 2, 3, 7):
            cases.append({"k": "stages", "comp": comp, "st": st})
        for edge in ("pos", "neg"):
            for st in (2, 3):
                for dd in (False, True):
                    cases.append({"k": "posedge", "comp": comp, "edge": edge, "st": st, "dd": dd})
    rng.shuffle(cases)       # long walks and short words mixed: evenly sized shards
    return cases


# ------------------------------------------------------------------ implementation side
def _py_separated(i0, steps):
    """positional definition: flatten (a coincident edge = output edge then input edge); between two
    consecutive input pulses there must be an output edge."""
    flat = []
    cur = i0 & 1
    for kind, v in steps:
        if v is not None:
            cur = v & 1
        if kind in (1, 3):
            flat.append("O")
        if kind in (2, 3) and cur:
            flat.append("P")
    s = "".join(flat)
    return "PP" not in s


def _eff_ev(c):
    """steps with the kinds a same-domain PulseSynchronizer really sees (every edge is an edge of both domains)"""
    if c.get("same"):
        return [[3 if kind in (1, 2, 3) else kind, v] for kind, v in c["ev"]]
    return c["ev"]


def _drive(m, i_sig, o_sig, cd_o, cd_i, neg_o, steps, monitor, neg_i=False, same=False, rst_mode=False):
    """runs the testbench; returns the list of outputs (initial, then after every step).
    same: the input domain IS the output domain (kinds 1, 2, 3 all mean an edge of that one clock);
    rst_mode (family ffr): kind 5 rst:=1, 6 rst:=0, 7 rst:=1 with the edge, 2 rst:=0 with the edge."""
    from amaranth.hdl import Cat
    from amaranth.sim import Simulator
    out = []
    act_o = 0 if neg_o else 1       # clock level after the active edge of the output domain
    act_i = 0 if neg_i else 1

    def apply(ctx, assigns):
        """one ctx.set for all (signal, value) pairs"""
        if not assigns:
            return
        if len(assigns) == 1:
            ctx.set(assigns[0][0], assigns[0][1])
            return
        val, pos = 0, 0
        for sig, x in assigns:
            val |= (x & ((1 << len(sig)) - 1)) << pos
            pos += len(sig)
        ctx.set(Cat(*[s for s, _ in assigns]), val)

    async def tb(ctx):
        lev_o, lev_i = 0, 0
        rest = []                    # bring the clocks to their rest level (inactive edge)
        if neg_o:
            rest.append((cd_o.clk, 1)); lev_o = 1
        if neg_i and cd_i is not None:
            rest.append((cd_i.clk, 1)); lev_i = 1
        apply(ctx, rest)
        out.append(int(ctx.get(o_sig)))
        for kind, v in steps:
            need_o = kind in (1, 3) or (same and kind == 2) or (rst_mode and kind in (2, 7))
            need_i = kind in (2, 3) and cd_i is not None
            # a clock that must make an active edge returns to its rest level first (inactive edge)
            pre = []
            if need_o and lev_o == act_o:
                lev_o = 1 - act_o
                pre.append((cd_o.clk, lev_o))
            if need_i and lev_i == act_i:
                lev_i = 1 - act_i
                pre.append((cd_i.clk, lev_i))
            if pre:
                apply(ctx, pre)
                if int(ctx.get(o_sig)) != out[-1]:
                    monitor.ok = False          # an inactive edge changed the output
            assigns = []
            if need_o:
                lev_o = act_o
                assigns.append((cd_o.clk, lev_o))
            if need_i:
                lev_i = act_i
                assigns.append((cd_i.clk, lev_i))
            if kind == 4:
                if lev_o == act_o:
                    lev_o = 1 - act_o
                    assigns.append((cd_o.clk, lev_o))
                if cd_i is not None and lev_i == act_i:
                    lev_i = 1 - act_i
                    assigns.append((cd_i.clk, lev_i))
            if rst_mode and kind in (5, 7):
                assigns.append((cd_o.rst, 1))
            if rst_mode and kind in (6, 2):
                assigns.append((cd_o.rst, 0))
            if v is not None:
                assigns.append((i_sig, v))
            apply(ctx, assigns)
            out.append(int(ctx.get(o_sig)))
            monitor.step(ctx, 3 if same and kind in (1, 2, 3) else kind, out[-1])

    sim = Simulator(m)
    sim.add_testbench(tb)
    sim.run()
    return out


class _Mon:
    ok = True
    def step(self, ctx, kind, o): pass


class _FFMon(_Mon):
    """shift register of the last `stages` input values seen at output edges; conv = value as seen through o."""
    def __init__(self, i_sig, stages, init_norm, conv=lambda v: v):
        self.i = i_sig; self.regs = [init_norm] * stages; self.conv = conv
    def step(self, ctx, kind, o):
        if kind in (1, 3):
            self.regs = [int(ctx.get(self.i))] + self.regs[:-1]
        if o != self.conv(self.regs[-1]):
            self.ok = False


class _FFRMon(_Mon):
    """the same with the output domain's reset: at an edge resettable flops load init while rst is high; in an
    async-reset domain a rise of rst alone loads init into resettable flops and leaves reset_less flops alone."""
    def __init__(self, i_sig, rst_sig, stages, init_norm, async_reset, reset_less):
        self.i = i_sig; self.rst = rst_sig; self.n = stages; self.init = init_norm
        self.regs = [init_norm] * stages; self.a = async_reset; self.rl = reset_less; self.prev = 0
    def step(self, ctx, kind, o):
        rst = int(ctx.get(self.rst))
        if kind in (1, 2, 7):
            if rst and not self.rl:
                self.regs = [self.init] * self.n
            else:
                self.regs = [int(ctx.get(self.i))] + self.regs[:-1]
        elif self.a and rst and not self.prev and not self.rl:
            self.regs = [self.init] * self.n
        self.prev = rst
        if o != self.regs[-1]:
            self.ok = False


class _AFMon(_Mon):
    """asserted -> 1 at once; released -> 1 until `stages` output edges have passed."""
    def __init__(self, i_sig, stages, pos):
        self.i = i_sig; self.n = stages; self.pos = pos; self.c = 0
    def step(self, ctx, kind, o):
        asserted = (int(ctx.get(self.i)) == 1) == self.pos
        if asserted:
            self.c = 0
        elif kind in (1, 3):
            self.c += 1
        if o != (1 if asserted or self.c < self.n else 0):
            self.ok = False


class _PSMon(_Mon):
    """parity window: o after output edge n = T(n-stages+1) xor T(n-stages), T(k) = parity of the input
    pulses before output edge k; plus pulse counters."""
    def __init__(self, i_sig, stages):
        self.i = i_sig; self.n = stages; self.t = 0; self.T = []; self.exp = 0
        self.n_in = 0; self.n_out = 0; self.edges_since_pulse = None
    def step(self, ctx, kind, o):
        if kind in (1, 3):
            self.T.append(self.t)
            k = len(self.T)
            a = self.T[k - self.n] if k - self.n >= 0 else 0
            b = self.T[k - self.n - 1] if k - self.n - 1 >= 0 else 0
            self.exp = a ^ b
            if o:
                self.n_out += 1
            if self.edges_since_pulse is not None:
                self.edges_since_pulse += 1
        if kind in (2, 3) and int(ctx.get(self.i)) == 1:
            self.t ^= 1
            self.n_in += 1
            self.edges_since_pulse = 0
        if o != self.exp:
            self.ok = False


def run_impl(c):
    from amaranth.hdl import Module, Signal, ClockDomain, Shape, Const
    from amaranth.lib.cdc import FFSynchronizer, AsyncFFSynchronizer, ResetSynchronizer, PulseSynchronizer
    k = c["k"]
    if k == "sep":
        return [int(_py_separated(c["i0"], c["ev"]))]
    if k == "stages":
        try:
            st = c["st"]
            if c["comp"] == "ff":
                FFSynchronizer(Signal(), Signal(), stages=st)
            elif c["comp"] == "af":
                AsyncFFSynchronizer(Signal(), Signal(), stages=st)
            elif c["comp"] == "rs":
                ResetSynchronizer(Signal(), stages=st)
            else:
                PulseSynchronizer("a", "b", stages=st)
            return [0]
        except Exception as e:
            return [{"TypeError": 1, "ValueError": 2}.get(type(e).__name__, 99)]
    m = Module()
    if k == "posedge":
        from amaranth.sim import Simulator
        dd = bool(c.get("dd"))
        dom = "sync" if dd else "o"
        m.domains += ClockDomain(dom, clk_edge=c["edge"])
        m.domains.i = ClockDomain("i")
        i, o = Signal(), Signal()
        comp = c["comp"]
        kw = {} if dd else {"o_domain": "o"}
        if comp == "ff":
            m.submodules.dut = FFSynchronizer(i, o, stages=c["st"], **kw)
        elif comp == "af":
            m.submodules.dut = AsyncFFSynchronizer(i, o, stages=c["st"], **kw)
        elif comp == "rs":
            m.submodules.dut = ResetSynchronizer(i, stages=c["st"], **({} if dd else {"domain": "o"}))
        else:
            m.submodules.dut = PulseSynchronizer("i", dom, stages=c["st"])
        try:
            Simulator(m)
            return [1]
        except Exception as e:
            return [0, EXC.get(type(e).__name__, 99)]
    neg = bool(c.get("neg", False))
    dd = bool(c.get("dd"))                 # default domain: the domain is called "sync" and o_domain=/domain= is omitted
    dom = "sync" if dd else "o"
    cd_o = ClockDomain(dom, clk_edge="neg" if neg else "pos", async_reset=bool(c.get("async")))
    m.domains += cd_o
    dkw = {} if dd else {"o_domain": "o"}
    st = c["st"]
    if k == "ff":
        sh = Shape(c["w"], c["sg"])
        osh = Shape(c.get("ow", c["w"]), c.get("osg", c["sg"]))
        a, o = Signal(sh, init=c["i0"]), Signal(osh)
        i = ~a if c.get("inv") else a              # the input may be any value expression
        kw = {} if c["init"] is None else {"init": c["init"]}       # None: constructed without init=
        m.submodules.dut = FFSynchronizer(i, o, stages=st, **kw, **dkw)
        mon = _FFMon(i, st, Const(c["init"] or 0, sh).value, lambda v: Const(v, osh).value)
        out = _drive(m, a, o, cd_o, None, neg, c["ev"], mon)
        return [int(mon.ok)] + _pack_out(c, out)
    if k == "ffr":
        sh = Shape(c["w"], c["sg"])
        i, o = Signal(sh, init=c["i0"]), Signal(sh)
        kw = {} if c["init"] is None else {"init": c["init"]}
        if not c["rl"] or c.get("rlx"):            # reset_less=True is the constructor default: pass it only sometimes
            kw["reset_less"] = c["rl"]
        m.submodules.dut = FFSynchronizer(i, o, stages=st, **kw, **dkw)
        mon = _FFRMon(i, cd_o.rst, st, Const(c["init"] or 0, sh).value, bool(c.get("async")), c["rl"])
        out = _drive(m, i, o, cd_o, None, False, c["ev"], mon, rst_mode=True)
        return [int(mon.ok)] + _pack_out(c, out)
    if k == "af":
        i, o = Signal(init=c["i0"]), Signal()
        ekw = {} if c["pos"] and c.get("dd") else {"async_edge": "pos" if c["pos"] else "neg"}   # "pos" is the default
        m.submodules.dut = AsyncFFSynchronizer(i, o, stages=st, **ekw, **dkw)
        mon = _AFMon(i, st, c["pos"])
        out = _drive(m, i, o, cd_o, None, False, c["ev"], mon)
        return [int(mon.ok)] + _pack_out(c, out)
    if k == "rs":
        i = Signal(init=c["i0"])
        m.submodules.dut = ResetSynchronizer(i, stages=st, **({} if dd else {"domain": "o"}))
        mon = _AFMon(i, st, True)
        out = _drive(m, i, cd_o.rst, cd_o, None, False, c["ev"], mon)
        return [int(mon.ok)] + _pack_out(c, out)
    if k == "ps":
        same = bool(c.get("same"))
        negi = bool(c.get("negi"))
        cd_i = None
        if not same:
            m.domains.i = cd_i = ClockDomain("i", clk_edge="neg" if negi else "pos")
        m.submodules.dut = dut = PulseSynchronizer(dom if same else "i", dom, stages=st)
        dut.i = Signal(init=c["i0"] & 1)       # public attribute, read by elaborate()
        mon = _PSMon(dut.i, st)
        out = _drive(m, dut.i, dut.o, cd_o, cd_i, neg, c["ev"], mon, neg_i=negi, same=same)
        ok = mon.ok
        # conservation observed on the real component: separated word, flushed -> counts agree
        if _py_separated(c["i0"], _eff_ev(c)) and (mon.edges_since_pulse is None or mon.edges_since_pulse >= st):
            ok = ok and mon.n_in == mon.n_out
        return [mon.n_in, mon.n_out, int(ok)] + _pack_out(c, out)
    raise ValueError(k)


# ------------------------------------------------------------------ model side
def _fmt(c):
    """(fb, off) of the step codes and (ob, ooff) of the output codes of a case"""
    if c["k"] in ("ff", "ffr"):
        w = c["w"]
        ow = c.get("ow", w)
        fb = max(7, w + 2)
        return ((2, 1) if c["r"] == "exh" else (fb, 1 << (fb - 1))), (ow + 1, 1 << ow)
    return (2, 1), (1, 0)


def _chunks(codes, bits):
    per = 60 // bits
    out = []
    for a in range(0, len(codes), per):
        x = 0
        for j, cde in enumerate(codes[a:a + per]):
            assert 0 <= cde < (1 << bits), (cde, bits)
            x |= cde << (bits * j)
        out.append(x)
    return out


def _pack_steps(c):
    """U fb off n chunks: step code = kind + 8 * f on 3+fb bits, f = 0 (not driven) or v + off"""
    (fb, off), _ = _fmt(c)
    codes = []
    for kind, v in c["ev"]:
        f = 0 if v is None else v + off
        assert 0 <= f < (1 << fb) and (v is None or f > 0), (v, fb, off)
        codes.append(kind + 8 * f)
    return f"({'UR' if c['k'] == 'ffr' else 'U'} {fb} {off} {len(codes)}%nat {zlist(_chunks(codes, 3 + fb))})"


def _pack_out(c, vals):
    _, (ob, ooff) = _fmt(c)
    return _chunks([v + ooff for v in vals], ob)


def _unpack_out(c, chunks, n):
    _, (ob, ooff) = _fmt(c)
    per = 60 // ob
    vals = []
    for x in chunks:
        for j in range(per):
            vals.append(((x >> (ob * j)) & ((1 << ob) - 1)) - ooff)
    return vals[:n]


def coq_term(c):
    k = c["k"]
    if k == "ff":
        init = "None" if c["init"] is None else f"(Some {z(c['init'])})"
        return (f"k_ff {z(c['w'])} {blit(c['sg'])} {z(c.get('ow', c['w']))} {blit(c.get('osg', c['sg']))} {c['st']}%nat {init} "
                f"{blit(c.get('inv', False))} {z(c['i0'])} {_pack_steps(c)}")
    if k == "ffr":
        init = "None" if c["init"] is None else f"(Some {z(c['init'])})"
        return (f"k_ffr {z(c['w'])} {blit(c['sg'])} {c['st']}%nat {init} {blit(c.get('async', False))} {blit(c['rl'])} "
                f"{z(c['i0'])} {_pack_steps(c)}")
    if k == "af":
        return f"k_af {blit(c['pos'])} {c['st']}%nat {z(c['i0'])} {_pack_steps(c)}"
    if k == "rs":
        return f"k_rs {c['st']}%nat {z(c['i0'])} {_pack_steps(c)}"
    if k == "ps":
        return f"k_ps {blit(c.get('same', False))} {c['st']}%nat {z(c['i0'])} {_pack_steps(c)}"
    if k == "sep":
        return f"k_sep {z(c['i0'])} {_pack_steps(c)}"
    if k == "stages":
        return f"k_stages {z(c['st'])}"
    if k == "posedge":
        return f"k_posedge {('ff', 'af', 'rs', 'ps').index(c['comp'])} {blit(c['edge'] == 'pos')}"
    raise ValueError(k)


def classify(c):
    k = c["k"]
    if k in ("stages", "posedge"):
        return k
    if k == "sep":
        return f"sep/{c['r']}"
    tag = ""
    if k == "ff":
        tag = ("/init=None" if c["init"] is None else "/init=0" if c["init"] == 0 else "/init=k") + \
              ("/i0=0" if c["i0"] == 0 else "/i0!=0") + ("/~sig" if c.get("inv") else "")
        if (c.get("ow", c["w"]), c.get("osg", c["sg"])) != (c["w"], c["sg"]):
            tag += "/o-shape"
    if k == "ffr":
        tag = ("/async" if c.get("async") else "/sync") + ("/reset_less" if c["rl"] else "/resettable")
    if k == "ps":
        tag = ("/same-domain" if c.get("same") else "") + ("/i-negedge" if c.get("negi") else "")
    return (f"{k}/st{c['st']}/{c['r']}" + tag + ("/negedge" if c.get("neg") else "") +
            ("/default-domain" if c.get("dd") else ""))


def nontrivial(c, obs):
    k = c["k"]
    if k in ("stages", "posedge"):
        return True
    if k == "sep":
        return any(kind in (2, 3) for kind, _ in c["ev"])
    return len(set(_unpack_out(c, obs[_HDR[k]:], len(c["ev"]) + 1))) > 1


def extra(tier, seed, findings):
    """coverage of the hypotheses of the pulse theorems among the generated PulseSynchronizer words"""
    n = sep = flushed = pulses = 0
    for c in gen_cases(tier, seed):
        if c["k"] != "ps":
            continue
        n += 1
        cur, since, n_in = c["i0"] & 1, None, 0
        for kind, v in _eff_ev(c):
            if v is not None:
                cur = v & 1
            if kind in (1, 3) and since is not None:
                since += 1
            if kind in (2, 3) and cur:
                since, n_in = 0, n_in + 1
        pulses += n_in
        if _py_separated(c["i0"], _eff_ev(c)):
            sep += 1
            if n_in and since >= c["st"]:
                flushed += 1
    return [], {"ps_words": n, "ps_words_separated": sep, "ps_words_separated_flushed_with_pulses": flushed,
                "ps_input_pulses_total": pulses}


def explain(c):
    return ("answers = header + packed trace; header = [monitor ok] (ps: [input pulses, output cycles with o = 1, monitor ok]); "
            "packed trace = chunks of <= 60 bits of the output codes (o + ooff on ob bits, first in the low bits; ff: ob = w+1, "
            "ooff = 2^w; others ob = 1, ooff = 0), o read initially and after every step [kind, v] (kind 0 none, 1 output edge, "
            "2 input edge, 3 both, 4 inactive edges; v driven in the same ctx.set)")


def shrink(case, obs, model):
    """cut the step list after the first differing output; the model trace of a prefix is the prefix
    of the model trace (the counters are recomputed from it)."""
    k = case["k"]
    if k not in _HDR or len(obs) < _HDR[k] or len(model) < _HDR[k]:
        return case, obs, model
    total = len(case["ev"]) + 1
    o_tr, m_tr = _unpack_out(case, obs[_HDR[k]:], total), _unpack_out(case, model[_HDR[k]:], total)
    n = next((j for j, (a, b) in enumerate(zip(o_tr, m_tr)) if a != b), None)
    if n is None or n == 0:
        return case, obs, model
    c2 = dict(case)
    c2["ev"] = case["ev"][:n]
    hdr = [1]
    if k == "ps":
        cur, n_in, n_out = case["i0"] & 1, 0, 0
        for (kind, v), o in zip(_eff_ev(c2), m_tr[1:n + 1]):
            if v is not None:
                cur = v & 1
            n_in += int(kind in (2, 3) and cur == 1)
            n_out += int(kind in (1, 3) and o == 1)
        hdr = [n_in, n_out, 1]
    return c2, run_impl(c2), hdr + _pack_out(case, m_tr[:n + 1])

"""C19 — resource requests map pins one-to-one and constraints name the right pin."""
import itertools, random, re, signal
from common import z, zlist, blit

ID = "C19"
LEVEL = "proof"
PROPS_FILE = "C19.v"
RUN_MODULE = "RunC19"
TRANSLATOR_UNITS = ["res"]
SHARD = 150
RULE = ("(1) exhaustive: all connector tables with 3 entries over 2 connectors x 8 targets (platform pin, other/same "
        "connector pin incl. self/mutual cycles, missing) resolved through Pins.map_names; all request sequences of "
        "length<=4 over a 4-resource overlapping table (the F5 table + a diff pair) with dir in {'-',None}; "
        "(2) seeded random: tables of <=8 resources (names from a pool where some are prefixes of others, numbers from "
        "{0,1,2,10,11,12,100}, so path roots like led_1/led_10/led_1_0 coexist) over a pool of <=12 pins (forced overlaps), "
        "after a refused request probes that collide with pins (incl. DiffPairs n) / clocked ports of granted resources; "
        "dedicated prefix-root histories (grant long root, refuse short root after a partial claim, probe); subsignal depth<=2, "
        "diff pairs, connector chains of length<=3 (conn= and explicit 'J_n:k' forms), attributes (incl. callables), clocks; "
        "histories of <=12 requests, dir mostly '-', some None/i/o/oe/io/dicts, xdr overrides, repeats; "
        "(3) malformed: invalid dir/xdr values and types, unknown resources, dangling connector pins, cyclic connectors "
        "(NameError since bf3797f; real code still run under a safety timer); (4) build: dummy iCE40/ECP5/Gowin platforms, Platform.build(do_build=False), "
        ".pcf/.lpf/.cst parsed and compared with port_constraints/clock_constraints of the model. "
        "non-trivial = at least one request granted and at least one refused or a connector/diff/subsignal involved; "
        "distinct by case hash")
MODELLED = ("ResourceManager.request (lookup, merge_options, resolve incl. order of side effects and the restore on "
            "failure), Pins.map_names, Connector pin tables, Platform.iter_port_constraints_bits are modelled in "
            "coq/Model/Res.v. Validated only (differential run): IOPort/SingleEndedPort/DifferentialPort/Pin object "
            "plumbing, PortGroup setattr, Period->hertz, Design port discovery, the Jinja templates of "
            "_siliconblue/_lattice/_gowin (.pcf/.lpf/.cst text) — clause 'constraint file assigns each used port bit "
            "its pin and each clock its period' is proved for the model's constraint list and validated for the files")
ASSUMPTIONS = ["names are mapped injectively to strings without ':' / '__' (a platform pin name containing ':' would be "
               "treated as a connector pin)",
               "subsignal names inside one Subsignal are distinct; connector pin keys are distinct (asserted by the code)",
               "attribute values are str or callables returning str (Attrs(X=None) deletes while iterating: not modelled)",
               "Pins/DiffPairs have >=1 pin; DiffPairs p/n have equal length (enforced by the constructor)"]

DIRS = ["i", "o", "oe", "io"]
ERR = {"ResourceError": 1, "TypeError": 2, "ValueError": 3, "NameError": 4}
HANG_TIMEOUT = 10.0   # safety net only: Pins.map_names terminates on cyclic tables since bf3797f


# ------------------------------------------------------------------ name maps
def conn_name(c):
    return f"J{c}", c % 3


# resource names: some are prefixes / extensions of others, so that the path roots f"{name}_{number}" of different
# resources are prefixes of one another ("led_1" vs "led_10" vs "led_1_0", "le_1", "clk_1" vs "clk_10" ...)
RNAMES = ["led", "led_1", "le", "clk", "clk_1", "l"]
NUMS = [0, 1, 2, 10, 11, 12, 100]


def res_name(i):
    return RNAMES[i] if 0 <= i < len(RNAMES) else f"r{i}"


def res_id(name):
    return RNAMES.index(name) if name in RNAMES else int(name[1:])


def pn_str(pn):
    if pn[0] == "p":
        return f"P{pn[1]}"
    n, k = conn_name(pn[1])
    return f"{n}_{k}:{pn[2]}"


def path_ints(path):
    name, num = path[0].rsplit("_", 1)
    subs = [int(s[1:]) for s in path[1:]]
    return [res_id(name), int(num), len(subs)] + subs


def ioport_ints(name):
    comps = name.split("__")
    suffix = {"io": 0, "p": 1, "n": 2}[comps[-1]]
    return path_ints(comps[:-1]), suffix


# ------------------------------------------------------------------ graph helpers (generator side only)
def cm_of(conns):
    cm = {}
    for c, entries, _form in conns:
        for k, tgt in entries:
            cm[(c, k)] = tgt
    return cm


def has_cycle(conns):
    cm = cm_of(conns)
    for start in cm:
        seen = set()
        cur = ("c",) + start
        while cur[0] == "c" and (cur[1], cur[2]) in cm:
            if (cur[1], cur[2]) in seen:
                return True
            seen.add((cur[1], cur[2]))
            cur = tuple(cm[(cur[1], cur[2])])
    return False


def res_pins(node, conns):
    """platform pins of a resource after connector resolution (acyclic tables only; generator side)."""
    cm = cm_of(conns)
    if node[0] == "G":
        return [p for s in node[3] for p in res_pins(s, conns)]
    out = []
    for lst in node[3][1:]:
        for t in lst:
            t = tuple(t)
            while t[0] == "c" and (t[1], t[2]) in cm:
                t = tuple(cm[(t[1], t[2])])
            out.append(t)
    return out


# ------------------------------------------------------------------ building real objects
def build_conns(conns):
    from amaranth.build import Connector
    out = []
    for c, entries, form in conns:
        name, num = conn_name(c)
        tg = [t for _, t in entries]
        if form == "conn" and tg and all(t[0] == "c" and t[1] == tg[0][1] for t in tg):
            out.append(Connector(name, num, {str(k): str(t[2]) for k, t in entries}, conn=conn_name(tg[0][1])))
        elif form == "str" and all(t[0] == "p" for t in tg) and [k for k, _ in entries] == sorted(set(k for k, _ in entries)) \
                and entries and entries[0][0] >= 1:
            d = dict(entries)
            out.append(Connector(name, num, " ".join(pn_str(d[k]) if k in d else "-" for k in range(1, max(d) + 1))))
        else:
            out.append(Connector(name, num, {str(k): pn_str(t) for k, t in entries}))
    return out


def build_pins(cls, lists, dir, inv, form):
    from amaranth.build import Pins, PinsN, DiffPairs, DiffPairsN
    tg = [t for l in lists for t in l]
    kw = {"dir": dir, "invert": inv}
    if form == "N" and inv:          # the PinsN / DiffPairsN spelling of invert=True
        cls = PinsN if cls is Pins else DiffPairsN
        kw = {"dir": dir}
    if form == "conn" and tg and all(t[0] == "c" and t[1] == tg[0][1] for t in tg):
        return cls(*[" ".join(str(t[2]) for t in l) for l in lists], conn=conn_name(tg[0][1]), **kw)
    return cls(*[" ".join(pn_str(t) for t in l) for l in lists], **kw)


def build_args(node):
    from amaranth.build import Pins, DiffPairs, Subsignal, Attrs, Clock, Period
    args = []
    if node[0] == "L":
        _, _name, attrs, phys, d, inv, clock, form = node
        if phys[0] == "P":
            args.append(build_pins(Pins, [phys[1]], d, inv, form))
        else:
            args.append(build_pins(DiffPairs, [phys[1], phys[2]], d, inv, form))
        if clock is not None:
            args.append(Clock(Period(ns=clock)))
    else:
        _, _name, attrs, subs = node
        for s in subs:
            args.append(Subsignal(f"s{s[1]}", *build_args(s)))
    if attrs:
        kw = {}
        for k, v, call in attrs:
            kw[f"K{k}"] = (lambda s: (lambda plat: s))(f"v{v}") if call else f"v{v}"
        args.append(Attrs(**kw))
    return args


def build_table(tbl):
    from amaranth.build import Resource
    return [Resource(res_name(node[1]), num, *build_args(node)) for num, node in tbl]


def py_dir(d):
    if isinstance(d, list):
        return {f"s{k}": py_dir(v) for k, v in d[1]}
    return d


def py_xdr(x):
    if isinstance(x, list):
        return {f"s{k}": py_xdr(v) for k, v in x[1]}
    return x


# ------------------------------------------------------------------ observing
class _Hang(BaseException):
    pass


def _alarm(signum, frame):
    raise _Hang()


def with_timer(fn, armed):
    """Run fn(); if `armed`, a hang longer than HANG_TIMEOUT raises _Hang (tables with connector cycles only)."""
    if not armed:
        return fn()
    old = signal.signal(signal.SIGALRM, _alarm)
    signal.setitimer(signal.ITIMER_REAL, HANG_TIMEOUT)
    try:
        return fn()
    finally:
        signal.setitimer(signal.ITIMER_REAL, 0)
        signal.signal(signal.SIGALRM, old)


def enc_attrs(attrs):
    out = [len(attrs)]
    for k, v in attrs.items():
        out += [int(k[1:]), int(v[1:])]
    return out


def enc_port(port):
    from amaranth.lib import io
    diff = isinstance(port, io.DifferentialPort)
    main = port.p if diff else port.io
    pth, suffix = ioport_ints(main.name)
    out = list(pth)
    inv = tuple(port.invert)
    out += [int(diff), 1 if inv and all(inv) else (0 if not any(inv) else 2),
            {"i": 0, "o": 1, "io": 3}[port.direction.value]]
    pn = [int(m.name[1:]) for m in main.metadata]
    nn = [int(m.name[1:]) for m in port.n.metadata] if diff else []
    out += [len(pn)] + pn + [len(nn)] + nn
    metas = list(main.metadata) + (list(port.n.metadata) if diff else [])
    out += enc_attrs(metas[0].attrs)
    bad = suffix != (1 if diff else 0) or any(m.attrs != metas[0].attrs for m in metas) or len(main) != len(pn)
    if diff:
        p2, s2 = ioport_ints(port.n.name)
        bad = bad or p2 != pth or s2 != 2 or len(port.n) != len(nn)
    if bad:
        out.append(-77)
    return out


def enc_value(node, val, mgr):
    from amaranth.lib import io
    if node[0] == "G":
        out = [2, node[1], len(node[3])]
        for s in node[3]:
            out += enc_value(s, getattr(val, f"s{s[1]}"), mgr)
        return out
    isport = isinstance(val, (io.SingleEndedPort, io.DifferentialPort))
    if isport:
        return [3, node[1], 1] + enc_port(val)
    port = [pt for pin, pt, _buf in mgr._pins if pin is val][0]
    return [3, node[1], 0] + enc_port(port) + [val.width, DIRS.index(val.dir), val.xdr] + path_ints(val.path)


def enc_state(mgr):
    out = [len(mgr._requested)]
    for name, num in mgr._requested:
        out += [res_id(name), num]
    out.append(len(mgr._phys_reqd))
    for pin, path in mgr._phys_reqd.items():
        out += [int(pin[1:])] + path_ints(path)
    out.append(len(mgr._io_clocks))
    for port, hz in mgr._io_clocks.items():
        pth, suffix = ioport_ints(port.name)
        out += pth + [suffix, round(1e15 / hz)]
    out.append(len(mgr._pins))
    return out


def node_of(tbl, name, num):
    for n, node in tbl:
        if node[1] == name and n == num:
            return node
    return None


def err_code(e):
    """exception CLASS (and, for ResourceError, which of its three causes) as in RunC19.enc_err"""
    name = type(e).__name__
    if name == "ResourceError":
        msg = str(e)
        if "does not exist" in msg:
            return 6
        if "has already been requested" in msg:
            return 7
        if "uses physical pin" in msg:
            return 1
        return 1001
    return ERR.get(name, 1000 + sum(map(ord, name)))


def digest(xs):
    h = 0
    for x in xs:
        h = (h * 1000003 + x + 7) % 2305843009213693951
    return h


def run_hist(c):
    from amaranth.build.res import ResourceManager
    try:
        mgr = ResourceManager(build_table(c["tbl"]), build_conns(c["conn"]))
    except NameError:
        return [-1, 4, 0]
    out = []
    for name, num, d, x in c["hist"]:
        try:
            val = with_timer(lambda: mgr.request(res_name(name), num, dir=py_dir(d), xdr=py_xdr(x)), c.get("cyc", False))
        except _Hang:
            return out + [-2]
        except Exception as e:
            out += [-1, err_code(e), len(mgr._phys_reqd), len(mgr._io_clocks), digest(enc_state(mgr))]
            continue
        out += [1] + enc_value(node_of(c["tbl"], name, num), val, mgr) + [len(mgr._phys_reqd), len(mgr._io_clocks),
                                                                         digest(enc_state(mgr))]
    return out + [9] + enc_state(mgr)


def run_map(c):
    from amaranth.build import Pins, Resource
    from amaranth.build.res import ResourceManager
    mgr = ResourceManager([], build_conns(c["conn"]))
    pins = build_pins(Pins, [c["names"]], "io", False, c.get("pform", "plain"))
    try:
        names = with_timer(lambda: pins.map_names(mgr._conn_pins, None), c.get("cyc", False))
    except _Hang:
        return [-2]
    except NameError:
        return [-1, 4]
    return [1] + [int(n[1:]) for n in names]


# ------------------------------------------------------------------ build plans (constraint files)
VENDORS = ("ice40", "ecp5", "gowin", "nexus")


def make_platform(c):
    from amaranth.vendor import SiliconBluePlatform, LatticePlatform, GowinPlatform
    res, conns = build_table(c["tbl"]), build_conns(c["conn"])
    clk, rst = c.get("default_clk"), c.get("default_rst")
    common = dict(resources=res, connectors=conns, default_clk=None if clk is None else res_name(clk),
                  default_rst=None if rst is None else res_name(rst))
    if c["vendor"] == "ice40":
        cls = type("Ice", (SiliconBluePlatform,), dict(device="iCE40HX8K", package="CT256", **common))
        return cls(toolchain="IceStorm"), ".pcf"
    if c["vendor"] == "ecp5":
        cls = type("Ecp", (LatticePlatform,), dict(device="LFE5U-25F", package="BG381", speed="6", **common))
        return cls(toolchain="Trellis"), ".lpf"
    if c["vendor"] == "nexus":
        cls = type("Nx", (LatticePlatform,), dict(device="LIFCL-40", package="BG400", speed="8", **common))
        return cls(toolchain="Oxide"), ".pdc"
    cls = type("Gw", (GowinPlatform,), dict(part="GW1N-LV1QN48C6/I5", family="GW1N-1", osc_frequency=None, **common))
    return cls(toolchain="Apicula"), ".cst"


def run_build(c):
    """[n, code per design request (0 granted | error code)] then [-1, error] if the build is refused, else
    [1, entries in FILE ORDER..., clocks in FILE ORDER...]; -79 marks a line of the file the parser does not know."""
    from amaranth.hdl import Elaboratable, Module, Signal, Cat
    from amaranth.lib import io
    codes = []
    unused = {tuple(p) for p in c.get("unused", [])}

    class Top(Elaboratable):
        def elaborate(self, platform):
            m = Module()
            ctr = Signal(8)
            use_sync = c.get("default_clk") is not None
            if use_sync:
                m.d.sync += ctr.eq(ctr + 1)
            acc = []
            k = 0
            raws = list(enumerate(c.get("raw", [])))

            def add_raws(upto=None):
                """use the raw ports (IOPort without metadata, not known to the platform) whose position has come"""
                from amaranth.hdl import IOPort, Instance
                for i, (pos, width, kind) in list(raws):
                    if upto is not None and pos != upto:
                        continue
                    raws.remove((i, [pos, width, kind]))
                    port = IOPort(width, name=f"dbg{i}")
                    if kind == "buf":
                        m.submodules[f"dbg{i}"] = rb = io.Buffer("o", io.SingleEndedPort(port))
                        m.d.comb += rb.o.eq(ctr)
                    else:
                        m.submodules[f"dbg{i}"] = Instance("DBG", ("io", "pad", port), ("i", "x", ctr[0]))

            for name, num, d, x in c["hist"]:
                try:
                    val = platform.request(res_name(name), num, dir=py_dir(d), xdr=py_xdr(x))
                except Exception as e:
                    codes.append(err_code(e))      # the design catches refusals; their class is compared
                    continue
                codes.append(0)
                stack = [(node_of(c["tbl"], name, num), val, [name, num])]
                while stack:
                    node, v, pth = stack.pop(0)
                    if node[0] == "G":
                        stack = [(s, getattr(v, f"s{s[1]}"), pth + [s[1]]) for s in node[3]] + stack
                        continue
                    if tuple(pth) in unused:       # requested but never buffered: not a port of the design
                        continue
                    add_raws(k)
                    buf = io.Buffer(v.direction, v)
                    m.submodules[f"b{k}"] = buf
                    k += 1
                    if v.direction is not io.Direction.Input:
                        m.d.comb += buf.o.eq(ctr)
                    if v.direction is io.Direction.Bidir:
                        m.d.comb += buf.oe.eq(ctr[7])
                    if v.direction is not io.Direction.Output:
                        acc.append(buf.i)
            raws[:] = [r for r in raws if r[1][0] >= k]      # positions past the end: after the last buffered port
            add_raws()
            if not use_sync:
                m.d.comb += ctr.eq(Cat(*acc).xor() if acc else 5)
            return m

    try:
        plat, ext = make_platform(c)
    except NameError:
        return [-1, 4, 0]
    try:
        plan = plat.build(Top(), do_build=False)
    except Exception as e:
        if type(e).__name__ not in ERR:
            raise
        return [len(codes)] + codes + [-1, err_code(e)]
    text = None
    for fn, content in plan.files.items():
        if fn.endswith(ext):
            text = content if isinstance(content, str) else content.decode()
    entries, clocks, unknown = parse_constraints(c["vendor"], text)
    out = [len(codes)] + codes + [1, len(entries)]
    for pth, suffix, bit, pin, attrs in entries:
        out += [pth[0], pth[1], len(pth) - 2] + pth[2:] + [suffix, bit, pin] + attrs
    out.append(len(clocks))
    for pth, suffix, period in clocks:
        out += [pth[0], pth[1], len(pth) - 2] + pth[2:] + [suffix, period]
    return out + [-79] * unknown


def _port_of(text):
    m = re.fullmatch(r"(\w+?)(?:\[(\d+)\])?", text)
    if m is None or "__" not in m.group(1):
        return [[-5, -5], 0, -5]         # not the name of a requested port (e.g. a raw port): never matches the model
    pth, suffix = ioport_ints(m.group(1))
    pth = pth[:2] + pth[3:]
    return [pth, suffix, -1 if m.group(2) is None else int(m.group(2))]


BOILERPLATE = re.compile(r"(#|//).*|BLOCK ASYNCPATHS;|BLOCK RESETPATHS;|")


def parse_constraints(vendor, text):
    """every line of the file must be a known constraint form (else counted in `unknown`); an attribute line must
    directly follow the location line of the same port"""
    entries, clocks, unknown = [], [], 0

    def attach(port_text, kv):
        nonlocal unknown
        if not entries or entries[-1][:3] != _port_of(port_text) or entries[-1][4] != [0] and vendor != "gowin":
            unknown += 1
            return
        cur = entries[-1][4]
        entries[-1][4] = [cur[0] + len(kv)] + cur[1:] + [int(t[1:]) for p in kv for t in p]

    loc = {"ice40": r"set_io (\S+) (\S+)", "ecp5": r'LOCATE COMP "(\S+)" SITE "(\S+)";',
           "gowin": r'IO_LOC "(\S+)" (\S+);', "nexus": r"ldc_set_location -site \{(\S+)\} \[get_ports (\S+)\]"}[vendor]
    for line in text.splitlines():
        line = line.strip()
        if BOILERPLATE.fullmatch(line):
            continue
        m = re.fullmatch(loc, line)
        if m:
            port, pin = (m.group(2), m.group(1)) if vendor == "nexus" else (m.group(1), m.group(2))
            entries.append(_port_of(port) + [int(pin[1:]), [0]])
            continue
        if vendor == "ice40":
            m = re.fullmatch(r"set_frequency (\S+) (\S+)", line)
            if m:
                pth, suffix, _ = _port_of(m.group(1))
                clocks.append((pth, suffix, round(1e9 / float(m.group(2)))))
                continue
        elif vendor == "ecp5":
            m = re.fullmatch(r'IOBUF PORT "(\S+)"((?: \w+=\w+)+);', line)
            if m:
                attach(m.group(1), [p.split("=") for p in m.group(2).split()])
                continue
            m = re.fullmatch(r'FREQUENCY PORT "(\S+)" (\S+) HZ;', line)
            if m:
                pth, suffix, _ = _port_of(m.group(1))
                clocks.append((pth, suffix, round(1e15 / float(m.group(2)))))
                continue
        elif vendor == "nexus":
            m = re.fullmatch(r"ldc_set_port -iobuf \{((?:\w+=\w+ )+)\} \[get_ports (\S+)\]", line)
            if m:
                attach(m.group(2), [p.split("=") for p in m.group(1).split()])
                continue
            m = re.fullmatch(r'create_clock -name "(\S+)" -period (\S+) \[get_ports "(\S+)"\]', line)
            if m and m.group(1) == m.group(3):
                pth, suffix, _ = _port_of(m.group(1))
                clocks.append((pth, suffix, round(float(m.group(2)) * 1e6)))
                continue
        else:
            m = re.fullmatch(r'IO_PORT "(\S+)" (\w+)=(\w+);', line)
            if m:
                attach(m.group(1), [[m.group(2), m.group(3)]])
                continue
        unknown += 1
    return entries, clocks, unknown


def run_impl(c):
    if c["k"] == "map":
        return run_map(c)
    if c["k"] == "build":
        return run_build(c)
    return run_hist(c)


# ------------------------------------------------------------------ Gallina terms
def g_pn(t):
    return f"Plat {z(t[1])}" if t[0] == "p" else f"CPin {z(t[1])} {z(t[2])}"


def g_list(items):
    return "[" + "; ".join(items) + "]"


def g_cm(conns):
    return g_list([f"(({z(c)}, {z(k)}), {g_pn(t)})" for c, entries, _ in conns for k, t in entries])


def g_alist(attrs):
    return g_list([f"({z(k)}, {z(v)})" for k, v, _ in attrs])


def g_node(n):
    if n[0] == "L":
        _, name, attrs, phys, d, inv, clock, _form = n
        ph = (f"(PPins {g_list([g_pn(t) for t in phys[1]])})" if phys[0] == "P" else
              f"(PDiff {g_list([g_pn(t) for t in phys[1]])} {g_list([g_pn(t) for t in phys[2]])})")
        ck = "None" if clock is None else f"(Some {z(clock * 10 ** 6)})"
        return f"(Leaf {z(name)} {g_alist(attrs)} (mkLeaf {ph} D{d} {blit(inv)} {ck}))"
    _, name, attrs, subs = n
    return f"(Group {z(name)} {g_alist(attrs)} {g_list([g_node(s) for s in subs])})"


def g_tbl(tbl):
    return g_list([f"({z(num)}, {g_node(n)})" for num, n in tbl])


def g_dir(d):
    if d is None:
        return "DNone"
    if d == "-":
        return "DDash"
    if isinstance(d, list):
        return "(DDict " + g_list([f"({z(k)}, {g_dir(v)})" for k, v in d[1]]) + ")"
    if d in DIRS:
        return f"(DDir D{d})"
    return "DBad"


def g_xdr(x):
    if x is None:
        return "XNone"
    if isinstance(x, list):
        return "(XDict " + g_list([f"({z(k)}, {g_xdr(v)})" for k, v in x[1]]) + ")"
    if isinstance(x, int) and not isinstance(x, bool):
        return f"(XInt {z(x)})"
    return "XBad"


def g_hist(h):
    return g_list([f"(mkReq {z(n)} {z(num)} {g_dir(d)} {g_xdr(x)})" for n, num, d, x in h])


def g_path(p):
    return f"(({z(p[0])}, {z(p[1])}), {zlist(p[2:])})"


def coq_term(c):
    if c["k"] == "map":
        return f"k_map {g_cm(c['conn'])} {g_list([g_pn(t) for t in c['names']])}"
    if c["k"] == "build":
        v = {"ice40": "VIce40", "ecp5": "VEcp5", "gowin": "VGowin", "nexus": "VNexus"}[c["vendor"]]
        clk = -1 if c.get("default_clk") is None else c["default_clk"]
        rst = -1 if c.get("default_rst") is None else c["default_rst"]
        return (f"k_build {v} {g_tbl(c['tbl'])} {g_cm(c['conn'])} {g_hist(c['hist'])} {z(clk)} {z(rst)} "
                f"{g_list([g_path(p) for p in c.get('unused', [])])} "
                f"{g_list([f'({z(r[0])}, {z(r[1])})' for r in c.get('raw', [])])}")
    return f"k_hist {g_tbl(c['tbl'])} {g_cm(c['conn'])} {g_hist(c['hist'])}"


# ------------------------------------------------------------------ generators
def gen_conns(rng, npins, allow_bad):
    """connector tables: chains of length <= 3; optionally dangling references / cycles."""
    nconn = rng.randrange(1 if allow_bad else 0, 4)
    conns = []
    for c in range(nconn):
        npin = rng.randrange(1, 4)
        keys = sorted(rng.sample(range(1, 5), npin))
        entries = []
        for k in keys:
            r = rng.random()
            if c > 0 and r < 0.5:      # chain to a lower-numbered connector (acyclic), chain length <= 3
                tc = rng.randrange(0, c)
                tk = rng.choice([e[0] for e in conns[tc][1]]) if rng.random() < 0.95 or not allow_bad else 9
                entries.append([k, ["c", tc, tk]])
            else:
                entries.append([k, ["p", rng.randrange(0, npins)]])
        conns.append([c, entries, rng.choice(["dict", "dict", "conn", "str"])])
    if allow_bad and conns and rng.random() < 0.8:
        # make a cycle: some entry points to itself or to a higher connector that points back
        c = rng.randrange(0, len(conns))
        e = rng.choice(conns[c][1])
        tc = rng.randrange(c, len(conns))
        e[1] = ["c", tc, rng.choice([x[0] for x in conns[tc][1]])]
    return conns


def gen_pn(rng, conns, npins, allow_bad):
    if conns and rng.random() < 0.4:
        c = rng.randrange(0, len(conns))
        ks = [e[0] for e in conns[c][1]]
        k = rng.choice(ks) if not (allow_bad and rng.random() < 0.1) else 7
        return ["c", c, k]
    return ["p", rng.randrange(0, npins)]


def gen_attrs(rng):
    n = rng.choice([0, 0, 1, 1, 2])
    ks = rng.sample(range(0, 4), n)
    return [[k, rng.randrange(0, 5), rng.random() < 0.15] for k in ks]


def gen_leaf(rng, name, conns, npins, allow_bad, vendor=None):
    w = rng.choice([1, 1, 1, 2, 2, 3])
    diff = rng.random() < 0.25
    d = rng.choice(DIRS)
    if vendor is not None and diff:
        d = rng.choice(["i", "o"])
    samec = conns and rng.random() < 0.3
    if samec:
        c = rng.randrange(0, len(conns))
        ks = [e[0] for e in conns[c][1]]
        mk = lambda: ["c", c, rng.choice(ks)]
    else:
        mk = lambda: gen_pn(rng, conns, npins, allow_bad)
    phys = ["D", [mk() for _ in range(w)], [mk() for _ in range(w)]] if diff else ["P", [mk() for _ in range(w)]]
    clock = rng.choice([None, None, None, 8, 10, 20, 100, 1000])
    inv = rng.random() < 0.3
    form = rng.choice(["plain", "conn"])
    if inv and rng.random() < 0.5:
        form = "N"                       # PinsN(...) / DiffPairsN(...)
    return ["L", name, gen_attrs(rng), phys, d, inv, clock, form]


def gen_node(rng, name, depth, conns, npins, allow_bad, vendor=None):
    if depth == 0 or rng.random() < 0.55:
        return gen_leaf(rng, name, conns, npins, allow_bad, vendor)
    nsub = rng.randrange(1, 4)
    names = rng.sample(range(0, 5), nsub)
    return ["G", name, gen_attrs(rng), [gen_node(rng, s, depth - 1, conns, npins, allow_bad, vendor) for s in names]]


def gen_table(rng, nres, npins, conns, allow_bad, vendor=None):
    tbl, seen = [], set()
    pending = []
    while len(tbl) < nres:
        if pending:
            key = pending.pop()
        elif vendor is not None and not tbl:
            key = (rng.randrange(0, len(RNAMES)), 0)        # a candidate default clock needs number 0
        else:
            key = (rng.randrange(0, len(RNAMES)), rng.choice(NUMS))
            if rng.random() < 0.4:
                pending += prefix_partners(rng, key)
        if key in seen:
            continue
        seen.add(key)
        tbl.append([key[1], gen_node(rng, key[0], 2, conns, npins, allow_bad, vendor)])
    return tbl


def prefix_partners(rng, key):
    """keys whose path root f"{name}_{number}" extends (or is a prefix of) the root of `key`."""
    name, num = RNAMES[key[0]], key[1]
    out = []
    for n2 in range(len(RNAMES)):
        for m2 in NUMS:
            a, b = f"{name}_{num}", f"{RNAMES[n2]}_{m2}"
            if a != b and (a.startswith(b) or b.startswith(a)):
                out.append((n2, m2))
    rng.shuffle(out)
    return out[:rng.randrange(1, 3)]


def gen_dir(rng, node, bad):
    r = rng.random()
    if r < 0.62:
        return "-"
    if r < 0.72:
        return None
    if node[0] == "L":
        if bad and rng.random() < 0.3:
            return rng.choice(["x", "", ["d", []], ["d", [[0, "i"]]]])
        return node[4] if rng.random() < 0.5 else rng.choice(DIRS + ["-"])
    if bad and rng.random() < 0.3:
        return rng.choice(["i", "x", "io"])
    ents = []
    for s in node[3]:
        if rng.random() < 0.7:
            ents.append([s[1], gen_dir(rng, s, bad)])
    if rng.random() < 0.1:
        ents.append([9, "i"])
    return ["d", ents]


def gen_xdr(rng, node, bad):
    r = rng.random()
    if r < 0.7:
        return None
    if node[0] == "L":
        if bad and rng.random() < 0.4:
            return rng.choice([-1, "bad", ["d", []], ["d", [[0, 1]]], 3, 7])
        return rng.choice([0, 0, 1, 2, 2, 3])
    if bad and rng.random() < 0.3:
        return rng.choice([0, 1, "bad"])
    ents = []
    for s in node[3]:
        if rng.random() < 0.6:
            ents.append([s[1], gen_xdr(rng, s, bad)])
    return ["d", ents]


def sim_request(tbl, conns, st, req):
    """generator-side steering only (never an oracle): predicts whether a request is granted.
    True/False for plain dir='-'/None requests, None when options make it uncertain."""
    name, num, d, x = req
    node = node_of(tbl, name, num)
    if node is None or (name, num) in st["granted"]:
        return False
    pins = res_pins(node, conns)
    new = set()
    for p in pins:
        if p[0] == "c" or p in st["held"] or p in new:
            return False
        new.add(p)
    if d not in ("-", None) or x is not None:
        return None
    for p in new:
        st["held"][p] = (name, num)
    st["granted"].add((name, num))
    return True


def has_special(node):
    """contains a DiffPairs leaf or a clock-constrained leaf"""
    if node[0] == "L":
        return node[3][0] == "D" or node[6] is not None
    return any(has_special(s) for s in node[3])


def probes(rng, tbl, conns, st):
    """requests that collide with pins (incl. DiffPairs n pins / clocked ports) of previously granted resources,
    or repeat a granted one: a leaked or erased allocation then shows as a wrong grant / refusal."""
    coll, special = [], []
    for num, node in tbl:
        key = (node[1], num)
        if key in st["granted"]:
            continue
        owners = {st["held"][p] for p in res_pins(node, conns) if p in st["held"]}
        if owners:
            coll.append(key)
            if any(has_special(node_of(tbl, *o)) for o in owners):
                special.append(key)
    out = []
    for _ in range(rng.randrange(1, 3)):
        r = rng.random()
        if special and r < 0.5:
            out.append(rng.choice(special))
        elif coll and r < 0.85:
            out.append(rng.choice(coll))
        elif st["granted"]:
            out.append(rng.choice(sorted(st["granted"])))
    return [[k[0], k[1], "-", None] for k in out]


def gen_history(rng, tbl, n, bad, conns=None, steer=True):
    h = []
    steer = steer and conns is not None and not has_cycle(conns)
    st = {"granted": set(), "held": {}}
    queue = []
    while len(h) < n:
        if queue:
            req = queue.pop(0)
        else:
            r = rng.random()
            if bad and r < 0.07:
                req = [rng.randrange(0, len(RNAMES) + 1), rng.choice(NUMS + [3]), "-", None]   # possibly unknown
            else:
                req = None
                if h and r < 0.2:
                    prev = rng.choice(h)
                    node = node_of(tbl, prev[0], prev[1])
                    if node is not None:
                        req = [prev[0], prev[1], gen_dir(rng, node, bad), gen_xdr(rng, node, bad)]
                if req is None:
                    num, node = rng.choice(tbl)
                    req = [node[1], num, gen_dir(rng, node, bad), gen_xdr(rng, node, bad)]
        h.append(req)
        if steer:
            ok = sim_request(tbl, conns, st, req)
            if ok is False and not queue and st["granted"] and rng.random() < 0.75:
                queue = probes(rng, tbl, conns, st)
    return h


def gen_prefix_case(rng):
    """a granted resource whose path root extends the root of a resource that is then refused after it has
    already claimed a pin; followed by requests colliding with the first one's pins (incl. n pins, clocks)."""
    npins = rng.randrange(5, 10)
    conns = gen_conns(rng, npins, False) if rng.random() < 0.3 else []
    k_short = (rng.randrange(0, len(RNAMES)), rng.choice(NUMS))
    part = [k for k in prefix_partners(rng, k_short)]
    while not part:
        k_short = (rng.randrange(0, len(RNAMES)), rng.choice(NUMS))
        part = prefix_partners(rng, k_short)
    k_long = part[0]
    if rng.random() < 0.3:
        k_short, k_long = k_long, k_short
    pool = list(range(npins))
    rng.shuffle(pool)
    a, b, c, d = pool[:4]
    clock = rng.choice([None, 8, 10, 100])
    if rng.random() < 0.5:
        long_leaf = ["L", k_long[0], gen_attrs(rng), ["D", [["p", a]], [["p", b]]], rng.choice(["i", "o"]), rng.random() < 0.3,
                     clock, "plain"]
    else:
        long_leaf = ["L", k_long[0], gen_attrs(rng), ["P", [["p", a], ["p", b]]], rng.choice(DIRS), rng.random() < 0.3,
                     clock, "plain"]
    long_node = long_leaf
    if rng.random() < 0.4:
        long_node = ["G", k_long[0], gen_attrs(rng), [_rename(long_leaf, 1),
                                                       ["L", 2, [], ["P", [["p", d]]], "i", False, rng.choice([None, 20]), "plain"]]]
    # the short one first claims a free pin (and possibly a clock), then hits a pin that is already held
    hit = rng.choice([a, b])
    short_node = ["G", k_short[0], gen_attrs(rng),
                  [["L", 0, [], ["P", [["p", c]]], rng.choice(DIRS), False, rng.choice([None, 10]), "plain"],
                   ["L", 1, [], ["P", [["p", hit]]], rng.choice(DIRS), rng.random() < 0.3, None, "plain"]]] \
        if rng.random() < 0.6 else \
        ["L", k_short[0], [], ["P", [["p", c], ["p", hit]]], rng.choice(DIRS), False, rng.choice([None, 10]), "plain"]
    tbl = [[k_long[1], long_node], [k_short[1], short_node]]
    seen = {k_long, k_short}
    # probes: collide with a / b (the n pin of the pair) / d
    for pin in rng.sample([a, b, d, c], rng.randrange(2, 5)):
        key = (rng.randrange(0, len(RNAMES)), rng.choice(NUMS))
        if key in seen:
            continue
        seen.add(key)
        other = rng.choice(pool[4:]) if len(pool) > 4 and rng.random() < 0.5 else None
        names = [["p", pin]] if other is None else [["p", other], ["p", pin]]
        tbl.append([key[1], ["L", key[0], gen_attrs(rng), ["P", names], rng.choice(DIRS), False, rng.choice([None, 1000]), "plain"]])
    rng.shuffle(tbl)
    req = lambda k: [k[0], k[1], "-" if rng.random() < 0.9 else None, None]
    hist = [req(k_long)]
    if rng.random() < 0.4 and len(tbl) > 2:
        num, node = rng.choice(tbl)
        hist.append(req((node[1], num)))
    hist.append(req(k_short))
    others = [(node[1], num) for num, node in tbl if (node[1], num) not in (k_long, k_short)]
    rng.shuffle(others)
    for k in others[:rng.randrange(1, 4)]:
        hist.append(req(k))
    if rng.random() < 0.5:
        hist.append(req(k_short))
    if rng.random() < 0.3:
        hist.append(req(k_long))
    return {"k": "hist", "tbl": tbl, "conn": conns, "cyc": False, "hist": hist[:12], "pfx": True}


def _rename(leaf, name):
    leaf = list(leaf)
    leaf[1] = name
    return leaf


def small_scope_maps():
    """all tables over entries (0,1),(0,2),(1,1) x 8 targets each (absent or one of 7); each table in the dict form
    with explicit 'J_n:k' targets and, where it applies, in the Connector(..., conn=) and the string forms;
    the queried Pins in the explicit and, where it applies, the Pins(..., conn=) form."""
    targets = [None, ["p", 0], ["p", 1], ["c", 0, 1], ["c", 0, 2], ["c", 1, 1], ["c", 1, 2], ["c", 2, 1]]
    slots = [(0, 1), (0, 2), (1, 1)]
    names = [["c", 0, 1], ["p", 5], ["c", 0, 2], ["c", 1, 1]]
    out = []
    for combo in itertools.product(targets, repeat=3):
        ents = {0: [], 1: []}
        for (c, k), t in zip(slots, combo):
            if t is not None:
                ents[c].append([k, t])
        variants = [[[c, e, "dict"] for c, e in ents.items() if e]]
        alt = []
        for c, e in ents.items():
            if not e:
                continue
            tg = [t for _, t in e]
            if all(t[0] == "c" and t[1] == tg[0][1] for t in tg):
                alt.append([c, e, "conn"])
            elif all(t[0] == "p" for t in tg):
                alt.append([c, e, "str"])
            else:
                alt.append([c, e, "dict"])
        if any(a[2] != "dict" for a in alt):
            variants.append(alt)
        for vi, conns in enumerate(variants):
            for sub in ((names, names[2:], names[3:], [names[0], names[2]]) if vi == 0 else (names, [names[0], names[2]])):
                case = {"k": "map", "conn": conns, "names": sub}
                # tables containing a connector cycle are flagged (classification; arms the safety timer)
                case["cyc"] = has_cycle(conns)
                if all(t[0] == "c" and t[1] == sub[0][1] for t in sub):
                    case["pform"] = "conn"
                out.append(case)
    return out


F5_TBL = [
    [0, ["L", 0, [], ["P", [["p", 0], ["p", 1]]], "io", False, None, "plain"]],
    [0, ["G", 1, [[0, 1, False]], [["L", 0, [], ["P", [["p", 2]]], "o", False, 10, "plain"],
                                   ["L", 1, [[1, 2, False]], ["P", [["p", 1]]], "i", True, None, "plain"]]]],
    [0, ["L", 2, [], ["P", [["p", 2]]], "oe", False, 20, "plain"]],
    [1, ["L", 2, [], ["D", [["p", 0]], [["p", 3]]], "i", True, 8, "plain"]],
]


def leaf_paths(node, prefix):
    if node[0] == "L":
        return [prefix]
    out = []
    for sub in node[3]:
        out += leaf_paths(sub, prefix + [sub[1]])
    return out


def clock_candidates(tbl, need_clock=True):
    return [node[1] for num, node in tbl
            if num == 0 and node[0] == "L" and node[3][0] == "P" and len(node[3][1]) == 1
            and (node[6] is not None or not need_clock) and node[4] in ("i", "io")]


def gen_build_random(rng, vendor):
    """overlapping tables: refusals inside the design, default clock sometimes not grantable (build refused)"""
    npins = rng.randrange(4, 13)
    conns = gen_conns(rng, npins, False)
    tbl = gen_table(rng, rng.randrange(1, 6), npins, conns, False, vendor)
    keys = [(node[1], num) for num, node in tbl]
    rng.shuffle(keys)
    hist = [[name, num, "-", None] for name, num in keys[:rng.randrange(1, len(keys) + 1)]]
    if rng.random() < 0.3:
        hist.append(list(rng.choice(hist)))
    if rng.random() < 0.2:
        hist.append([rng.randrange(0, len(RNAMES)), 3, "-", None])       # does not exist
    clk = None
    cands = clock_candidates(tbl)
    if cands and rng.random() < 0.8:
        clk = rng.choice(cands)
        used = [p for h in hist if node_of(tbl, h[0], h[1]) for p in res_pins(node_of(tbl, h[0], h[1]), conns)]
        clash = [clk, 0] in [h[:2] for h in hist] or set(res_pins(node_of(tbl, clk, 0), conns)) & set(used)
        if clash and rng.random() < 0.7:     # keep a few builds that must be refused with ResourceError
            clk = None
    return {"k": "build", "vendor": vendor, "tbl": tbl, "conn": conns, "hist": hist, "default_clk": clk,
            "default_rst": None, "unused": [], "cyc": False}


def gen_build_disjoint(rng, vendor):
    """>= 3 resources on pairwise disjoint pins (everything is granted, many constraint lines), a clocked
    single-pin input as resource (x, 0) used as default_clk, often a default_rst, some granted ports left
    unbuffered, chained connectors in every form, a repeated and a colliding request."""
    nres = rng.randrange(3, 7)
    pool = list(range(0, 40))
    rng.shuffle(pool)
    conns = []
    if rng.random() < 0.6:                   # connectors over private pins; chains J1 -> J0, J2 -> J1
        base = [pool.pop() for _ in range(3)]
        conns.append([0, [[k + 1, ["p", base[k]]] for k in range(3)], rng.choice(["dict", "str"])])
        if rng.random() < 0.7:
            conns.append([1, [[k + 1, ["c", 0, k + 1]] for k in range(3)], rng.choice(["dict", "conn"])])
            if rng.random() < 0.5:
                conns.append([2, [[k + 1, ["c", 1, 3 - k]] for k in range(3)], rng.choice(["dict", "conn"])])
    cpins = [["c", conns[-1][0], k + 1] for k in range(3)] if conns else []
    rng.shuffle(cpins)

    def take():
        if cpins and rng.random() < 0.5:
            return cpins.pop()
        return ["p", pool.pop()]

    def leaf(name, vendor_dirs=True):
        w = rng.choice([1, 1, 2, 3])
        diff = rng.random() < 0.3
        d = rng.choice(["i", "o"]) if diff else rng.choice(DIRS)
        phys = ["D", [take() for _ in range(w)], [take() for _ in range(w)]] if diff else ["P", [take() for _ in range(w)]]
        inv = rng.random() < 0.3
        form = "N" if inv and rng.random() < 0.5 else rng.choice(["plain", "conn"])
        return ["L", name, gen_attrs(rng), phys, d, inv, rng.choice([None, None, 8, 10, 20, 100]), form]

    names = rng.sample(range(len(RNAMES)), min(nres, len(RNAMES)))
    tbl = []
    # resource 0: the clock
    clk_name = names[0]
    tbl.append([0, ["L", clk_name, gen_attrs(rng), ["P", [take()]], rng.choice(["i", "io"]), rng.random() < 0.2,
                    rng.choice([8, 10, 20, 100, 1000]), "plain"]])
    rst_name = None
    if rng.random() < 0.5:
        rst_name = names[1]
        tbl.append([0, ["L", rst_name, gen_attrs(rng), ["P", [take()]], "i", rng.random() < 0.5, None,
                        rng.choice(["plain", "N"])]])
    seen = {(n[1], num) for num, n in tbl}
    while len(tbl) < nres:
        key = (rng.randrange(0, len(RNAMES)), rng.choice(NUMS))
        if key in seen:
            continue
        seen.add(key)
        if rng.random() < 0.4:
            subs = rng.sample(range(0, 5), rng.randrange(1, 4))
            tbl.append([key[1], ["G", key[0], gen_attrs(rng), [leaf(sn) for sn in subs]]])
        else:
            tbl.append([key[1], leaf(key[0])])
    design = [(n[1], num) for num, n in tbl if (n[1], num) not in ((clk_name, 0), (rst_name, 0))]
    rng.shuffle(design)
    hist = [[name, num, "-", None] for name, num in design]
    r = rng.random()
    if r < 0.15 and hist:
        hist.append(list(rng.choice(hist)))                               # already requested
    elif r < 0.25:
        hist.append([clk_name, 0, "-", None])                             # the design takes the clock: build refused
    elif r < 0.35 and hist:
        # a resource colliding with a granted one (refused inside the design)
        victim = node_of(tbl, hist[0][0], hist[0][1])
        pin = res_pins(victim, conns)[0]
        key = next(k for k in ((a, b) for a in range(len(RNAMES)) for b in NUMS) if k not in seen)
        tbl.append([key[1], ["L", key[0], [], ["P", [list(pin)]], "io", False, None, "plain"]])
        hist.insert(rng.randrange(1, len(hist) + 1), [key[0], key[1], "-", None])
    unused = []
    for name, num, _d, _x in hist:
        node = node_of(tbl, name, num)
        for pth in leaf_paths(node, [name, num]):
            if rng.random() < 0.25 and pth not in unused:
                unused.append(pth)
    use_clk = rng.random() < 0.85
    return {"k": "build", "vendor": vendor, "tbl": tbl, "conn": conns, "hist": hist,
            "default_clk": clk_name if use_clk else None,
            "default_rst": rst_name if use_clk and rng.random() < 0.8 else None,
            "unused": unused, "cyc": False}


def add_raw_ports(rng, case, prob):
    """raw IOPorts (no metadata) created by the design itself: one-bit and wider, one or several, used through an
    io.Buffer or an Instance before / between / after the requested ports (= at different positions of Design.ports)"""
    case["raw"] = []
    if rng.random() < prob:
        nleaf = sum(len(leaf_paths(node_of(case["tbl"], h[0], h[1]), [])) for h in case["hist"]
                    if node_of(case["tbl"], h[0], h[1]))
        for _ in range(rng.choice([1, 1, 2, 3])):
            pos = rng.choice([0, 0, rng.randrange(0, nleaf + 1), rng.randrange(0, nleaf + 1), nleaf + 2])
            width = rng.choice([1, 1, 1, 2, 3])
            # iCE40's get_io_buffer reads the attrs of the metadata unconditionally: only Instances can use a raw port
            kind = "inst" if case["vendor"] == "ice40" else rng.choice(["buf", "inst"])
            case["raw"].append([pos, width, kind])
    return case


def small_scope_hists():
    keys = [(0, 0), (1, 0), (2, 0), (2, 1)]
    out = []
    for n in range(1, 5):
        for seq in itertools.product(range(4), repeat=n):
            for dmode in (("-",) if n == 4 else ("-", None)):
                out.append({"k": "hist", "tbl": F5_TBL, "conn": [], "cyc": False,
                            "hist": [[keys[i][0], keys[i][1], dmode, None] for i in seq]})
    return out


def gen_cases(tier, seed):
    rng = random.Random(seed)
    thorough = tier == "thorough"
    cases = []
    maps = small_scope_maps()
    cyc = [c for c in maps if c["cyc"]]
    acy = [c for c in maps if not c["cyc"]]
    rng.shuffle(cyc)
    cases += acy
    cases += small_scope_hists()
    N = 1000 if not thorough else 8000
    for i in range(N):
        bad = i % 4 == 3
        npins = rng.randrange(3, 13)
        conns = gen_conns(rng, npins, False)
        tbl = gen_table(rng, rng.randrange(1, 9), npins, conns, bad)
        cases.append({"k": "hist", "tbl": tbl, "conn": conns, "cyc": False,
                      "hist": gen_history(rng, tbl, rng.randrange(1, 13), bad, conns)})
    # cyclic connector tables inside histories
    for i in range(100 if not thorough else 1500):
        npins = rng.randrange(3, 8)
        conns = gen_conns(rng, npins, True)
        tbl = gen_table(rng, rng.randrange(1, 5), npins, conns, False)
        for num, node in tbl:          # make sure connector pins are used
            if node[0] == "L" and rng.random() < 0.6:
                c0 = rng.randrange(0, len(conns))
                node[3] = ["P", [["c", c0, rng.choice([e[0] for e in conns[c0][1]])]]]
        cases.append({"k": "hist", "tbl": tbl, "conn": conns, "cyc": has_cycle(conns),
                      "hist": gen_history(rng, tbl, rng.randrange(1, 6), False, conns)})
    for i in range(250 if not thorough else 3000):
        cases.append(gen_prefix_case(rng))
    NB = 25 if not thorough else 250
    for vendor in VENDORS:
        for i in range(NB):
            cases.append(add_raw_ports(rng, gen_build_random(rng, vendor), 0.4))
        for i in range(NB + 10):
            cases.append(add_raw_ports(rng, gen_build_disjoint(rng, vendor), 0.65))
    # duplicate (name, number) in the resource table: NameError at construction
    for i in range(12 if not thorough else 100):
        npins = rng.randrange(3, 9)
        tbl = gen_table(rng, rng.randrange(1, 5), npins, [], False)
        num, node = rng.choice(tbl)
        tbl.insert(rng.randrange(0, len(tbl) + 1), [num, gen_node(rng, node[1], 1, [], npins, False)])
        if i % 4 == 0:
            cases.append({"k": "build", "vendor": rng.choice(VENDORS), "tbl": tbl, "conn": [], "hist": [], "cyc": False})
        else:
            cases.append({"k": "hist", "tbl": tbl, "conn": [], "cyc": False, "hist": gen_history(rng, tbl, 2, False, [])})
    # spread the cyclic map cases over the chunks
    step = max(1, len(cases) // (len(cyc) + 1))
    for i, c in enumerate(cyc):
        cases.insert(min(len(cases), (i + 1) * step + i), c)
    return cases


# ------------------------------------------------------------------ reporting
def classify(c):
    if c["k"] == "map":
        return "map_names:" + ("cyclic" if c["cyc"] else "acyclic")
    if c["k"] == "build":
        tags = []
        if c.get("default_clk") is not None:
            tags.append("clk")
        if c.get("default_rst") is not None:
            tags.append("rst")
        if c.get("unused"):
            tags.append("unused")
        if c.get("raw"):
            tags.append("raw")
        return "build:" + c["vendor"] + ":" + ("+".join(tags) if tags else "plain")
    tags = []
    if c.get("pfx") or prefix_pairs(c["tbl"]):
        tags.append("pfxroots")
    if c.get("cyc"):
        tags.append("cyclic")
    if c["conn"]:
        tags.append("conn")
    if any(h[2] not in ("-", None) or h[3] is not None for h in c["hist"]):
        tags.append("opts")
    return "hist:" + ("+".join(tags) if tags else "plain") + f":len{min(len(c['hist']) // 4 * 4, 12)}"


def prefix_pairs(tbl):
    roots = [f"{res_name(node[1])}_{num}" for num, node in tbl]
    return any(a != b and b.startswith(a) for a in roots for b in roots)


def nontrivial(c, obs):
    if not isinstance(obs, list):
        return False
    if c["k"] == "map":
        return bool(c["conn"])
    if c["k"] == "build":   # a constraint file with at least two location lines was rendered and parsed
        n = obs[0]
        return len(obs) > n + 2 and obs[n + 1] == 1 and obs[n + 2] >= 2
    granted = sum(1 for i, v in enumerate(obs) if v == 1) > 0
    return granted and (-1 in obs or bool(c["conn"]) or any(n[0] == "G" or n[3][0] == "D" for _, n in c["tbl"]))


def explain(c):
    return ("hist: per request [1, value..., |phys_reqd|, |io_clocks|, digest(state)] or [-1, error, |phys_reqd|, |io_clocks|, "
            "digest(state)] with error 1 ResourceError(pin conflict) 6 ResourceError(does not exist) 7 ResourceError(already "
            "requested) 2 TypeError 3 ValueError 4 NameError; -2 = did not return (safety timer), -3 = model fuel exhausted "
            "(never); 9 + final state; [-1,4,0] = NameError constructing the manager. build: [n, code per design request, "
            "-1 error | 1 entries(file order) clocks(file order)], -79 = unparsed line in the constraint file")

"""C11 — memories behave as arrays of rows under any port configuration.

Correspondence: a real lib.memory.Memory with a generated port set runs in the real simulator with two
hand-driven clock domains "a" and "b"; after every event (new port inputs + the rising/falling of a set
of clocks in ONE ctx.set, or a testbench row write ctx.set(mem.data[i], v)) the data of every read port is
read back IMMEDIATELY after that ctx.set (on half of the random cases every row through ctx.get(mem.data[i]) as well),
at the end every row; compared with coq/Model/Mem.v run by vm_compute (k_mem2: the model derives widths, enable
widths and the hypothesis ev_ok itself from the constructor arguments).
Cases of kind "rtl": the same kind of design is converted by back.rtlil, the text read by harness/rtlil_read.py and
run under the RTLIL semantics coq/Model/RtlilSem.v ($meminit_v2/$memrd_v2/$memwr_v2), compared with the simulator
after every settle step.
`extra` additionally (Python only) checks the $mem*_v2 cell parameters textually and exercises cross-domain write
collisions (result must be one of the two values).

Event encoding (two integers x y per event, see coq/Harness/RunC11.v):
  y odd : row write   ctx.set(mem.data[y >> 1], x)
  y even: bit 1 / 2 = active edge of domain a / b, bit 3 / 4 = level of a.rst / b.rst,
          bits 5+5j.. = read port j: addr (4 bits) | en << 4
          x bits 20j.. = write port j: addr (4 bits) | en (8 bits) << 4 | data (8 bits) << 12
"""
import collections, itertools, random, re
from common import z, zlist, blit

ID = "C11"
LEVEL = "proof"
PROPS_FILE = "C11.v"
RUN_MODULE = "RunC11"
TRANSLATOR_UNITS = ["pysim", "mem"]
RULE = ("exhaustive: depth 2, width 1, one write + one read port (comb / sync / sync transparent), every input word "
        "(waddr, wdata, wen, raddr, ren) x (same) of two clock edges (thorough: also width 2 with two enable bits, transparent port); every single edge for depth in {0,1,2,3} x width "
        "{1,2} (quick: width 2 only with the transparent port) x granularity {None,1} x the three read-port kinds from a non-zero initial memory; "
        "seeded random: shapes unsigned 0/1/2/4/6/8, signed 1/3/8, StructLayout(u3,s5), ArrayLayout(u2,4)/(u4,2), a 2-bit Enum "
        "and a data.Struct with non-zero field defaults (rows and read data start at 245) on raw bits, aggregate "
        "initialisers as from_bits / field mapping / element sequence, depth in {0,1,2,3,4,5,8}, 0-3 write x 0-3 read ports over two domains (posedge/negedge, with reset or "
        "reset-less), comb/sync read ports, every transparency subset in random order (sometimes with a repeated port), "
        "granularities dividing the width (elements for ArrayLayout), 10-40 events: inputs with hot rows, addresses beyond "
        "the depth, enable words 0/all/random, edges of a, b, both at once, none, reset levels, testbench row writes with "
        "out-of-range/negative values; simultaneous edges at which two write ports of different domains would write a "
        "common bit are generated and then separated (b's edge dropped) — they are exercised in `extra` instead; every fourth "
        "random case is compared with the array SPECIFICATION machine instead of the simulator model; on every second one all "
        "rows are read through mem.data[i] after EVERY event; on every fifth the address of write port 0 is a register "
        "counting the edges of its domain (design-driven port input); "
        "`stale` family (150): 2-3 write ports on different rows, exactly one changing its row, the others idle or rewriting "
        "the stored value, comb read ports on the changed row, nothing else changing in the delta cycle (a lost "
        "'memory changed' flag leaves the comb port stale); "
        "`rtl` family (160): random configurations (>= 1 write and read port, width, depth >= 1) without same-bit collisions of any "
        "two write ports and with transparent reads kept inside the memory (both undefined in RTLIL), a preamble event that "
        "gives every clocked read port a defined value, then 8-20 events as settle steps (inputs / edges / rest): emitted "
        "RTLIL under Model/RtlilSem.v vs the simulator, every read port after every step; "
        "constructor arguments (granularity, depth, init length) compared on acceptance / exception class. "
        "Compared: [the model's own verdict that every event satisfies ev_ok = 1], every read port's data right after the "
        "ctx.set carrying the edge, all rows at the end. "
        "non-trivial = the observed answer is not constant; distinct by case hash")
MODELLED = ("pysim._PyMemoryState (read/write/commit with the write queue), the MemoryInstance part of "
            "_pyrtl._FragmentCompiler (write ports queued in port order with replicated enables, the `if rst:` block skipping read data signals, sync read "
            "ports with the transparency patch in transparent_for order, comb read ports), _pyeval row read/write, "
            "MemoryData.Init defaults/normalisation, WritePort.Signature's granularity rules, ceil_log2 are modelled by hand in "
            "coq/Model/Mem.v; validated only: Memory.elaborate -> MemoryInstance plumbing, the delta-cycle engine (processes of "
            "both domains in one delta, commit, comb re-evaluation), data.View wrappers of aggregate rows, and "
            "the memory cells of back.rtlil (run under the hand-written RTLIL semantics Model/RtlilSem.v on the rtl family; "
            "parameters also compared textually in `extra`)")
ASSUMPTIONS = ["clock domains with synchronous reset or none (async_reset domains re-run the process on rst: finding F7)",
               "port inputs change only between edges (testbench sets inputs, then the clocks, then samples)",
               "at one simultaneous edge no two write ports of different domains write a common bit of one row "
               "(S1: the surviving value depends on the process-set iteration order; hardware: undefined)",
               "RTLIL comparison only where RTLIL is defined: no two write ports on a common bit of a row (PRIORITY_MASK 0), "
               "clocked read data compared after its first capture (INIT_VALUE x), transparent reads inside the memory"]
TRUSTED_EXTRA = ["strict RTLIL reader harness/rtlil_read.py (text -> Gallina doc; fail-closed) for the rtl family"]
SHARD = 720

DEPTHS = [0, 1, 2, 3, 4, 5, 8]
SHAPES = [["u", 1], ["u", 2], ["u", 4], ["u", 6], ["u", 8], ["s", 1], ["s", 3], ["s", 8], ["u", 0],
          ["struct"], ["array", 2, 4], ["array", 4, 2], ["enum"], ["dstruct"]]
EXC = {"ValueError": 1, "TypeError": 2}


# ------------------------------------------------------------------------------------------ shapes / config helpers
def _width(sh):
    """raw width (used only to GENERATE in-range stimulus and to pack observations; the model computes its own)"""
    return {"u": lambda: sh[1], "s": lambda: sh[1], "struct": lambda: 8, "array": lambda: sh[1] * sh[2],
            "enum": lambda: 2, "dstruct": lambda: 8}[sh[0]]()


def _dflt(sh):
    """raw value of shape.const(None): 0 for layouts and enumerations (EnumType.const(None) is the member 0); the
    data.Struct below declares field defaults a = 5, b = -2, i.e. 5 | (-2 & 31) << 3"""
    return 245 if sh[0] == "dstruct" else 0


def _rowshape(sh):
    """Gallina rowshape: the arguments the user passes, not the derived widths"""
    if sh[0] in ("u", "s"):
        return f"(RSPlain (Sh {sh[1]} {blit(sh[0] == 's')}))"
    if sh[0] in ("struct", "dstruct"):
        return "(RSStruct [Sh 3 false; Sh 5 true])"
    if sh[0] == "enum":
        return "(RSPlain (Sh 2 false))"
    return f"(RSArray (Sh {sh[1]} false) {sh[2]})"


def _signed(sh):
    return sh[0] == "s"


def _enw(sh, gran):
    """len(port.en) as WritePort.Signature computes it (gran counts elements for an ArrayLayout)"""
    if gran is None:
        return 1
    if sh[0] == "array":
        return 0 if sh[2] == 0 else sh[2] // gran
    w = _width(sh)
    return 0 if w == 0 else w // gran


def _abits(depth):
    return 0 if depth == 0 else (depth - 1).bit_length()


def _grans(sh):
    if sh[0] in ("s", "struct", "enum", "dstruct"):
        return [None]
    n = sh[2] if sh[0] == "array" else sh[1]
    return [None] + [g for g in range(1, n + 1) if n % g == 0]


def _en_mask(c, j, en):
    """replicated enable word of write port j (as the simulator computes it)"""
    w = _width(c["shape"])
    enw = _enw(c["shape"], c["wports"][j]["gran"])
    if w == 0 or enw == 0:
        return 0
    g = w // enw
    m = 0
    for k in range(enw):
        if (en >> k) & 1:
            m |= ((1 << g) - 1) << (g * k)
    return m


def _pack_ev(c, doms, rsts, wins, rins):
    x = 0
    for j, (a, d, e) in enumerate(wins):
        assert 0 <= a < 16 and 0 <= e < 256 and 0 <= d < 256
        x |= (a | e << 4 | d << 12) << (20 * j)
    y = doms[0] << 1 | doms[1] << 2 | rsts[0] << 3 | rsts[1] << 4
    for j, (a, e) in enumerate(rins):
        assert 0 <= a < 16 and e in (0, 1)
        y |= (a | e << 4) << (5 + 5 * j)
    return [x, y]


def _unpack_ev(c, x, y):
    if y & 1:
        return {"tb": (y >> 1, x)}
    wins = []
    for j in range(len(c["wports"])):
        f = (x >> (20 * j)) & 0xFFFFF
        wins.append((f & 15, f >> 12, (f >> 4) & 255))
    rins = []
    for j in range(len(c["rports"])):
        f = (y >> (5 + 5 * j)) & 31
        rins.append((f & 15, f >> 4))
    return {"doms": ((y >> 1) & 1, (y >> 2) & 1), "rsts": ((y >> 3) & 1, (y >> 4) & 1), "wins": wins, "rins": rins}


def _events(c):
    return [_unpack_ev(c, c["evs"][i], c["evs"][i + 1]) for i in range(0, len(c["evs"]), 2)]


def _cross_collision(c, ev):
    """two write ports of different domains, both clocked at this event, same existing row, common bit"""
    ab = _abits(c["depth"])
    act = []
    for j, p in enumerate(c["wports"]):
        if ev["doms"][p["dom"]]:
            a, d, e = ev["wins"][j]
            a &= (1 << ab) - 1
            if a < c["depth"]:
                act.append((p["dom"], a, _en_mask(c, j, e & ((1 << max(_enw(c["shape"], p["gran"]), 0)) - 1))))
    return any(x[0] != y[0] and x[1] == y[1] and x[2] & y[2] for x in act for y in act)


# ------------------------------------------------------------------------------------------ generation
def _rand_cfg(rng):
    sh = rng.choice(SHAPES)
    depth = rng.choice(DEPTHS)
    nw, nr = rng.choice([0, 1, 1, 2, 2, 3]), rng.choice([0, 1, 1, 2, 2, 3])
    two = rng.random() < 0.6
    wports = [{"dom": rng.randrange(2) if two else 0, "gran": rng.choice(_grans(sh))} for _ in range(nw)]
    rports = []
    for _ in range(nr):
        dom = rng.choice([-1, 0, 0, 1 if two else 0])
        tr = []
        if dom >= 0:
            same = [j for j, p in enumerate(wports) if p["dom"] == dom]
            tr = [j for j in same if rng.random() < 0.6]
            rng.shuffle(tr)
            if tr and rng.random() < 0.1:
                tr.append(rng.choice(tr))
        rports.append({"dom": dom, "transp": tr})
    w = _width(sh)
    lo, hi = (-(1 << max(w - 1, 0)), 1 << max(w - 1, 0)) if _signed(sh) else (0, 1 << w)
    ninit = rng.randrange(0, depth + 1)
    if sh[0] in ("struct", "array", "enum", "dstruct") or rng.random() < 0.8:
        init = [rng.randrange(lo, hi) for _ in range(ninit)]
    else:
        init = [rng.randrange(-300, 300) for _ in range(ninit)]           # out of range: normalised by Init
    return {"k": "run", "shape": sh, "depth": depth, "init": init, "wports": wports, "rports": rports,
            "rl": [int(rng.random() < 0.4), int(rng.random() < 0.4)],
            "neg": [int(rng.random() < 0.15), int(rng.random() < 0.3)]}


def _rand_events(rng, c, n, rtl=False):
    """rtl: histories for the RTLIL comparison — no testbench row writes (not expressible), and no two write ports
    writing a common bit of one row at all (PRIORITY_MASK 0: undefined in RTLIL), the later port is idled instead.
    c["drv"]: the address of write port 0 is not a testbench input but a register counting the edges of its domain;
    the stream carries the value the register has before each edge."""
    depth, w = c["depth"], _width(c["shape"])
    cnt = 0
    ab = _abits(depth)
    hot = [rng.randrange(0, max(depth, 1)) for _ in range(2)]
    two = any(p["dom"] == 1 for p in c["wports"] + c["rports"])
    evs = []
    wins = [(0, 0, 0)] * len(c["wports"])
    rins = [(0, 1)] * len(c["rports"])
    mode = rng.choice(["hot", "hot", "rand", "sweep"])
    t = 0
    while len(evs) < 2 * n:
        t += 1
        if depth > 0 and not rtl and rng.random() < 0.1:
            i = rng.randrange(depth)
            v = rng.choice([rng.randrange(0, 1 << w), rng.randrange(-(1 << w), 1 << (w + 2)), -1, 0])
            evs += [v, 1 | i << 1]
            continue

        def addr():
            r = rng.random()
            if mode == "sweep":
                return t % 16
            if r < 0.6 and mode == "hot":
                return rng.choice(hot)
            if r < 0.9:
                return rng.randrange(0, max(depth, 1))
            return rng.randrange(0, 16)                      # beyond the depth / wider than the address signal
        wins = list(wins)
        for j, p in enumerate(c["wports"]):
            if rng.random() < 0.8:
                enw = _enw(c["shape"], p["gran"])
                full = (1 << enw) - 1
                en = rng.choice([0, full, full, rng.randrange(0, 256), rng.randrange(0, full + 1)])
                wins[j] = (addr(), rng.randrange(0, 256), en)
        rins = list(rins)
        for j, p in enumerate(c["rports"]):
            if rng.random() < 0.8:
                rins[j] = (addr(), int(rng.random() < 0.75))
        if c.get("drv"):
            wins[0] = (cnt, wins[0][1], wins[0][2])
        if rtl:
            # a transparent read beyond the depth is undefined in RTLIL (and unspecified by the property); the simulator
            # forwards the write data of a same-address port there, RtlilSem reads 0: keep such reads inside the memory
            for j, p in enumerate(c["rports"]):
                if p["transp"] and (rins[j][0] & ((1 << ab) - 1)) >= depth:
                    rins[j] = ((rins[j][0] & ((1 << ab) - 1)) % depth, rins[j][1])
            for j in range(len(wins)):
                for i in range(j):
                    ai, aj = wins[i][0] & ((1 << ab) - 1), wins[j][0] & ((1 << ab) - 1)
                    if ai == aj and ai < depth and _en_mask(c, i, wins[i][2]) & _en_mask(c, j, wins[j][2]):
                        wins[j] = (wins[j][0], wins[j][1], 0)
        r = rng.random()
        if two:
            doms = (1, 0) if r < 0.3 else (0, 1) if r < 0.55 else (1, 1) if r < 0.9 else (0, 0)
        else:
            doms = (1, 0) if r < 0.9 else (0, 0)
        rsts = (int(not c["rl"][0] and rng.random() < 0.08), int(not c["rl"][1] and rng.random() < 0.08))
        ev = {"doms": doms, "rsts": rsts, "wins": wins, "rins": rins}
        if doms == (1, 1) and _cross_collision(c, ev):
            c["sep"] = c.get("sep", 0) + 1
            doms = (1, 0)
        evs += _pack_ev(c, doms, rsts, wins, rins)
        if c.get("drv") and doms[c["wports"][0]["dom"]]:
            cnt = 0 if rsts[c["wports"][0]["dom"]] else (cnt + 1) & ((1 << ab) - 1)
    return evs


def _stale_cases(rng, n):
    """histories on which a comb read port must follow a write although nothing else changes in that delta cycle:
    2-3 write ports (each queues a write every edge), exactly one of them changing its row, the others idle (en = 0)
    or rewriting the stored value on OTHER rows, comb read ports on the changed row, sync read ports disabled."""
    out = []
    for _ in range(n):
        w = rng.choice([4, 8])
        depth = rng.choice([3, 4, 5, 8])
        nw = rng.choice([2, 2, 3])
        two = rng.random() < 0.3
        c = {"k": "run", "g": "stale", "shape": ["u", w], "depth": depth, "init": [rng.randrange(1 << w) for _ in range(depth)],
             "wports": [{"dom": rng.randrange(2) if two else 0, "gran": None} for _ in range(nw)],
             "rports": [{"dom": -1, "transp": []} for _ in range(rng.choice([1, 2]))] +
                       ([{"dom": 0, "transp": []}] if rng.random() < 0.3 else []),
             "rl": [1, 1], "neg": [0, 0]}
        rows = list(c["init"])
        evs = []
        for _ in range(rng.randrange(8, 16)):
            k = rng.randrange(nw)
            perm = list(range(depth))
            rng.shuffle(perm)
            wins = []
            for j in range(nw):
                r = perm[j % depth]
                if j == k:
                    wins.append((r, (rows[r] + 1 + rng.randrange((1 << w) - 1)) % (1 << w), 1))
                elif rng.random() < 0.5:
                    wins.append((r, rng.randrange(1 << w), 0))
                else:
                    wins.append((r, rows[r], 1))
            rins = [(perm[k % depth] if rng.random() < 0.8 else rng.randrange(depth), 0 if p["dom"] >= 0 else 1)
                    for p in c["rports"]]
            doms = (1, 1) if two else (1, 0)
            ev = {"doms": doms, "rsts": (0, 0), "wins": wins, "rins": rins}
            assert not _cross_collision(c, ev)
            evs += _pack_ev(c, doms, (0, 0), wins, rins)
            rows[wins[k][0]] = wins[k][1]
        c["evs"] = evs
        out.append(c)
    return out


def _exhaustive(thorough):
    out = []
    kinds = [("comb", {"dom": -1, "transp": []}), ("sync", {"dom": 0, "transp": []}), ("transp", {"dom": 0, "transp": [0]})]
    base = {"k": "run", "rl": [0, 1], "neg": [0, 0]}
    # two edges, all input words: depth 2, width 1
    letters = list(itertools.product(range(2), range(2), range(2), range(2), range(2)))
    for name, rp in kinds:
        c0 = dict(base, shape=["u", 1], depth=2, init=[1, 0], wports=[{"dom": 0, "gran": None}], rports=[rp], g="exh2:" + name)
        for l1 in letters:
            for l2 in letters:
                evs = []
                for (wa, wd, we, ra, re_) in (l1, l2):
                    evs += _pack_ev(c0, (1, 0), (0, 0), [(wa, wd, we)], [(ra, re_)])
                out.append(dict(c0, evs=evs))
    if thorough:                      # two edges, all input words: depth 2, width 2, two enable bits, transparent port
        c0 = dict(base, shape=["u", 2], depth=2, init=[1, 2], wports=[{"dom": 0, "gran": 1}], rports=[kinds[2][1]], g="exh2w:transp")
        letters2 = list(itertools.product(range(2), range(4), range(4), range(2), range(2)))
        for l1 in letters2:
            for l2 in letters2:
                evs = []
                for (wa, wd, we, ra, re_) in (l1, l2):
                    evs += _pack_ev(c0, (1, 0), (0, 0), [(wa, wd, we)], [(ra, re_)])
                out.append(dict(c0, evs=evs))
    # one edge from a non-zero memory: depths x widths x granularity x kinds (+ a second, idle, edge to see the hold)
    for name, rp in kinds:
        for depth in (0, 1, 2, 3):
            for w in ((1, 2) if thorough or name == "transp" else (1,)):
                for gran in ((None,) if w == 1 else (None, 1)):
                    c0 = dict(base, shape=["u", w], depth=depth, init=[(i + 1) % (1 << w) for i in range(depth)],
                              wports=[{"dom": 0, "gran": gran}], rports=[rp], g="exh1:" + name)
                    enw = _enw(c0["shape"], gran)
                    for wa in range(min(max(depth, 1) + 1, 4)):
                        for ra in range(min(max(depth, 1) + 1, 4)):
                            for wd in range(1 << w):
                                for we in range(1 << enw):
                                    for re_ in range(2):
                                        evs = _pack_ev(c0, (1, 0), (0, 0), [(wa, wd, we)], [(ra, re_)])
                                        evs += _pack_ev(c0, (1, 0), (0, 0), [(wa, wd, 0)], [(ra, 0)])
                                        out.append(dict(c0, evs=evs))
    return out


def _ctor_cases():
    out = []
    for sh in (["u", 0], ["u", 1], ["u", 4], ["u", 6], ["s", 4]):
        for gran in (None, -1, 0, 1, 2, 3, 4, 6, 7):
            for depth, ninit in ((0, 0), (0, 1), (1, 1), (3, 2), (3, 4), (5, 5), (-1, 0)):
                out.append({"k": "ctor", "shape": sh, "gran": gran, "depth": depth, "init": [1] * ninit})
    return out


def gen_cases(tier, seed):
    rng = random.Random(seed)
    thorough = tier == "thorough"
    cases = _exhaustive(thorough) + _ctor_cases()
    n_rand = 12000 if thorough else 1500
    rnd = []
    for i in range(n_rand):
        c = _rand_cfg(rng)
        if i % 5 == 1 and c["wports"] and _abits(c["depth"]) > 0:
            c["drv"] = 1                       # write port 0 addressed by a register of its own domain
        c["evs"] = _rand_events(rng, c, rng.randrange(10, 60 if thorough else 40))
        c["g"] = "rand"
        if i % 4 == 3:
            c["spec"] = 1
        if i % 2 == 0:
            c["rr"] = 1                        # every row read through mem.data[i] after EVERY event
        if i % 6 == 5 and c["wports"] and c["depth"] > 0:
            c["reuse"] = ("reset", "second")[(i // 6) % 2]      # run, then start again from the initial state
            c["g"] = "rand:" + c["reuse"]
        rnd.append(c)
    rnd += _stale_cases(rng, 1200 if thorough else 150)
    for i in range(1500 if thorough else 160):  # the emitted RTLIL run under Model/RtlilSem.v
        while True:
            c = _rand_cfg(rng)
            if _width(c["shape"]) > 0 and c["depth"] > 0 and c["rports"] and c["wports"]:  # (the reader rejects the 0-bit masks of a ROM)
                break
        c["k"], c["g"] = "rtl", "rtl"
        used = {p["dom"] for p in c["wports"]} | {p["dom"] for p in c["rports"] if p["dom"] >= 0}
        pre = _pack_ev(c, (int(0 in used), int(1 in used)), (0, 0), [(0, 0, 0)] * len(c["wports"]),
                       [(0, 1)] * len(c["rports"]))
        c["evs"] = pre + _rand_events(rng, c, rng.randrange(8, 30 if thorough else 20), rtl=True)
        rnd.append(c)
    # interleave the long random cases with the small ones so that shards are balanced
    out = []
    step = max(1, len(cases) // max(1, len(rnd)))
    ri = 0
    for i, c in enumerate(cases):
        if i % step == 0 and ri < len(rnd):
            out.append(rnd[ri])
            ri += 1
        out.append(c)
    out += rnd[ri:]
    return out


# ------------------------------------------------------------------------------------------ implementation
def _mk_shape(sh):
    from amaranth.hdl import signed, unsigned
    from amaranth.lib import data
    if sh[0] == "u":
        return unsigned(sh[1])
    if sh[0] == "s":
        return signed(sh[1])
    if sh[0] == "struct":
        return data.StructLayout({"a": unsigned(3), "b": signed(5)})
    if sh[0] == "enum":
        return _enum_shape()
    if sh[0] == "dstruct":
        return _dstruct_shape()
    return data.ArrayLayout(unsigned(sh[1]), sh[2])


_ENUM = []
_DSTRUCT = []


def _dstruct_shape():
    """a data.Struct with non-zero field defaults: rows not initialised and the read data signals start at 245"""
    if not _DSTRUCT:
        from amaranth.hdl import unsigned, signed
        from amaranth.lib import data

        class RowRec(data.Struct):
            a: unsigned(3) = 5
            b: signed(5) = -2
        _DSTRUCT.append(RowRec)
    return _DSTRUCT[0]


def _enum_shape():
    """a 2-bit enumeration (all four values are members; the first one is not 0, the default still is)"""
    if not _ENUM:
        from amaranth.hdl import unsigned
        from amaranth.lib import enum

        class RowKind(enum.Enum, shape=unsigned(2)):
            A = 2
            B = 0
            C = 1
            D = 3
        _ENUM.append(RowKind)
    return _ENUM[0]


def _build(c):
    from amaranth.hdl import Module, ClockDomain, ShapeCastable
    from amaranth.lib.memory import Memory
    shape = _mk_shape(c["shape"])
    m = Module()
    cds = []
    for i, name in enumerate("ab"):
        cd = ClockDomain(name, reset_less=bool(c["rl"][i]), clk_edge="neg" if c["neg"][i] else "pos")
        m.domains += cd
        cds.append(cd)
    init = c["init"]
    if isinstance(shape, ShapeCastable):
        sh = c["shape"]

        def sx(v, w):
            return v - (1 << w) if v >> (w - 1) else v
        if sh[0] in ("struct", "dstruct") and len(init) % 2:       # field mapping instead of from_bits
            init = [{"a": v & 7, "b": sx((v >> 3) & 31, 5)} for v in init]
        elif sh[0] == "array" and len(init) % 2:                   # element sequence
            init = [[(v >> (sh[1] * k)) & ((1 << sh[1]) - 1) for k in range(sh[2])] for v in init]
        else:
            init = [shape.from_bits(v) for v in init]
    mem = Memory(shape=shape, depth=c["depth"], init=init)
    m.submodules.mem = mem
    wps = [mem.write_port(domain="ab"[p["dom"]], granularity=p["gran"]) for p in c["wports"]]
    rps = [mem.read_port(domain="comb" if p["dom"] < 0 else "ab"[p["dom"]],
                         transparent_for=[wps[j] for j in p["transp"]]) for p in c["rports"]]
    if c.get("drv"):
        from amaranth.hdl import Signal
        cnt = Signal(len(wps[0].addr), name="cnt")
        m.d["ab"[c["wports"][0]["dom"]]] += cnt.eq(cnt + 1)
        m.d.comb += wps[0].addr.eq(cnt)
    return m, cds, mem, wps, rps


def _enc(c, v):
    w = _width(c["shape"])
    v = v + (1 << (w - 1)) if _signed(c["shape"]) else v
    assert 0 <= v < 256
    return v


def _simulate(c):
    from amaranth.hdl import Value, Cat
    from amaranth.sim import Simulator
    m, cds, mem, wps, rps = _build(c)
    trace = []
    rows = []
    idle = [1 if c["neg"][i] else 0 for i in range(2)]
    clks = Cat(cds[0].clk, cds[1].clk)
    rdata = [Value.cast(p.data) for p in rps]
    wdata = [Value.cast(p.data) for p in wps]
    rowvals = [Value.cast(mem.data[i]) for i in range(c["depth"])]

    async def tb(ctx):
        last = {}

        def put(sig, v):
            if last.get(id(sig)) != v:
                last[id(sig)] = v
                ctx.set(sig, v)
        if idle != [0, 0]:
            ctx.set(clks, idle[0] | idle[1] << 1)
        for ev in _events(c):
            if "tb" in ev:
                i, v = ev["tb"]
                ctx.set(Value.cast(mem.data[i]), v)
            else:
                for j, (a, d, e) in enumerate(ev["wins"]):
                    if not (j == 0 and c.get("drv")):
                        put(wps[j].addr, a)
                    put(wdata[j], d)
                    put(wps[j].en, e)
                for j, (a, e) in enumerate(ev["rins"]):
                    put(rps[j].addr, a)
                    if c["rports"][j]["dom"] >= 0:
                        put(rps[j].en, e)
                for i in range(2):
                    if not c["rl"][i]:
                        put(cds[i].rst, ev["rsts"][i])
                if ev["doms"] != (0, 0):
                    lv = [idle[i] ^ ev["doms"][i] for i in range(2)]
                    ctx.set(clks, lv[0] | lv[1] << 1)
            # observed right after the ctx.set that carries the active edge (nothing in between: a comb read port
            # that the engine left un-run would be seen stale here); the clocks return to rest afterwards
            acc = 0
            for j, sig in enumerate(rdata):
                acc |= _enc(c, ctx.get(sig)) << (8 * j)
            trace.append(acc)
            if c.get("rr"):
                trace.extend(_pack_rows([_enc(c, ctx.get(r)) for r in rowvals]))
            if "tb" not in ev and ev["doms"] != (0, 0):
                ctx.set(clks, idle[0] | idle[1] << 1)
        for r in rowvals:
            rows.append(_enc(c, ctx.get(r)))

    raw0 = [int(v) for v in mem.data._init._raw]     # the declared initial contents, before anything runs
    sim = Simulator(m)
    sim.add_testbench(tb)
    sim.run()
    reuse = c.get("reuse")
    if reuse:
        # the same design started from its initial state AGAIN after a simulation that wrote to the memory: through
        # Simulator.reset(), or in a second Simulator on the same objects.  The model answers the history from the
        # DECLARED initial contents, so rows left over from the first run (or a changed Memory.init) show up here.
        del trace[:], rows[:]
        if reuse == "reset":
            sim.reset()
        else:
            sim = Simulator(m)
            sim.add_testbench(tb)
        sim.run()
        if [int(v) for v in mem.data._init._raw] != raw0:
            return [-7] + list(trace) + _pack_rows(rows)      # the declared contents themselves were overwritten
    # leading 1: the generator claims that every event satisfies ev_ok; the model computes that flag itself
    return [1] + list(trace) + _pack_rows(rows)


def _pack_rows(rows):
    out = []
    for i in range(0, len(rows), 4):
        acc = 0
        for j, v in enumerate(rows[i:i + 4]):
            acc |= v << (8 * j)
        out.append(acc)
    return out


# ------------------------------------------------------------------------------------------ emitted RTLIL under RtlilSem
def _build_rtl(c):
    """the design of case c behind uniquely named top-level signals (inputs drive the ports through comb
    assignments, read data is copied to outputs). Returns (m, clocks/resets/inputs as (name, signal, init), outputs)"""
    from amaranth.hdl import Signal, Value
    m, cds, mem, wps, rps = _build(c)
    used = {p["dom"] for p in c["wports"]} | {p["dom"] for p in c["rports"] if p["dom"] >= 0}
    ins, outs = [], []
    for j, wp in enumerate(wps):
        for nm, tgt in (("addr", wp.addr), ("data", Value.cast(wp.data)), ("en", wp.en)):
            if len(tgt):
                sig = Signal(len(tgt), name=f"w{j}_{nm}")
                m.d.comb += tgt.eq(sig)
                ins.append((f"w{j}_{nm}", sig))
    for j, (rp, pc) in enumerate(zip(rps, c["rports"])):
        if len(rp.addr):
            sig = Signal(len(rp.addr), name=f"r{j}_addr")
            m.d.comb += rp.addr.eq(sig)
            ins.append((f"r{j}_addr", sig))
        if pc["dom"] >= 0:
            sig = Signal(1, name=f"r{j}_en")
            m.d.comb += rp.en.eq(sig)
            ins.append((f"r{j}_en", sig))
        o = Signal(len(Value.cast(rp.data)), name=f"r{j}_data")
        m.d.comb += o.eq(Value.cast(rp.data))
        outs.append((f"r{j}_data", o))
    return m, cds, used, ins, outs


def _rtl_steps(c, used):
    """the stimulus as settle steps: per event the data inputs (+ resets), then the active edges, then the clocks back
    at rest. Each step is a list of (name, value)."""
    idle = [1 if c["neg"][i] else 0 for i in range(2)]
    steps = []
    for ev in _events(c):
        a = []
        for j, (ad, d, e) in enumerate(ev["wins"]):
            a += [(f"w{j}_addr", ad), (f"w{j}_data", d), (f"w{j}_en", e)]
        for j, (ad, e) in enumerate(ev["rins"]):
            a += [(f"r{j}_addr", ad), (f"r{j}_en", e)]
        for i in range(2):
            if not c["rl"][i] and i in used:
                a.append((f"{'ab'[i]}_rst", ev["rsts"][i]))
        steps.append(a)
        if any(ev["doms"][i] for i in used):
            steps.append([(f"{'ab'[i]}_clk", idle[i] ^ ev["doms"][i]) for i in sorted(used)])
            steps.append([(f"{'ab'[i]}_clk", idle[i]) for i in sorted(used)])
    return steps


def _simulate_rtl(c):
    """the simulator on the same design and settle steps: [0, read data...] after the start and after every step"""
    from amaranth.hdl import Cat
    from amaranth.sim import Simulator
    m, cds, used, ins, outs = _build_rtl(c)
    sigs = dict(ins)
    for i in used:
        sigs[f"{'ab'[i]}_clk"] = cds[i].clk
        if cds[i].rst is not None:
            sigs[f"{'ab'[i]}_rst"] = cds[i].rst
    out = []

    async def tb(ctx):
        for i in sorted(used):
            if c["neg"][i]:
                ctx.set(cds[i].clk, 1)
        out.extend([0] + [ctx.get(o) for _, o in outs])
        for st in _rtl_steps(c, used):
            if st and st[0][0].endswith("_clk"):          # all clocks of the step in ONE ctx.set
                ctx.set(Cat(sigs[nm] for nm, _ in st), sum(v << k for k, (_, v) in enumerate(st)))
            else:
                for nm, v in st:
                    if nm in sigs:
                        ctx.set(sigs[nm], v)
            out.extend([0] + [ctx.get(o) for _, o in outs])
    sim = Simulator(m)
    sim.add_testbench(tb)
    sim.run()
    return out[RTL_SKIP * (1 + len(outs)):]


# rtl cases start with a preamble event (every sync read port enabled on row 0, every used clock ticks, no write):
# before it the data of a clocked read port is undefined in RTLIL (INIT_VALUE x; RtlilSem picks 0, the simulator has
# the signal's init). The rows of the start and of the preamble's three settle steps are not compared.
RTL_SKIP = 4


def _rtl_term(c):
    import rtlil_read as R
    from amaranth.back import rtlil
    m, cds, used, ins, outs = _build_rtl(c)
    ports = [s for _, s in ins] + [o for _, o in outs]
    widths = {nm: len(s) for nm, s in ins}
    inits = {nm: 0 for nm, _ in ins}
    for i in sorted(used):
        ports.append(cds[i].clk)
        widths[f"{'ab'[i]}_clk"], inits[f"{'ab'[i]}_clk"] = 1, (1 if c["neg"][i] else 0)
        if cds[i].rst is not None:
            ports.append(cds[i].rst)
            widths[f"{'ab'[i]}_rst"], inits[f"{'ab'[i]}_rst"] = 1, 0
    mods = R.parse(rtlil.convert(m, ports=ports))
    top = mods[0]

    def wire(nm, kind):
        wn = "\\" + nm
        if wn not in top.windex or top.wires[top.windex[wn]].kind != kind:
            raise R.RtlilError(f"top module has no {kind} port {nm}")
        return top.windex[wn]
    obs = "[" + "; ".join(f"Some ([], {wire(nm, 'output')}%nat, {len(o)})" for nm, o in outs) + "]"
    init_ins = "[" + "; ".join(f"({wire(nm, 'input')}%nat, {inits[nm]})" for nm in widths) + "]"
    steps = []
    for st in _rtl_steps(c, used):
        steps.append("[" + "; ".join(f"({wire(nm, 'input')}%nat, {v & ((1 << widths[nm]) - 1)})"
                                     for nm, v in st if nm in widths) + "]")
    return f"k_rtl {RTL_SKIP * (1 + len(outs))}\n {R.coq_doc(mods)}\n {obs}\n {init_ins}\n [" + ";\n  ".join(steps) + "]"


def run_impl(c):
    if c["k"] == "rtlil":            # replay of an `extra` payload: number of complaints about the $mem*_v2 cells
        return [len(_check_rtlil(c))]
    if c["k"] == "probe_rst":        # replay of the reset probe: read data after an edge with rst=1, en=0 (6 = held)
        return [_reset_probe()]
    if c["k"] == "ctor":
        from amaranth.lib.memory import Memory
        from amaranth.utils import ceil_log2
        try:
            mem = Memory(shape=_mk_shape(c["shape"]), depth=c["depth"], init=c["init"])
            wp = mem.write_port(granularity=c["gran"])
            return [0, len(wp.en), len(wp.addr)]
        except Exception as e:
            return [EXC.get(type(e).__name__, 99)]
    try:
        return _simulate_rtl(c) if c["k"] == "rtl" else _simulate(c)
    except Exception as e:
        return [-1, sum(map(ord, type(e).__name__))]


# ------------------------------------------------------------------------------------------ model side
def coq_term(c):
    if c["k"] == "ctor":
        sh = c["shape"]
        g = "None" if c["gran"] is None else f"(Some {z(c['gran'])})"
        return f"k_ctor (Sh {_width(sh)} {blit(_signed(sh))}) {z(c['depth'])} {zlist(c['init'])} {g}"
    if c["k"] == "rtl":
        try:
            return _rtl_term(c)
        except Exception as e:          # never dropped: an unreadable document shows up as a mismatch
            return f"[-3; {sum(map(ord, type(e).__name__))}]"
    sh = c["shape"]
    wps = "; ".join("({}, {})".format(p["dom"], "None" if p["gran"] is None else f"Some {p['gran']}") for p in c["wports"])
    rps = "; ".join("RP {} [{}] {}".format("None" if p["dom"] < 0 else f"(Some {p['dom']})",
                                           "; ".join(f"{j}%nat" for j in p["transp"]), _dflt(sh)) for p in c["rports"])
    flags = (1 if c.get("spec") else 0) | (2 if c.get("rr") else 0)
    return (f"k_mem2 {flags} {_rowshape(sh)} {z(c['depth'])} [{wps}] [{rps}] {_dflt(sh)} "
            f"{zlist(c['init'])} {zlist(c['evs'])}")


def classify(c):
    if c["k"] == "ctor":
        return "ctor"
    if c["g"] != "rand":
        return c["g"]
    tag = ("-spec" if c.get("spec") else "") + ("-drv" if c.get("drv") else "") + ("-rr" if c.get("rr") else "")
    return f"rand{tag}:{c['shape'][0]}{_width(c['shape'])}:d{c['depth']}"


def nontrivial(c, obs):
    if c["k"] == "ctor":
        return obs[0] != 0 or c["gran"] is not None
    return len(set(obs)) > 1


def explain(c):
    if c["k"] == "ctor":
        return "answer: [0, len(en), len(addr)] accepted / [1] ValueError / [2] TypeError"
    if c["k"] == "rtl":
        return ("answer: [status 0, read data of every read port (raw bits)] after the start and after every settle step of "
                "props.c11._rtl_steps(case, used domains): inputs, active edges, clocks back at rest; model side = the "
                "emitted RTLIL run under coq/Model/RtlilSem.v")
    return ("evs: two integers x y per event (module docstring); answer: [1 = every event satisfies ev_ok], per event "
            "sum_j enc(read data j) << 8j (read right after the edge; with rr=1 followed by all rows, four per integer), "
            "then the rows at the end (enc v = v + 2^(w-1) for signed rows); props.c11._events(case) decodes the stimulus")


def shrink(c, obs, model):
    if c["k"] != "run" or len(obs) != len(model) or obs[0] != model[0]:
        return c, obs, model
    n = len(c["evs"]) // 2
    per = 1 + ((c["depth"] + 3) // 4 if c.get("rr") else 0)
    i = next((i for i, (a, b) in enumerate(zip(obs, model)) if a != b), None)
    if i is None or (i - 1) // per >= n:
        return c, obs, model
    k = (i - 1) // per
    keep = 1 + per * (k + 1)
    c2 = dict(c, evs=c["evs"][:2 * (k + 1)])
    obs2 = run_impl(c2)
    if obs2[:keep] != obs[:keep]:
        return c, obs, model
    return c2, obs2, model[:keep] + obs2[keep:]      # rows of the truncated run are not known from the model answer


# ------------------------------------------------------------------------------------------ RTLIL cells, collisions, coverage
def _cells(text):
    cells = []
    for mm in re.finditer(r"cell (\$mem\w+_v2) \S+\n(.*?)\n  end", text, flags=re.S):
        par = dict(re.findall(r"parameter \\(\w+) (\S+)", mm.group(2)))
        con = dict(re.findall(r"connect \\(\w+) (.*)", mm.group(2)))
        cells.append((mm.group(1), par, con))
    return cells


def _sig_bits(spec):
    """bit indices (MSB first) of a sigspec made of slices of ONE wire"""
    out = []
    for name, hi, lo in re.findall(r"(\\\S+) \[(\d+)(?::(\d+))?\]", spec):
        hi = int(hi)
        lo = int(lo) if lo else hi
        out += list(range(hi, lo - 1, -1))
    return out


def _check_rtlil(c):
    """list of complaints about the $mem*_v2 cells of the design of case c"""
    from amaranth.back import rtlil
    m, cds, mem, wps, rps = _build(c)
    ports = [cds[0].clk, cds[1].clk] + [cd.rst for cd in cds if cd.rst is not None]
    from amaranth.hdl import Value
    for p in wps:
        ports += [p.addr, Value.cast(p.data), p.en]
    for p, pc in zip(rps, c["rports"]):
        ports += [p.addr, Value.cast(p.data)] + ([p.en] if pc["dom"] >= 0 else [])
    text = rtlil.convert(m, ports=ports)
    w, depth, ab = _width(c["shape"]), c["depth"], _abits(c["depth"])
    nw = len(c["wports"])
    cells = _cells(text)
    bad = []
    mm = re.search(r"memory width (\d+) size (\d+)", text)
    if not mm or (int(mm.group(1)), int(mm.group(2))) != (w, depth):
        bad.append(f"memory declaration {mm and mm.groups()}")
    inits = [x for x in cells if x[0] == "$meminit_v2"]
    wrs = [x for x in cells if x[0] == "$memwr_v2"]
    rds = [x for x in cells if x[0] == "$memrd_v2"]
    if len(inits) != 1 or len(wrs) != nw or len(rds) != len(c["rports"]):
        return bad + [f"cell counts {len(inits)} {len(wrs)} {len(rds)}"]
    _, par, con = inits[0]
    raw = [(v & ((1 << w) - 1)) for v in c["init"]] + [_dflt(c["shape"])] * (depth - len(c["init"]))
    exp = "".join(format(v, f"0{w}b") for v in reversed(raw)) if w else ""
    got = con["DATA"].split("'")[1] if "'" in con["DATA"] else ""
    if (par["ABITS"], par["WIDTH"], par["WORDS"], par["PRIORITY"]) != ("0", str(w), str(depth), "0") or got != exp:
        bad.append(f"meminit {par} {con['DATA']} expected {exp}")
    for j, ((_, par, con), p) in enumerate(zip(wrs, c["wports"])):
        if (par["ABITS"], par["WIDTH"], par["CLK_ENABLE"], par["PORTID"], par["PRIORITY_MASK"]) != (str(ab), str(w), "1", str(j), "0"):
            bad.append(f"memwr {j} {par}")
        if par["CLK_POLARITY"] != ("0" if c["neg"][p["dom"]] else "1") or not con["CLK"].startswith("\\" + "ab"[p["dom"]] + "_clk"):
            bad.append(f"memwr {j} clock {par['CLK_POLARITY']} {con['CLK']}")
        enw = _enw(c["shape"], p["gran"])
        if w and enw:
            g = w // enw
            if _sig_bits(con["EN"]) != [b // g for b in reversed(range(w))]:
                bad.append(f"memwr {j} EN {con['EN']}")
    for j, ((_, par, con), p) in enumerate(zip(rds, c["rports"])):
        tm = sum(1 << i for i in set(p["transp"]))
        exp_tm = f"{nw}'" + format(tm, f"0{nw}b") if nw else "0'0"
        sync = p["dom"] >= 0
        if (par["ABITS"], par["WIDTH"], par["CLK_ENABLE"], par["TRANSPARENCY_MASK"].rstrip()) != (str(ab), str(w), "1" if sync else "0", exp_tm):
            bad.append(f"memrd {j} {par} expected mask {exp_tm}")
        if par["COLLISION_X_MASK"].strip("0'") not in ("", str(nw)) and set(par["COLLISION_X_MASK"].split("'")[1]) - {"0"}:
            bad.append(f"memrd {j} collision mask {par['COLLISION_X_MASK']}")
        if sync and (par["CLK_POLARITY"] != ("0" if c["neg"][p["dom"]] else "1") or
                     not con["CLK"].startswith("\\" + "ab"[p["dom"]] + "_clk")):
            bad.append(f"memrd {j} clock {par['CLK_POLARITY']} {con['CLK']}")
        if con.get("SRST") != "1'0" or con.get("ARST") != "1'0" or (not sync and con.get("EN") != "1'1"):
            bad.append(f"memrd {j} reset/enable connections {con}")
    return bad


def _xcoll(rng):
    """cross-domain write collision at a simultaneous edge: the row must hold one of the two values,
    everything else must be unaffected. Returns (ok, winner)"""
    from amaranth.hdl import Value
    w = rng.choice([1, 4, 8])
    depth = rng.choice([1, 2, 5])
    row = rng.randrange(depth)
    c = {"shape": ["u", w], "depth": depth, "init": list(range(1, depth + 1)), "rl": [1, 1], "neg": [0, 0],
         "wports": [{"dom": rng.randrange(2), "gran": None}], "rports": []}
    c["wports"].append({"dom": 1 - c["wports"][0]["dom"], "gran": None})
    da = rng.randrange(1 << w)
    db = (da + 1 + rng.randrange(max((1 << w) - 1, 1))) % (1 << w) if w > 1 else 1 - da
    c["evs"] = _pack_ev(c, (1, 1), (0, 0), [(row, da, 1), (row, db, 1)], [])
    c["k"] = "run"
    obs = _simulate(c)
    rows = []
    for v in obs[2:]:                              # [flag, the event's read data (no read ports: 0), rows...]
        rows += [(v >> (8 * j)) & 255 for j in range(4)]
    rows = rows[:depth]
    others = all(rows[i] == (i + 1) % (1 << w) for i in range(depth) if i != row)
    return (rows[row] in (da, db)) and others, (0 if rows[row] == da else 1)


def _reset_probe():
    from amaranth.hdl import Module, ClockDomain
    from amaranth.lib.memory import Memory
    from amaranth.sim import Simulator
    m = Module()
    m.domains.a = cd = ClockDomain("a")
    m.submodules.mem = mem = Memory(shape=8, depth=4, init=[5, 6, 7, 8])
    rp = mem.read_port(domain="a")
    out = []

    async def tb(ctx):
        ctx.set(rp.addr, 1)
        ctx.set(cd.clk, 1)
        ctx.set(cd.clk, 0)
        ctx.set(rp.en, 0)
        ctx.set(cd.rst, 1)
        ctx.set(cd.clk, 1)
        ctx.set(cd.clk, 0)
        out.append(ctx.get(rp.data))
    sim = Simulator(m)
    sim.add_testbench(tb)
    sim.run()
    return out[0]


def extra(tier, seed, findings):
    rng = random.Random(seed + 11)
    viol = []
    st = collections.Counter()
    cases = [c for c in gen_cases(tier, seed) if c["k"] == "run"]
    # static coverage of the stimulus
    for c in cases:
        ab = _abits(c["depth"])
        st["separated_cross_domain_collisions"] += c.get("sep", 0)
        for ev in _events(c):
            if "tb" in ev:
                st["tb_row_writes"] += 1
                continue
            st["events"] += 1
            st["simultaneous_edges"] += ev["doms"] == (1, 1)
            st["input_only_events"] += ev["doms"] == (0, 0)
            st["reset_asserted_edges"] += any(ev["rsts"][i] and ev["doms"][i] for i in range(2))
            act = []
            for j, p in enumerate(c["wports"]):
                if ev["doms"][p["dom"]]:
                    a, d, e = ev["wins"][j]
                    msk = _en_mask(c, j, e & ((1 << _enw(c["shape"], p["gran"])) - 1))
                    a &= (1 << ab) - 1
                    if msk:
                        st["port_writes"] += 1
                        st["port_writes_beyond_depth"] += a >= c["depth"]
                        st["partial_granule_writes"] += msk != (1 << _width(c["shape"])) - 1
                        act.append((j, p["dom"], a, msk))
            st["same_domain_write_collisions"] += sum(1 for x in act for y in act if x[0] < y[0] and x[1] == y[1]
                                                      and x[2] == y[2] and x[3] & y[3] and x[2] < c["depth"])
            for j, p in enumerate(c["rports"]):
                if p["dom"] >= 0 and ev["doms"][p["dom"]]:
                    a, e = ev["rins"][j]
                    a &= (1 << ab) - 1
                    st["sync_reads"] += e
                    st["sync_read_holds"] += 1 - e
                    st["sync_reads_beyond_depth"] += bool(e and a >= c["depth"])
                    hit = [x for x in act if x[0] in p["transp"] and x[2] == a]
                    st["transparent_read_hits"] += bool(e and hit)
                    st["nontransparent_read_write_same_row"] += bool(e and any(x[2] == a and x[0] not in p["transp"] for x in act))
    allc = gen_cases(tier, seed)
    st["stale_family_cases"] = sum(1 for c in allc if c.get("g") == "stale")
    st["rtl_family_cases"] = sum(1 for c in allc if c.get("g") == "rtl")
    st["row_reads_after_every_event_cases"] = sum(1 for c in cases if c.get("rr"))
    st["design_driven_address_cases"] = sum(1 for c in cases if c.get("drv"))
    st["port_set_shapes"] = len({(len(c["wports"]), len(c["rports"])) for c in cases})
    st["transparency_sets"] = len({(len(c["wports"]), tuple(p["transp"])) for c in cases for p in c["rports"]})
    # RTLIL cell parameters
    n_bad = 0
    rt = [c for c in cases if c["g"] == "rand"]
    rng.shuffle(rt)
    n_rt = 600 if tier == "thorough" else 120
    for c in rt[:n_rt]:
        try:
            bad = _check_rtlil(c)
        except Exception as e:
            bad = [f"{type(e).__name__}: {e}"]
        st["rtlil_designs_checked"] += 1
        st["rtlil_designs_with_repeated_transparent_port"] += any(len(set(p["transp"])) != len(p["transp"])
                                                                  for p in c["rports"])
        if bad and n_bad < 3:
            n_bad += 1
            viol.append({"property": ID, "kind": "rtlil-cells", "case": dict(c, k="rtlil"), "complaints": bad[:5],
                         "expected_by_model": [0], "observed": [len(bad)]})
    # read data register of a disabled sync read port at an edge with the domain's reset asserted: it must hold
    # (as the $memrd_v2 cell, whose SRST is tied to 0, does)
    held = _reset_probe()
    st["reset_probe_read_data_after_rst_and_not_en"] = held
    if held != 6:
        viol.append({"property": ID, "kind": "read-port-reset", "case": {"k": "probe_rst"},
                    "complaints": [f"read data {held} after an edge with rst=1, en=0; 6 was held before (RTLIL: SRST=0, holds)"],
                    "expected_by_model": [6], "observed": [held]})
    # cross-domain collisions (S1): one of the two values, nothing else disturbed
    winners = collections.Counter()
    for _ in range(200 if tier == "thorough" else 40):
        ok, wnr = _xcoll(rng)
        winners[wnr] += 1
        if not ok:
            viol.append({"property": ID, "kind": "cross-domain-collision", "case": {}, "complaints":
                         ["row after a cross-domain collision is neither of the two written values"],
                         "expected_by_model": [], "observed": []})
            break
    st["cross_domain_collisions_run"] = sum(winners.values())
    st["cross_domain_collision_first_port_survived"] = winners[0]
    return viol, {"stimulus_coverage": dict(st)}

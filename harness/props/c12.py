"""C12 — synchronous FIFOs refine a bounded queue for every strobe sequence.

Correspondence: the real SyncFIFO / SyncFIFOBuffered (width, depth) run in the real simulator with a hand-driven
clock; every cycle all outputs are recorded and compared with the trace of Model/Fifo.v computed in Coq.
Independently of Coq, the same trace is checked against a collections.deque monitor (implementation-level oracle);
its verdict follows the trace in the observation (0 = no complaint) and the model answers 0 there.
For cases marked "st" the internal registers and memory rows of the elaborated design (produce, consume, level /
inner_level, r_rdy and read-port data registers, storage rows) are read after the last cycle and compared with the
model's state.  The "bfs" cases are the edges of a breadth-first exploration of the IMPLEMENTATION's state graph
(state = those internals) run to closure for small parameters: one case per (reachable state, input letter).
"""
import collections, itertools, random
from common import z, zlist, blit

ID = "C12"
LEVEL = "proof"
PROPS_FILE = "C12.v"
RUN_MODULE = "RunC12"
TRANSLATOR_UNITS = ["fifo"]
RULE = ("exhaustive: every strobe/data word (w_en, r_en, w_data; w_data fixed to 0 when w_en=0) for depth in {0,1,2,3}, "
        "both FIFOs: width 0 words of length 5 (6 for depth 3; thorough 7), width 1 words of length 4 (thorough 6), depth 0 "
        "length 3 (a word covers all its prefixes because every cycle is compared); 4 seeded random walks of 300 (thorough "
        "3000) cycles for each depth in "
        "{0,1,2,3,4,5,7,8,9,16,17} x width in {0,1,2,8} x both FIFOs starting with a complete fill, a stream phase on the full queue "
        "and a complete drain, then random phases fill/drain/mixed/stream/idle whose lengths scale with the depth, data random, counting, or wider than the port; constructor arguments (negative "
        "width/depth) compared on acceptance. Per cycle compared: w_rdy, r_rdy, r_data (masked while r_rdy=0), level, "
        "w_level, r_level (packed, several cycles per integer), plus the deque monitor verdict. non-trivial = some entry became readable (r_rdy seen); "
        "distinct by case hash; full/empty/wrap-around visit counts are in the evidence (walk_visits). "
        "Audit follow-up: (a) bfs = breadth-first exploration of the implementation's own state graph to closure (internal "
        "registers + memory rows read from the elaborated design), letters = all strobe/data letters + 2 reset letters, for "
        "depth 1..3 x width 0..1 x both FIFOs (thorough also (4,1), (5,0), (3,2)); every edge is a case whose trace AND final "
        "internal state are compared with the model; (b) the last walk of every configuration asserts the domain reset in "
        "~2% of the cycles and every walk compares the final internal state; (c) big = wide/deep configurations "
        "(width up to 64, depth up to 100, unpacked encoding); (d) non-integer constructor arguments")
MODELLED = ("SyncFIFO.elaborate, SyncFIFOBuffered.elaborate and _incr (amaranth/lib/fifo.py) are modelled by hand in "
            "coq/Model/Fifo.v as one-cycle step functions with explicit register widths; lib.memory.Memory with one write "
            "port and one comb / one non-transparent sync read port is modelled as a list of rows with the simulator's "
            "out-of-range behaviour; the elaboration to a netlist, the simulator's scheduling (delta cycles, comb settle) "
            "and FIFOInterface signal plumbing are validated only, by the per-cycle differential run")
ASSUMPTIONS = ["single clock domain with a synchronous reset, inputs (incl. rst) change only between active edges "
               "(the testbench sets strobes, samples outputs, then pulses the clock)"]
SHARD = 500

DEPTHS = [0, 1, 2, 3, 4, 5, 7, 8, 9, 16, 17]
WIDTHS = [0, 1, 2, 8]
KINDS = ["sync", "buf"]


# ------------------------------------------------------------------------------------------ generation
def _pack(we, wd, re):
    return int(we) + 2 * int(re) + 4 * int(wd)


def _unpack(x):
    return x & 1, x >> 2, (x >> 1) & 1


def _walk(rng, w, d, n):
    """phase-structured strobe sequence: fill / drain / mixed / stream / idle, phase lengths scale with depth"""
    xs = []
    mode = rng.choice(("rand", "rand", "count", "wide"))
    cnt = rng.randrange(1, 256)
    phases = ["fill", "drain", "mixed", "stream", "fill", "drain", "idle", "mixed"]
    rng.shuffle(phases)
    # every walk starts by filling completely, streaming while full, and draining completely, so that
    # full, empty and pointer wrap-around are visited whatever the random phases do afterwards
    forced = [("fill!", d + 2), ("stream", d + 1), ("drain!", d + 3)]
    pi = 0
    while len(xs) < n:
        if forced:
            ph, ln = forced.pop(0)
        else:
            ph = phases[pi % len(phases)]
            pi += 1
            ln = rng.randrange(2, 2 * d + 8) if ph != "idle" else rng.randrange(1, 4)
        pw, pr = {"fill": (0.9, 0.1), "drain": (0.1, 0.9), "mixed": (0.5, 0.5), "fill!": (1.0, 0.0),
                  "drain!": (0.0, 1.0), "stream": (1.0, 1.0), "idle": (0.0, 0.0)}[ph]
        if ph == "mixed":
            pw, pr = rng.choice(((0.5, 0.5), (0.7, 0.6), (0.3, 0.4)))
        for _ in range(ln):
            we = rng.random() < pw
            re = rng.random() < pr
            if mode == "count":
                wd = cnt & ((1 << w) - 1)
                if we:
                    cnt += 1
            elif mode == "wide":
                wd = rng.randrange(0, 1 << (w + 3))     # wider than the port: truncated on assignment
            else:
                wd = rng.randrange(0, 1 << w)
            xs.append(_pack(we, wd, re))
    return xs[:n]


def _words(w, L):
    letters = [_pack(0, 0, 0), _pack(0, 0, 1)]
    for wd in range(1 << w):
        letters += [_pack(1, wd, 0), _pack(1, wd, 1)]
    return itertools.product(letters, repeat=L)


BIG = [(16, 32), (32, 33), (64, 5), (13, 64), (1, 100), (24, 31)]      # (width, depth): beyond the packed encoding
_CACHE = {}


def gen_cases(tier, seed):
    key = (tier, seed)
    if key not in _CACHE:
        _CACHE[key] = _gen_cases(tier, seed)
    return [dict(c) for c in _CACHE[key][0]]


def _gen_cases(tier, seed):
    rng = random.Random(seed)
    thorough = tier == "thorough"
    small = []
    for k in KINDS:
        for d in (0, 1, 2, 3):
            for w in (0, 1):
                if thorough:
                    L = 7 if w == 0 else 6
                else:
                    L = (6 if d == 3 else 5) if w == 0 else 4
                if d == 0:
                    L = 3
                for word in _words(w, L):
                    small.append({"k": k, "g": "exh", "w": w, "d": d, "xs": list(word)})
    for k in (0, 1):
        for w in (-2, -1, 0, 1, 3):
            for d in (-3, -1, 0, 1, 2):
                small.append({"k": "ctor", "g": "ctor", "kind": k, "w": w, "d": d})
        for bad in ("str", "float", "none", "list"):
            small.append({"k": "ctor", "g": "ctor", "kind": k, "w": bad, "d": 2})
            small.append({"k": "ctor", "g": "ctor", "kind": k, "w": 3, "d": bad})
    # breadth-first exploration of the implementation's state graph (internal registers observed)
    bfs_cfg = [(k, w, d) for k in KINDS for d in (1, 2, 3) for w in (0, 1)]
    if thorough:
        bfs_cfg += [(k, w, d) for k in KINDS for (w, d) in ((1, 4), (0, 5), (2, 3))]
    bfs_stats = {}
    for (k, w, d), (words, stats) in zip(bfs_cfg, _bfs_all(bfs_cfg)):
        bfs_stats[f"{k}:w{w}:d{d}"] = stats
        for xs, rs in words:
            c = {"k": k, "g": "bfs", "w": w, "d": d, "xs": xs, "st": 1}
            if rs:
                c["rs"] = rs
            small.append(c)
    walks = []
    n = 3000 if thorough else 300
    reps = 4
    for k in KINDS:
        for d in DEPTHS:
            for w in WIDTHS:
                for rep in range(reps):
                    c = {"k": k, "g": "walk", "w": w, "d": d, "xs": _walk(rng, w, d, n), "st": 1}
                    if rep == reps - 1:                 # the domain's reset in ~2 % of the cycles after the forced prefix
                        rs = [t for t in range(3 * d + 6, n) if rng.random() < 0.02]
                        if rs:
                            c["rs"] = rs
                    walks.append(c)
        for (w, d) in BIG:
            nb = max(300, 3 * d + 40)
            c = {"k": k, "g": "big", "w": w, "d": d, "xs": _walk(rng, w, d, nb), "st": 1, "raw": 1}
            c["rs"] = [nb - 25]
            walks.append(c)
    # spread the long cases evenly over the shards
    cases = []
    step = max(1, len(small) // max(1, len(walks)))
    wi = 0
    for i, c in enumerate(small):
        if i % step == 0 and wi < len(walks):
            cases.append(walks[wi])
            wi += 1
        cases.append(c)
    cases += walks[wi:]
    return cases, bfs_stats


# ------------------------------------------------------------------------------------------ state-graph exploration
BFS_CAP = 6000          # states; a graph that does not close below the cap is reported (evidence key bfs, closed=false)


def _bfs_letters(w):
    """(x, rst): every strobe/data letter without reset + reset alone + reset in the cycle of a write and a read"""
    letters = [(_pack(0, 0, 0), 0), (_pack(0, 0, 1), 0)]
    for wd in range(1 << w):
        letters += [(_pack(1, wd, 0), 0), (_pack(1, wd, 1), 0)]
    letters += [(_pack(0, 0, 0), 1), (_pack(1, (1 << w) - 1, 1), 1)]
    return letters


def _bfs_config(cfg):
    """Explore the real implementation: state = internal registers + rows after a word from reset.
    Returns (list of (xs, rs) = one word per edge of the graph, statistics)."""
    import common as C
    C.setup_env()
    k, w, d = cfg
    letters = _bfs_letters(w)
    try:
        s0 = tuple(_simulate(k, w, d, [], [])[1])
        seen = {s0: ((), ())}
        queue = collections.deque([s0])
        edges = []
        closed = True
        depth = 0
        while queue:
            s = queue.popleft()
            xs, rs = seen[s]
            for (x, r) in letters:
                xs2 = xs + (x,)
                rs2 = rs + ((len(xs),) if r else ())
                s2 = tuple(_simulate(k, w, d, list(xs2), list(rs2))[1])
                edges.append((list(xs2), list(rs2)))
                if s2 not in seen:
                    if len(seen) >= BFS_CAP:
                        closed = False
                        continue
                    seen[s2] = (xs2, rs2)
                    depth = max(depth, len(xs2))
                    queue.append(s2)
        return edges, {"states": len(seen), "edges": len(edges), "letters": len(letters), "longest_word": depth,
                       "closed": closed}
    except Exception as e:
        return [], {"states": 0, "edges": 0, "closed": False, "error": f"{type(e).__name__}: {e}"}


def _bfs_all(cfgs):
    from concurrent.futures import ProcessPoolExecutor
    import common as C
    with ProcessPoolExecutor(min(C.NCPU, max(1, len(cfgs)))) as ex:
        return list(ex.map(_bfs_config, cfgs))


# ------------------------------------------------------------------------------------------ implementation
class _Probe:
    """wraps the FIFO so that the Module its elaborate() returns (with the internal signals) can be inspected"""
    def __init__(self, dut):
        self.dut = dut
        self.m = None

    def elaborate(self, platform):
        self.m = self.dut.elaborate(platform)
        return self.m


def _internals(kind, d, dut, m):
    """signals / memory of the elaborated design that make up its state, in the order of RunC12.enc_core / enc_bstate"""
    if d == 0:
        return [], None
    sigs = {}
    for stmts in m._statements.values():
        for st in stmts:
            for sg in st._lhs_signals():
                sigs.setdefault(sg.name, sg)
    if kind == "buf" and d == 1:
        return [dut.level, dut.r_data], None
    mem = m._named_submodules["storage"][0]
    if kind == "sync":
        return [sigs["produce"], sigs["consume"], dut.level], mem
    (rp,) = mem.read_ports
    return [sigs["produce"], sigs["consume"], sigs["inner_level"], dut.r_rdy, rp.data], mem


def _simulate(kind, w, d, xs, rs=()):
    """-> (trace of outputs per cycle, internal state after the last cycle)"""
    from amaranth.hdl import Module, ClockDomain, Elaboratable
    from amaranth.lib.fifo import SyncFIFO, SyncFIFOBuffered
    from amaranth.sim import Simulator

    class Probe(_Probe, Elaboratable):
        pass

    dut = (SyncFIFO if kind == "sync" else SyncFIFOBuffered)(width=w, depth=d)
    probe = Probe(dut)
    m = Module()
    m.domains.sync = cd = ClockDomain("sync")
    m.submodules.dut = probe
    trace = []
    state = []
    rset = set(rs)
    sim = Simulator(m)
    try:
        regs, mem = _internals(kind, d, dut, probe.m)
    except Exception:
        regs, mem = None, None              # internals not found: reported as state [-7] (a mismatch, not a crash)

    async def tb(ctx):
        for t, x in enumerate(xs):
            we, wd, re = _unpack(x)
            ctx.set(dut.w_en, we)
            ctx.set(dut.w_data, wd)
            ctx.set(dut.r_en, re)
            ctx.set(cd.rst, int(t in rset))
            trace.append((ctx.get(dut.w_rdy), ctx.get(dut.r_rdy), ctx.get(dut.r_data),
                          ctx.get(dut.level), ctx.get(dut.w_level), ctx.get(dut.r_level)))
            ctx.set(cd.clk, 1)
            ctx.set(cd.clk, 0)
        if regs is None:
            state.append(-7)
            return
        for sg in regs:
            state.append(ctx.get(sg))
        if mem is not None:
            for i in range(mem.depth):
                state.append(ctx.get(mem.data[i]))

    sim.add_testbench(tb)
    sim.run()
    return trace, state


def _monitor(kind, w, d, xs, trace, rs=()):
    """collections.deque reference queue driven by the implementation's own handshakes.
    Returns (verdict, stats); verdict 0 = ok, else 1 + 16 * cycle + clause."""
    q = collections.deque()
    msk = (1 << w) - 1
    verdict = 0
    st = collections.Counter()
    waiting = False            # previous cycle: an entry was held but r_rdy was low
    ring = d if kind == "sync" else d - 1
    rset = set(rs)
    for t, (x, o) in enumerate(zip(xs, trace)):
        we, wd, re = _unpack(x)
        w_rdy, r_rdy, r_data, level, w_level, r_level = o
        n = len(q)
        bad = 0
        if not (level == w_level == r_level == n):
            bad = 1
        elif r_rdy and (n == 0 or r_data != q[0]):
            bad = 2
        elif w_rdy and n >= d:
            bad = 3
        elif kind == "sync" and (w_rdy != int(n < d) or r_rdy != int(n > 0)):
            bad = 4
        elif kind == "buf" and n <= d - 2 and not w_rdy:
            bad = 5
        elif kind == "buf" and d == 1 and w_rdy != int(n == 0):
            bad = 6
        elif waiting and not r_rdy:
            bad = 7            # held for two cycles and still not readable
        elif n > d:
            bad = 8
        if bad and not verdict:
            verdict = 1 + 16 * t + bad
        waiting = n > 0 and not r_rdy
        st["cycles"] += 1
        st["full"] += n == d
        st["empty"] += n == 0
        st["w_refused"] += bool(we and not w_rdy)
        st["r_refused"] += bool(re and not r_rdy)
        st["held_not_ready"] += bool(n > 0 and not r_rdy)
        st["free_not_w_rdy"] += bool(n < d and not w_rdy)
        if we and w_rdy and re and r_rdy:
            st["simultaneous"] += 1
        if we and w_rdy:
            q.append(wd & msk)
            st["writes"] += 1
        if re and r_rdy:
            if q:                       # (an empty monitor queue here was already reported as clause 2)
                q.popleft()
            st["reads"] += 1
        st["max_level"] = max(st["max_level"], n)
        if t in rset:                   # synchronous reset at this edge: everything held is dropped
            st["resets"] += 1
            st["resets_nonempty"] += bool(q)
            q.clear()
            waiting = False
    st["wraps"] = st["reads"] // ring if ring > 0 else 0
    return verdict, st


_NONINT = {"str": "8", "float": 2.0, "none": None, "list": [4]}


def run_impl(c):
    if c["k"] == "ctor":
        from amaranth.lib.fifo import SyncFIFO, SyncFIFOBuffered
        try:
            (SyncFIFO, SyncFIFOBuffered)[c["kind"]](width=_NONINT.get(c["w"], c["w"]) if isinstance(c["w"], str) else c["w"],
                                                   depth=_NONINT.get(c["d"], c["d"]) if isinstance(c["d"], str) else c["d"])
            return [1]
        except Exception as e:
            if type(e).__name__ == "TypeError":
                return [0]
            return [-1, sum(map(ord, type(e).__name__))]
    rs = c.get("rs", ())
    try:
        trace, state = _simulate(c["k"], c["w"], c["d"], c["xs"], rs)
    except Exception as e:
        return [-1, sum(map(ord, type(e).__name__))]
    verdict, st = _monitor(c["k"], c["w"], c["d"], c["xs"], trace, rs)
    if c.get("stats"):
        return [st[k] for k in STAT_KEYS]
    w = c["w"]
    if c.get("raw"):
        out = []
        for (w_rdy, r_rdy, r_data, level, w_level, r_level) in trace:
            assert max(level, w_level, r_level) < 4096
            out += [w_rdy + 2 * r_rdy + 4 * (level + 4096 * (w_level + 4096 * r_level)), r_data if r_rdy else 0]
        return out + [verdict] + state
    out = _chunks([_pack_out(o, w) for o in trace], w + 7, _per_chunk(w)) + [verdict]
    return out + state if c.get("st") else out


def _per_chunk(w):
    return 60 // (w + 7)                # cycles per packed integer (each integer stays below 2^60)


def _pack_out(o, w):
    """w_rdy + 2*r_rdy + 4*(level + 32*(r_data + 2^w*(dw + 256*dr))), dw/dr = (w_level/r_level - level) mod 256"""
    w_rdy, r_rdy, r_data, level, w_level, r_level = o
    assert 0 <= level < 32 and 0 <= r_data < (1 << w)
    dw, dr = (w_level - level) % 256, (r_level - level) % 256
    return w_rdy + 2 * r_rdy + 4 * (level + 32 * ((r_data if r_rdy else 0) + (1 << w) * (dw + 256 * dr)))


def _unpack_out(v, w):
    w_rdy, r_rdy, v = v & 1, (v >> 1) & 1, v >> 2
    level, v = v & 31, v >> 5
    r_data, v = v & ((1 << w) - 1), v >> w
    return {"w_rdy": w_rdy, "r_rdy": r_rdy, "r_data": r_data, "level": level,
            "w_level": (level + (v & 255)) % 256, "r_level": (level + (v >> 8)) % 256}


def _chunks(vals, bits, k):
    """k consecutive cycles per integer, little-endian digits of `bits` bits (fewer literals to parse in Coq)"""
    out = []
    for i in range(0, len(vals), k):
        acc = 0
        for j, v in enumerate(vals[i:i + k]):
            acc += v << (bits * j)
        out.append(acc)
    return out


def _unchunks(chunks, bits, k, n):
    vals = []
    for c in chunks:
        for j in range(k):
            vals.append((c >> (bits * j)) & ((1 << bits) - 1))
    return vals[:n]


STAT_KEYS = ["cycles", "full", "empty", "wraps", "writes", "reads", "simultaneous", "w_refused", "r_refused",
             "held_not_ready", "free_not_w_rdy", "resets", "resets_nonempty", "max_level"]


# ------------------------------------------------------------------------------------------ model side
def _stim(c):
    """per cycle: w_en + 2*r_en + 4*rst + 8*w_data (the case keeps xs = w_en + 2*r_en + 4*w_data and rs = reset cycles)"""
    rset = set(c.get("rs", ()))
    return [(x & 3) + 4 * int(t in rset) + 8 * (x >> 2) for t, x in enumerate(c["xs"])]


def coq_term(c):
    if c["k"] == "ctor":
        if isinstance(c["w"], str) or isinstance(c["d"], str):
            return f"k_ctor_nonint {z(0 if isinstance(c['w'], str) else c['w'])} {z(0 if isinstance(c['d'], str) else c['d'])}"
        return f"k_ctor {z(c['w'])} {z(c['d'])}"
    w, d, n = c["w"], c["d"], len(c["xs"])
    if c.get("raw"):
        fn = "k_sync_raw" if c["k"] == "sync" else "k_buf_raw"
        return f"{fn} {w} {d} {zlist(_stim(c))}"
    assert 0 <= w < 16 and 0 <= d < 32 and all(0 <= x < (1 << (w + 5)) for x in c["xs"])
    cfg = w + 16 * (d + 256 * n)
    fn = ("k_sync" if c["k"] == "sync" else "k_buf") + ("_st" if c.get("st") else "")
    return f"{fn} {cfg} {zlist(_chunks(_stim(c), w + 6, _per_chunk(w)))}"


def classify(c):
    if c["k"] == "ctor":
        return "ctor"
    return f"{c['g']}:{c['k']}:d{c['d']}"


def nontrivial(c, obs):
    if c["k"] == "ctor":
        return c["w"] != 0 or c["d"] != 0
    if obs and obs[0] == -1:
        return False
    return any(o["r_rdy"] for o in decode(c, obs)[0])


def decode(c, ans):
    """(per-cycle outputs, monitor verdict, internal state or None) from an observed or model answer"""
    w, n = c["w"], len(c["xs"])
    if c.get("raw"):
        outs = []
        for i in range(n):
            v, rd = ans[2 * i], ans[2 * i + 1]
            outs.append({"w_rdy": v & 1, "r_rdy": (v >> 1) & 1, "r_data": rd, "level": (v >> 2) & 4095,
                         "w_level": (v >> 14) & 4095, "r_level": v >> 26})
        return outs, ans[2 * n], ans[2 * n + 1:]
    k = _per_chunk(w)
    nch = (n + k - 1) // k
    outs = [_unpack_out(v, w) for v in _unchunks(ans[:nch], w + 7, k, n)]
    return outs, ans[nch], (ans[nch + 1:] if c.get("st") else None)


def explain(c):
    if c["k"] == "ctor":
        return "answer: [1] accepted / [0] TypeError"
    st = ("; then the internal state after the last cycle: SyncFIFO produce, consume, level, rows; SyncFIFOBuffered "
          "produce, consume, inner_level, r_rdy, read-port data, rows (depth 1: level, r_data)") if c.get("st") else ""
    if c.get("raw"):
        return ("stimulus xs: one integer per cycle = w_en + 2*r_en + 4*w_data, rs = cycles with the domain reset asserted; "
                "answer: per cycle [w_rdy + 2*r_rdy + 4*(level + 4096*(w_level + 4096*r_level)), r_data (0 while r_rdy=0)], "
                "then the deque-monitor verdict (0 = ok, else 1+16*cycle+clause)" + st)
    return ("stimulus xs: one integer per cycle = w_en + 2*r_en + 4*w_data, rs = cycles with the domain reset asserted; "
            "answer: per cycle the code "
            "w_rdy + 2*r_rdy + 4*(level + 32*(r_data + 2^w*(dw + 256*dr))) (r_data taken as 0 while r_rdy=0; dw, dr = "
            f"w_level, r_level minus level mod 256), {_per_chunk(c['w'])} cycles per integer in little-endian digits of "
            f"{c['w'] + 7} bits, then the deque-monitor verdict (0 = ok, else 1+16*cycle+clause){st}; "
            "props.c12.decode(case, answer) gives it cycle by cycle; in the Coq term cfg = w + 16*(d + 256*cycles) and the "
            "stimulus digit is w_en + 2*r_en + 4*rst + 8*w_data")


def shrink(c, obs, model):
    if c["k"] == "ctor" or c.get("raw") or len(obs) != len(model) or (obs and obs[0] == -1):
        return c, obs, model
    w = c["w"]
    o, m = decode(c, obs)[0], decode(c, model)[0]
    k = next((i for i, (a, b) in enumerate(zip(o, m)) if a != b), None)
    if k is None:
        return c, obs, model                      # only the monitor verdict / final state differs: keep the whole run
    cycles = k + 1
    c2 = dict(c, xs=c["xs"][:cycles])
    c2.pop("st", None)
    if "rs" in c2:
        c2["rs"] = [t for t in c2["rs"] if t < cycles]
    obs2 = run_impl(c2)
    model2 = _chunks([_pack_out((x["w_rdy"], x["r_rdy"], x["r_data"], x["level"], x["w_level"], x["r_level"]), w)
                      for x in m[:cycles]], w + 7, _per_chunk(w)) + [0]
    if obs2 == model2:
        return c, obs, model
    return c2, obs2, model2


# ------------------------------------------------------------------------------------------ coverage of the walks
def extra(tier, seed, findings):
    import common as C
    walks = [dict(c, stats=1) for c in gen_cases(tier, seed) if c.get("g") in ("walk", "big")]
    bfs = _CACHE[(tier, seed)][1]
    res = C.run_impl_parallel(__name__, walks, chunk=16)
    tot = {k: collections.Counter() for k in KINDS}
    per_depth = {}
    gaps = []
    for c, r in zip(walks, res):
        if not isinstance(r, list) or len(r) != len(STAT_KEYS):
            gaps.append(f"{c['k']} w={c['w']} d={c['d']}: no statistics ({r})")
            continue
        s = dict(zip(STAT_KEYS, r))
        key = f"{c['k']}:d{c['d']}"
        pd = per_depth.setdefault(key, collections.Counter())
        for k in STAT_KEYS:
            if k == "max_level":
                pd[k] = max(pd[k], s[k])
                tot[c["k"]][k] = max(tot[c["k"]][k], s[k])
            else:
                pd[k] += s[k]
                tot[c["k"]][k] += s[k]
        ring = c["d"] if c["k"] == "sync" else c["d"] - 1      # rows of the storage memory
        if c["g"] == "walk" and c.get("rs") and s["resets_nonempty"] == 0 and c["d"] > 0:
            gaps.append(f"{c['k']} w={c['w']} d={c['d']}: reset never hit a non-empty queue")
        if c["d"] > 0 and (s["full"] == 0 or s["empty"] == 0 or (ring > 0 and s["wraps"] == 0)
                           or s["max_level"] != c["d"]):
            gaps.append(f"{c['k']} w={c['w']} d={c['d']}: full={s['full']} empty={s['empty']} wraps={s['wraps']}")
    cov = {
        "walk_visits": {k: dict(v) for k, v in tot.items()},
        "walk_visits_per_depth": {k: {kk: v[kk] for kk in ("cycles", "full", "empty", "wraps", "simultaneous",
                                                          "w_refused", "r_refused", "max_level")}
                                  for k, v in sorted(per_depth.items())},
        "walks": len(walks),
        "walks_missing_full_empty_or_wrap": gaps,
        "bfs": bfs,
        "bfs_all_closed": all(v.get("closed") for v in bfs.values()),
    }
    viol = []
    for key, v in bfs.items():
        if not v.get("closed"):
            # the implementation's state graph did not close (or its internals could not be read): the exhaustive
            # exploration the property asks for is not available -> a broken obligation of this check
            viol.append({"property": ID, "kind": "obligation",
                         "obligation": [f"state graph of {key} not explored to closure: {v}"]})
    return viol, cov

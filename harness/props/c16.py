"""C16 — CRC software and hardware agree with the Williams model for all parameters."""
import json, os, random
from common import z, zlist, blit, VERIF

ID = "C16"
LEVEL = "proof"
PROPS_FILE = "C16.v"
RUN_MODULE = "RunC16"
TRANSLATOR_UNITS = ["crc"]
RULE = ("every catalogue name (live catalog.py) x data widths {1,3,4,8,16,crc_width,crc_width/2,...} with messages of 0-12 "
        "random words: Parameters.compute vs Crc.compute and vs the Williams spec run directly; residue(), _matrices(), "
        "_reflect; exhaustive parameter sets for crc_width<=3 (all polynomials, inits, flags) x data widths 1..3; seeded random "
        "parameter sets (crc_width<=24 quick, <=82 thorough, even polynomials included); Processor simulated in the real "
        "simulator with random start/valid/data patterns (crc and match_detected read before the first and after every edge) "
        "vs Crc.hw_trace, with fixed restart scenarios (start together with valid / start alone after the register left "
        "its reset value) and CRC-64/CRC-82 designs in the quick tier; Processor.__init__ attributes; codeword tests "
        "(message + trailer in transmission order; correct, single-bit-corrupted, random and, for even polynomials, "
        "kernel trailers) under schedules with junk before the start, start alone / with the first word / no start, and "
        "idle gaps, with the match verdict of the property text computed from the observation; constructors through "
        "algo(d), Parameters(algo, d), .algorithm round trip and the default data width; TypeError cases; the RTLIL "
        "emitted for small Processors run under the RTLIL semantics of C04 against the simulator; the published table (committed JSON) vs the table embedded in "
        "Model/Crc.v vs the live catalogue vs compute/residue/williams; malformed inputs (out-of-range parameters, widths "
        "<= 0, out-of-range words) compared on the exception. non-trivial = not an error answer and some word/parameter non-zero")
MODELLED = ("Algorithm/Parameters range checks, Parameters.compute/residue/_matrices/_reflect and Processor.elaborate are "
            "modelled in coq/Model/Crc.v (compute: unmasked inner loop on the (crc_width+data_width)-bit register; "
            "Processor: XOR network driven by the F/G matrices, start/valid priority, output reflection/xor, residue "
            "comparison); the simulator executing the elaborated netlist, Python's int/str formatting in _reflect and "
            "_matrices, and operator.index coercions are validated only")
ASSUMPTIONS = ["data words presented to the hardware fit the data_width-bit `data` signal (the simulator truncates otherwise)",
               "words are non-negative Python ints (negative words raise ValueError in compute; modelled as out of range)"]
SHARD = 250
TRUSTED_EXTRA = ["coq/Model/RtlilSem.v (RTLIL semantics shared with C04) and harness/rtlil_read.py, for the `rtl` cases only"]

DATA = os.path.join(VERIF, "data", "crc_reveng.json")
CHECK_MSG = list(b"123456789")
HW_SUBSET = ["CRC3_GSM", "CRC4_INTERLAKEN", "CRC5_USB", "CRC8_AUTOSAR", "CRC8_BLUETOOTH", "CRC8_I_432_1",
             "CRC12_UMTS", "CRC15_CAN", "CRC16_ARC", "CRC16_IBM_3740", "CRC17_CAN_FD", "CRC21_CAN_FD",
             "CRC24_FLEXRAY_A", "CRC32_AUTOSAR", "CRC32_BZIP2", "CRC32_ISO_HDLC", "CRC40_GSM",
             "CRC12_DECT", "CRC16_EN_13757", "CRC10_GSM", "CRC64_XZ", "CRC82_DARC"]


def _table():
    return json.load(open(DATA))["entries"]


def _live_catalog():
    from amaranth.lib.crc import catalog
    out = {}
    for name in dir(catalog):
        if name.startswith("CRC"):
            a = getattr(catalog, name)
            out[name] = [a.crc_width, a.polynomial, a.initial_crc, bool(a.reflect_input), bool(a.reflect_output),
                         a.xor_output]
    return out


# ---------------------------------------------------------------- generation
def _msg(rng, d, n):
    out = []
    for _ in range(n):
        r = rng.random()
        if r < 0.1:
            out.append(0)
        elif r < 0.2:
            out.append((1 << d) - 1)
        elif r < 0.3:
            out.append(1 << rng.randrange(d))
        else:
            out.append(rng.randrange(1 << d))
    return out


def _rand_algo(rng, wmax):
    w = rng.choice((1, 2, 3, 4, 5, 7, 8, 9, 12, 15, 16, 17, 24, 31, 32, 33, 40, 63, 64, 65, 82))
    if w > wmax or rng.random() < 0.5:
        w = rng.randrange(1, wmax + 1)
    def val():
        r = rng.random()
        if r < 0.12:
            return 0
        if r < 0.24:
            return (1 << w) - 1
        if r < 0.3:
            return 1 << (w - 1)
        return rng.randrange(1 << w)
    p = val()
    if rng.random() < 0.75:
        p |= 1
    return [w, p, val(), rng.random() < 0.5, rng.random() < 0.5, val()]


def _widths(w):
    ds = [1, 3, 4, 8, 16, w]
    if w % 2 == 0:
        ds.append(w // 2)
    if w > 1:
        ds.append(w - 1)
    ds.append(w + 1)
    return sorted(set(ds))


def _cycles(rng, d, n):
    cs = []
    pv = rng.choice((0.3, 0.6, 0.9, 1.0))
    ps = rng.choice((0.05, 0.15, 0.4))
    for _ in range(n):
        cs.append([rng.random() < ps, rng.random() < pv, _msg(rng, d, 1)[0]])
    return cs


def gen_cases(tier, seed):
    rng = random.Random(seed)
    thorough = tier == "thorough"
    cases = []
    live = _live_catalog()
    table = _table()
    cases.append({"k": "table_len"})
    for i, e in enumerate(table):
        cases.append({"k": "table", "i": i, "name": e["name"]})
    names = sorted(live)
    # catalogue x data widths
    for name in names:
        a = live[name]
        for d in _widths(a[0]):
            for rep in range(2 if thorough else 1):
                ws = _msg(rng, d, rng.randrange(0, 13))
                cases.append({"k": "compute", "a": a, "d": d, "ws": ws, "src": name})
                if rng.random() < (1.0 if thorough else 0.35):
                    cases.append({"k": "williams", "a": a, "d": d, "ws": ws, "src": name})
        cases.append({"k": "compute", "a": a, "d": 8, "ws": CHECK_MSG, "src": name, "via": rng.randrange(3),
                      "dflt": rng.random() < 0.5})
        cases.append({"k": "residue", "a": a, "d": rng.choice(_widths(a[0])), "src": name})
        if thorough or rng.random() < 0.3:
            cases.append({"k": "matrices", "a": a, "d": rng.choice(_widths(a[0])), "src": name})
    # exhaustive tiny parameter sets
    for w in (1, 2, 3):
        for p in range(1 << w):
            for i in range(1 << w):
                for rin in (False, True):
                    for rout in (False, True):
                        a = [w, p, i, rin, rout, rng.randrange(1 << w)]
                        for d in (1, 2, 3):
                            ws = _msg(rng, d, rng.randrange(0, 5))
                            cases.append({"k": "compute", "a": a, "d": d, "ws": ws, "src": "tiny"})
                        if rng.random() < 0.25:
                            cases.append({"k": "residue", "a": a, "d": rng.randrange(1, 5), "src": "tiny"})
                            cases.append({"k": "matrices", "a": a, "d": rng.randrange(1, 5), "src": "tiny"})
    # tiny hardware: all (start, valid) patterns of length 3 for a few tiny parameter sets
    for w, d in ((1, 1), (2, 1), (2, 3), (3, 2)):
        for _ in range(2 if not thorough else 6):
            a = _rand_algo(rng, w)
            a[0] = w
            a[1] &= (1 << w) - 1; a[2] &= (1 << w) - 1; a[5] &= (1 << w) - 1
            for pat in range(64):
                cs = [[bool(pat >> (2 * j) & 1), bool(pat >> (2 * j + 1) & 1), rng.randrange(1 << d)] for j in range(3)]
                cases.append({"k": "hw", "a": a, "d": d, "cs": cs, "src": "tiny"})
    # random parameter sets
    wmax = 82 if thorough else 24
    for _ in range(6000 if thorough else 700):
        a = _rand_algo(rng, wmax)
        d = rng.choice(_widths(a[0]) + [rng.randrange(1, 2 * a[0] + 2)])
        ws = _msg(rng, d, rng.randrange(0, 13))
        cases.append({"k": "compute", "a": a, "d": d, "ws": ws, "src": "rand", "via": rng.randrange(3)})
        r = rng.random()
        if r < 0.3:
            cases.append({"k": "williams", "a": a, "d": d, "ws": ws, "src": "rand"})
        elif r < 0.5:
            cases.append({"k": "residue", "a": a, "d": d, "src": "rand"})
        elif r < 0.6:
            cases.append({"k": "matrices", "a": a, "d": d, "src": "rand"})
    for _ in range(2000 if thorough else 200):
        n = rng.randrange(1, 90)
        x = rng.randrange(1 << rng.randrange(1, n + 8))
        cases.append({"k": "reflect", "x": x, "n": n})
    # hardware with random schedules
    hw_names = HW_SUBSET if thorough else HW_SUBSET[:17]
    for name in hw_names:
        a = live[name]
        ds = [1, 8, a[0]] if not thorough else _widths(a[0])
        for d in sorted(set(ds)):
            if a[0] * d > (82 * 16 if thorough else 32 * 32):
                continue
            cases.append({"k": "hw", "a": a, "d": d, "cs": _cycles(rng, d, rng.randrange(4, 21)), "src": name})
    for _ in range(1200 if thorough else 220):
        a = _rand_algo(rng, 40 if thorough else 16)
        d = rng.choice(_widths(a[0]) + [rng.randrange(1, 20)])
        if d > 24:
            d = 24
        cases.append({"k": "hw", "a": a, "d": d, "cs": _cycles(rng, d, rng.randrange(1, 21)), "src": "rand"})
    # fixed restart scenarios: n valid words (the register leaves its reset value), then start together with valid /
    # start alone / start alone then idle, then more words; big catalogue designs in every tier
    def restart_cases(a, d, src):
        for kind in ("sv", "s", "s_idle", "sv_twice"):
            cs = [[False, True, x] for x in _msg(rng, d, rng.randrange(1, 4))]
            if kind == "sv":
                cs += [[True, True, _msg(rng, d, 1)[0]]]
            elif kind == "s":
                cs += [[True, False, _msg(rng, d, 1)[0]]]
            elif kind == "s_idle":
                cs += [[True, False, 0], [False, False, _msg(rng, d, 1)[0]]]
            else:
                cs += [[True, True, _msg(rng, d, 1)[0]], [False, True, _msg(rng, d, 1)[0]], [True, True, _msg(rng, d, 1)[0]]]
            cs += [[False, True, x] for x in _msg(rng, d, rng.randrange(1, 4))]
            cases.append({"k": "hw", "a": a, "d": d, "cs": cs, "src": src, "sc": "restart_" + kind})
    for name in HW_SUBSET[:17:2]:
        restart_cases(live[name], rng.choice((1, 8, 3)), name)
    for _ in range(40 if thorough else 10):
        a = _rand_algo(rng, 16)
        restart_cases(a, rng.choice(_widths(a[0])[:6]), "rand")
    for name, d in (("CRC64_XZ", 8), ("CRC64_XZ", 64), ("CRC82_DARC", 8), ("CRC82_DARC", 1), ("CRC40_GSM", 40)):
        cases.append({"k": "hw", "a": live[name], "d": d, "cs": _cycles(rng, d, 12), "src": name, "sc": "big"})
        cases.append({"k": "proc", "a": live[name], "d": d, "src": name})
    for name in HW_SUBSET[:17]:
        cases.append({"k": "proc", "a": live[name], "d": rng.choice((1, 8, live[name][0])), "src": name})
    for _ in range(200 if thorough else 40):
        a = _rand_algo(rng, 24)
        cases.append({"k": "proc", "a": a, "d": rng.choice(_widths(a[0])), "src": "rand"})
    # the emitted RTLIL of small Processors under the RTLIL semantics (Model/RtlilSem.v) vs the simulator
    rtl = [(live["CRC5_USB"], 3), (live["CRC8_AUTOSAR"], 8), (live["CRC16_ARC"], 8), (live["CRC3_GSM"], 1),
           (live["CRC15_CAN"], 1), (live["CRC32_ISO_HDLC"], 8)]
    for _ in range(60 if thorough else 12):
        a = _rand_algo(rng, 12)
        rtl.append((a, rng.choice(_widths(a[0])[:5])))
    for n_, (a, d) in enumerate(rtl):
        cases.append({"k": "rtl", "a": a, "d": min(d, 12), "cs": _cycles(rng, min(d, 12), rng.randrange(3, 9)),
                      "src": "catalog" if n_ < 6 else "rand"})
    for sub in ("proc_algo", "proc_int", "float_width", "float_dw", "str_poly"):
        cases.append({"k": "typeerr", "sub": sub})
    # codewords: message ++ trailer
    def kern_tx(a, d, k):
        """xor pattern (word order) that moves the correct trailer to the second matching one (even polynomial)"""
        w, pol, rin = a[0], a[1], a[3]
        u = (1 << (w - 1)) + pol // 2
        t = [(u >> (d * (k - 1 - i))) & ((1 << d) - 1) for i in range(k)]
        return [_rev(x, d) for x in t] if rin else t

    def schedule(d, n, plain):
        """(pre cycles, start kind, gaps) for n words"""
        if plain:
            return [], 0, [0] * n
        r = rng.random()
        if r < 0.2:
            return [], 2, [rng.choice((0, 0, 1, 2)) for _ in range(n)]          # no start at all, reset value
        pre = _cycles(rng, d, rng.randrange(0, 5)) if rng.random() < 0.7 else []
        return pre, (1 if rng.random() < 0.5 else 0), [rng.choice((0, 0, 0, 1, 3)) for _ in range(n)]

    def match_cases(a, src, reps):
        w = a[0]
        for d in sorted({1, w} | ({8} if w % 8 == 0 else set()) | ({w // 2} if w % 2 == 0 else set())
                        | ({w // 3} if w % 3 == 0 else set())):
            if w * d > (82 * 41 if thorough else 40 * 8) and d != 1:
                continue
            if d == 1 and w > (82 if thorough else 33):
                continue
            k = w // d
            modes = ["ok", "bit", "rand"][:reps] + (["kern"] if a[1] % 2 == 0 else [])
            for rep, mode in enumerate(modes):
                ws = _msg(rng, d, rng.randrange(0, 7))
                if mode == "ok":
                    tx = [0] * k
                elif mode == "bit":
                    tx = [0] * k
                    tx[rng.randrange(k)] = 1 << rng.randrange(d)
                elif mode == "kern":
                    tx = kern_tx(a, d, k)
                else:
                    tx = [rng.randrange(1 << d) for _ in range(k)]
                    if not any(tx):
                        tx[0] = 1
                pre, st, gaps = schedule(d, len(ws) + k, plain=rng.random() < 0.3)
                cases.append({"k": "match", "a": a, "d": d, "kk": k, "ws": ws, "tx": tx, "pre": pre, "st": st,
                              "gaps": gaps, "mode": mode, "src": src})
    for name in (names if thorough else HW_SUBSET[:17] + ["CRC12_UMTS", "CRC12_DECT", "CRC16_EN_13757", "CRC10_GSM"]):
        match_cases(live[name], name, 3)
    for _ in range(250 if thorough else 60):
        match_cases(_rand_algo(rng, 32 if thorough else 12), "rand", 3)
    # the recorded witness of C16-even-polynomial-false-match and a few more even polynomials
    for a in ([8, 6, 255, False, False, 0], [1, 0, 0, False, False, 0], [16, 0x1020, 0xffff, True, True, 0xffff],
              [5, 0x14, 0x1f, True, False, 3], [12, 0x80e, 0, False, True, 0xfff]):
        match_cases(a, "rand", 3)
    # malformed
    for _ in range(300 if thorough else 60):
        a = _rand_algo(rng, 12)
        w = a[0]
        r = rng.randrange(6)
        d = rng.randrange(1, 10)
        ws = _msg(rng, d, rng.randrange(1, 5))
        if r == 0:
            a[0] = rng.choice((0, -1, -5))
        elif r == 1:
            a[1] = rng.choice((1 << w, -1, (1 << w) + 3))
        elif r == 2:
            a[2] = rng.choice((1 << w, -1, (1 << (w + 2)) - 1))
        elif r == 3:
            a[5] = rng.choice((1 << w, -2))
        elif r == 4:
            d = rng.choice((0, -1, -8))
            ws = []
        else:
            ws[rng.randrange(len(ws))] = rng.choice((1 << d, -1, (1 << d) + 5))
        cases.append({"k": "compute", "a": a, "d": d, "ws": ws, "src": "malformed"})
    return cases


# ---------------------------------------------------------------- implementation side
def _algo(a):
    from amaranth.lib.crc import Algorithm
    return Algorithm(crc_width=a[0], polynomial=a[1], initial_crc=a[2], reflect_input=a[3], reflect_output=a[4],
                     xor_output=a[5])


def _simulate(params, cs):
    """Outputs (crc, match_detected) before the first edge and after every edge."""
    from amaranth.sim import Simulator, Period
    dut = params.create()
    out = []

    async def tb(ctx):
        out.extend([ctx.get(dut.crc), ctx.get(dut.match_detected)])
        for st, va, da in cs:
            ctx.set(dut.start, int(st))
            ctx.set(dut.valid, int(va))
            ctx.set(dut.data, da)
            await ctx.tick()
            out.extend([ctx.get(dut.crc), ctx.get(dut.match_detected)])

    sim = Simulator(dut)
    sim.add_clock(Period(MHz=1))
    sim.add_testbench(tb)
    sim.run()
    return out


def _rev(x, n):
    r = 0
    for i in range(n):
        if x >> i & 1:
            r |= 1 << (n - 1 - i)
    return r


def py_trailer(a, d, k, crc):
    """CRC value as k words in transmission order (independent of the Coq definition)."""
    w, rin, rout = a[0], a[3], a[4]
    if rin == rout and d == 8:
        t = list(crc.to_bytes(k, "little" if rout else "big"))
        return t
    u = _rev(crc, w) if rout else crc
    t = [(u >> (d * (k - 1 - i))) & ((1 << d) - 1) for i in range(k)]
    return [_rev(x, d) for x in t] if rin else t


def _unexpected(e):
    """an exception class the model never predicts: encoded so that it shows up as a disagreement"""
    return [-9, sum(map(ord, type(e).__name__))]


def _build(c, alg):
    """Parameters through one of the public paths (translated: Algorithm.__call__, Parameters.__init__, .algorithm)"""
    from amaranth.lib.crc import Parameters
    via, d = c.get("via", 0), c["d"]
    if c.get("dflt"):
        assert d == 8
        return (alg(), Parameters(alg), alg().algorithm())[via]
    if via == 1:
        return Parameters(alg, d)
    if via == 2:
        return alg(d).algorithm(d)
    return alg(d)


def match_cycles(c, t):
    words = c["ws"] + t
    cs = [list(x) for x in c.get("pre", [])]
    st = c.get("st", 0)
    if st == 1:
        cs.append([True, False, 0])
    gaps = c.get("gaps", [])
    for i, x in enumerate(words):
        cs += [[False, False, x]] * (gaps[i] if i < len(gaps) else 0)
        cs.append([i == 0 and st == 0, True, x])
    return cs


def run_impl(c):
    from amaranth.lib.crc import Parameters, Algorithm, Processor
    k = c["k"]
    if k == "table_len":
        live = _live_catalog()
        table = _table()
        if {e["name"] for e in table} != set(live):
            return [-1]
        return [len(table)]
    if k == "table":
        e = _table()[c["i"]]
        live = _live_catalog()[c["name"]]
        p = _algo(live)(8)
        # live parameters, published check/residue, live compute/residue, published check again (spec column)
        return [live[0], live[1], live[2], int(live[3]), int(live[4]), live[5], e["check"], e["residue"],
                p.compute(CHECK_MSG), p.residue(), e["check"]]
    if k == "reflect":
        return [Parameters._reflect(c["x"], c["n"])]
    if k == "typeerr":
        sub = c["sub"]
        good = dict(crc_width=8, polynomial=7, initial_crc=0, reflect_input=False, reflect_output=False, xor_output=0)
        try:
            if sub == "proc_algo":
                Processor(Algorithm(**good))
            elif sub == "proc_int":
                Processor(8)
            elif sub == "float_width":
                Algorithm(**{**good, "crc_width": 8.0})
            elif sub == "float_dw":
                Algorithm(**good)(8.0)
            elif sub == "str_poly":
                Algorithm(**{**good, "polynomial": "7"})
            return [0]
        except Exception as e:
            return [-3] if type(e).__name__ == "TypeError" else _unexpected(e)
    a = c["a"]
    try:
        alg = _algo(a)
    except Exception as e:
        return [-1] if type(e).__name__ == "ValueError" else _unexpected(e)
    try:
        p = _build(c, alg) if "d" in c else alg(8)
    except Exception as e:
        return [-2] if type(e).__name__ == "ValueError" else _unexpected(e)
    d = c.get("d", 8)
    try:
        if k == "residue":
            return [p.residue()]
        if k in ("compute", "williams"):
            try:
                return [1, p.compute(c["ws"])]
            except Exception as e:
                return [0] if type(e).__name__ == "ValueError" else _unexpected(e)
        if k == "matrices":
            f, g = p._matrices()
            return [len(f), len(g)] + [b for r in f for b in r] + [b for r in g for b in r]
        if k == "proc":
            pr = Processor(p)
            f, g = pr._matrix_f, pr._matrix_g
            return ([len(pr.crc), len(pr.data), len(pr.start), len(pr.valid), len(pr.match_detected),
                     pr._initial_crc.value, len(pr._initial_crc), pr._residue, len(f), len(g)]
                    + [b for r in f for b in r] + [b for r in g for b in r])
        if k == "hw":
            return _simulate(p, c["cs"])
        if k == "rtl":
            tr = _simulate(p, c["cs"])
            rows = [0, tr[0], tr[1]]
            for i in range(len(c["cs"])):
                rows += [0, tr[2 * i], tr[2 * i + 1]] + [0, tr[2 * i + 2], tr[2 * i + 3]] * 2
            return rows
        if k == "match":
            crc = p.compute(c["ws"])
            t = [x ^ m for x, m in zip(py_trailer(a, d, c["kk"], crc), c["tx"])]
            out = _simulate(p, match_cycles(c, t))
            # the verdict of the property text, from the observation: match after the last word iff the trailer is
            # the message's own CRC
            return t + out + [int(bool(out[-1]) == (not any(c["tx"])))]
    except Exception as e:
        return _unexpected(e)
    raise ValueError(k)


# ---------------------------------------------------------------- model side
def _a(a):
    return f"(Algo {z(a[0])} {z(a[1])} {z(a[2])} {blit(a[3])} {blit(a[4])} {z(a[5])})"


def _cs(cs):
    return "[" + "; ".join(f"Cy {blit(s)} {blit(v)} {z(x)}" for s, v, x in cs) + "]"


def _rtl_term(c):
    """RTLIL text of Processor from the real backend -> document of Model/RtlilSem.v + stimulus"""
    import rtlil_read as R
    from amaranth.back import rtlil
    try:
        dut = _algo(c["a"])(c["d"]).create()
        text = rtlil.convert(dut, ports=[dut.start, dut.valid, dut.data, dut.crc, dut.match_detected], name="top",
                             emit_src=False)
        mods = R.parse(text)
    except Exception as e:
        return f"[-1; {sum(map(ord, type(e).__name__))}]"
    top = mods[0]

    def port(name, kind, width):
        wn = "\\" + name
        if wn not in top.windex or top.wires[top.windex[wn]].kind != kind or top.wires[top.windex[wn]].width != width:
            raise R.RtlilError(f"top module has no {kind} port {name} of width {width}")
        return top.windex[wn]
    w, d = c["a"][0], c["d"]
    st, va, da, clk, rst = (port("start", "input", 1), port("valid", "input", 1), port("data", "input", d),
                            port("clk", "input", 1), port("rst", "input", 1))
    crc, md = port("crc", "output", w), port("match_detected", "output", 1)
    obs = f"[Some ([], {crc}%nat, {w}); Some ([], {md}%nat, 1)]"
    init = "[" + "; ".join(f"({i}%nat, 0)" for i in (st, va, da, clk, rst)) + "]"
    steps = []
    for s_, v_, x in c["cs"]:
        steps += [f"[({st}%nat, {int(s_)}); ({va}%nat, {int(v_)}); ({da}%nat, {z(x)})]", f"[({clk}%nat, 1)]",
                  f"[({clk}%nat, 0)]"]
    return f"k_rtl {R.coq_doc(mods)}\n {obs} {init}\n [" + "; ".join(steps) + "]"


def coq_term(c):
    k = c["k"]
    if k == "table_len":
        return "k_table_len"
    if k == "table":
        return f"k_table_entry {z(c['i'])}"
    if k == "reflect":
        return f"k_reflect {z(c['x'])} {z(c['n'])}"
    if k == "residue":
        return f"(if algo_ok {_a(c['a'])} then k_residue {_a(c['a'])} else [-1])"
    if k == "proc":
        return f"k_proc {_a(c['a'])} {z(c['d'])}"
    if k == "rtl":
        return _rtl_term(c)
    if k == "typeerr":
        return "k_typeerr"
    if k == "compute":
        return f"k_compute {_a(c['a'])} {z(c['d'])} {zlist(c['ws'])}"
    if k == "williams":
        return f"k_williams {_a(c['a'])} {z(c['d'])} {zlist(c['ws'])}"
    if k == "matrices":
        return f"k_matrices {_a(c['a'])} {z(c['d'])}"
    if k == "hw":
        return f"k_hw {_a(c['a'])} {z(c['d'])} {_cs(c['cs'])}"
    if k == "match":
        return (f"k_match {_a(c['a'])} {z(c['d'])} {z(c['kk'])} {zlist(c['ws'])} {zlist(c['tx'])} "
                f"{_cs(c.get('pre', []))} {z(c.get('st', 0))} {zlist(c.get('gaps', []))}")
    raise ValueError(k)


def classify(c):
    k = c["k"]
    if k in ("table", "table_len", "reflect"):
        return k
    if k == "typeerr":
        return "typeerr/" + c["sub"]
    if k == "rtl":
        return "rtl/" + c.get("src", "rand")
    src = c.get("src", "")
    grp = src if src in ("tiny", "rand", "malformed") else "catalog"
    if k == "match":
        mode = c.get("mode") or ("ok" if not any(c["tx"]) else "rand")
        par = "evenpoly" if c["a"][1] % 2 == 0 else "oddpoly"
        st = ("start+word", "start-alone", "no-start")[c.get("st", 0)]
        sch = st + ("+junk" if c.get("pre") else "") + ("+gaps" if any(c.get("gaps", [])) else "")
        return f"match/{grp}/{mode}/{par}/{sch}"
    if k == "hw":
        nv = sum(1 for s, v, x in c["cs"] if v)
        ns = sum(1 for s, v, x in c["cs"] if s)
        if c.get("sc"):
            return f"hw/{grp}/{c['sc']}"
        return f"hw/{grp}/{'restart' if ns else 'nostart'}/{'idle' if nv < len(c['cs']) else 'dense'}"
    if k in ("compute", "williams"):
        a, d = c["a"], c["d"]
        rel = "d<w" if d < a[0] else ("d=w" if d == a[0] else "d>w")
        if c.get("dflt"):
            rel = "default-width/" + ("algo()", "Parameters(algo)", "algo().algorithm()")[c.get("via", 0)]
        return f"{k}/{grp}/{rel}"
    return f"{k}/{grp}"


def nontrivial(c, obs):
    k = c["k"]
    if not obs or obs[0] < 0:
        return False
    if k in ("compute", "williams"):
        return obs[0] == 1 and len(c["ws"]) > 0
    if k in ("hw", "rtl"):
        return any(v for s, v, x in c["cs"])
    return True


def known_finding(c, obs, model):
    """C16-even-polynomial-false-match: only a codeword run with an even polynomial and a trailer that is NOT the
    message's CRC, where the whole observed trace (trailer words, crc and match_detected at every edge) is exactly what
    the faithful model computes and the only difference is the verdict of the property text (model = spec says 1,
    observed 0 because match_detected was raised)."""
    if c["k"] != "match" or c["a"][1] % 2 != 0 or not any(c["tx"]):
        return None
    if not (isinstance(obs, list) and isinstance(model, list) and len(obs) == len(model) and len(obs) >= 3):
        return None
    if obs[:-1] == model[:-1] and model[-1] == 1 and obs[-1] == 0 and obs[-2] == 1:
        return "C16-even-polynomial-false-match"
    return None


def explain(c):
    return ("model answer encodes: compute [1, crc] / [0] ValueError on a word / [-1] Algorithm ValueError / [-2] "
            "Parameters ValueError; hw: crc, match_detected before the first edge and after each edge; match: trailer "
            "words, the same trace, then the verdict of the property text (1 = match_detected after the last word iff the "
            "trailer is the message's own CRC; the model column states the property, the observed column is computed "
            "from the simulation); proc: widths of crc/data/start/valid/match_detected, initial value and its width, "
            "residue, matrices; rtl: per settle (inputs set / clk=1 / clk=0) a status (0 = converged) then crc, "
            "match_detected, from the emitted RTLIL under Model/RtlilSem.v vs the simulator; [-3] TypeError; [-9, n] an exception class the model does not predict")


"""C03 — clock domains, resets, ResetInserter / EnableInserter / DomainRenamer.

Case kinds
  x  structural: real wrappers applied to a generated Module hierarchy, `Fragment.get(wrapped, None)` serialised per
     fragment and domain, against Xfrm.elab applied to the serialised un-wrapped hierarchy
  c  white-box: LHSMaskCollector keys / masks / chunks of every (fragment, domain) statement list
  t  observable: real simulator on the real wrapped design, clocks / resets / controls / inputs written by hand with one
     ctx.set(Cat(...), bits) per event, every driven signal read after every event, against the faithful engine model
  s  the same observation against the SPEC engine (reset rise of an async domain only loads initial values)
  m  observable, designs with a lib.memory.Memory under the wrappers: signals and all memory rows after every event
"""
import random
from common import z, zlist, blit
import exprgen as G
import astser

ID = "C03"
LEVEL = "proof"
PROPS_FILE = "C03.v"
RUN_MODULE = "RunC03"
TRANSLATOR_UNITS = ["xfrm"]
SHARD = 42
WIDE = "C03-wide-enable-control-over-memory-read-port"
RULE = ("designs: 1-3 clock domains (pos/neg edge; sync / async / no reset) defined in the top module, hierarchy depth <= 2, "
        "statements built with the Module DSL (If/Else, Switch/Case/Default, assignments to whole signals, slices, part-selects, "
        "Cat) from exprgen expressions; every state signal (or each half of a bitwise split one) has one driver (fragment, "
        "domain); reset-less signals; comb signals without loops. wrappers: stacks of <= 4 ResetInserter / EnableInserter / "
        "DomainRenamer (alias->real, real->real merging) in all orders on any node (all stacks of length <= 2 over a 6-wrapper alphabet, "
        "a sample of length 3-4 (thorough: all of length 3) on a fixed design, then random). events: every subset of {clk_i toggle, rst_i toggle} in "
        "shuffled blocks plus random control / input changes, <= 40 events (thorough 80), one ctx.set(Cat(..)) per event. "
        "memory designs (kinds m, x:mem): a lib.memory.Memory (width 1-4, depth 2-5, 1-2 write ports with any granularity, "
        "1-2 comb / sync / transparent read ports, port domains incl. aliases) on any node under the wrapper stacks, port "
        "inputs written by the testbench, controls unsigned(1); observed: every driven signal and every memory row after "
        "every event. 35 % of the designs read ClockSignal / ResetSignal (allow_reset_less and strict) of the domain names "
        "usable at the node, so DomainRenamer's rewriting and DomainLowerer's resolution are observed (x: renamed late-bound "
        "leaves; t/s/m: their values; DomainError compared by class); 12 % of the extra domains share the clock (and reset) "
        "signal of the first; 25 % name the first domain 'sync' and use the bare forms ResetInserter(ctl) / "
        "DomainRenamer('name'); 20 % draw controls that are expressions over design state; 25 % of the memory designs draw "
        "controls that are not unsigned(1) (AssertionError out of the next transformer / the simulator's DomainLowerer "
        "compared by class; directed cases for every error class). s cases are compared with faithful trace ++ spec "
        "trace, so a listed finding must leave the faithful half exact. non-trivial = at least one wrapper (x) / some driven signal changes during the trace (t, s) / some "
        "memory row changes (m); distinct by case hash")
MODELLED = ("_xfrm.py LHSMaskCollector / _ControlInserter / ResetInserter / EnableInserter / DomainRenamer.map_statements, "
            "Fragment.add_statements, _pyrtl._FragmentCompiler per-domain processes + edge_waker, pysim step_design/commit "
            "(coq/Model/Xfrm.v on top of Stmt.v / Process.v). Validated only: TransformedElaboratable / Fragment.get plumbing, "
            "Module DSL lowering, waker bookkeeping (the model re-runs every comb process each delta), set iteration order of "
            "processes, DomainRenamer on domain objects (never at the root / over a module that defines domains). ClockSignal / "
            "ResetSignal are pseudo signals rewritten by domain_renamer_cs and resolved by lower_sig (DomainLowerer). Memory instances under the wrappers "
            "(EnableInserter port gating, DomainRenamer port domains, ResetInserter no-op) and the memory processes of "
            "_FragmentCompiler / _PyMemoryState are modelled in Xfrm.v (mem_sync, mem_comb, mstep); lib.memory.Memory "
            "elaboration is validated only")
ASSUMPTIONS = ["clocks, resets and inserter controls are testbench-written signals not driven by the design",
               "single driver per bit (as enforced for legal designs); no combinational loops",
               "spec stream s: the spec engine (reset rise of an async domain only loads initial values) and the faithful "
               "engine coincide since the simulator repair 574e1db; both are compared with the code"]


# ------------------------------------------------------------------ generation of designs
CS_BASE = 1000      # late-bound signals: index CS_BASE + 3*domain_id + k (0 clk, 1 rst allow_reset_less, 2 rst strict)


class ShapeTab(list):
    """shapes by signal index; every late-bound signal is unsigned(1)"""
    def __getitem__(self, i):
        if isinstance(i, int) and i >= CS_BASE:
            return [1, False]
        return list.__getitem__(self, i)


class SigObjs(list):
    """signal objects by index; late-bound signals are created on demand from the domain names"""
    def __init__(self, sigs, names_by_id):
        list.__init__(self, sigs)
        self.names_by_id = names_by_id

    def __getitem__(self, i):
        if isinstance(i, int) and i >= CS_BASE:
            from amaranth.hdl import ClockSignal, ResetSignal
            d, k = divmod(i - CS_BASE, 3)
            nm = self.names_by_id[d]
            return ClockSignal(nm) if k == 0 else ResetSignal(nm, allow_reset_less=(k == 1))
        return list.__getitem__(self, i)


def case_shapes(case):
    return ShapeTab([[s[0], s[1]] for s in case["sigs"]])


def ser_value(v, sm, ids):
    """astser.ser_value plus the late-bound leaves"""
    from amaranth.hdl import _ast as A
    v = A.Value.cast(v)
    t = type(v)
    if t is A.ClockSignal or t is A.ResetSignal:
        if v.domain not in ids:
            ids[v.domain] = len(ids)
        k = 0 if t is A.ClockSignal else (1 if v.allow_reset_less else 2)
        return ["s", CS_BASE + 3 * ids[v.domain] + k]
    if t is A.Const:
        return ["c", v.value, len(v), bool(v.shape().signed)]
    if t is A.Signal:
        return ["s", sm.get(v)]
    if t is A.Operator:
        return ["o%d" % len(v.operands), v.operator] + [ser_value(o, sm, ids) for o in v.operands]
    if t is A.Slice:
        return ["sl", ser_value(v.value, sm, ids), v.start, v.stop]
    if t is A.Part:
        return ["pt", ser_value(v.value, sm, ids), ser_value(v.offset, sm, ids), v.width, v.stride]
    if t is A.Concat:
        return ["cat", [ser_value(p, sm, ids) for p in v.parts]]
    if t is A.SwitchValue:
        return ["sw", ser_value(v.test, sm, ids),
                [[None if ps is None else list(ps), ser_value(e, sm, ids)] for ps, e in v.cases]]
    raise ValueError(f"cannot serialise value of type {t.__name__}")


def ser_stmts(stmts, sm, ids):
    from amaranth.hdl import _ast as A
    out = []
    for st in stmts:
        t = type(st)
        if t is A.Assign:
            out.append(["as", ser_value(st.lhs, sm, ids), ser_value(st.rhs, sm, ids)])
        elif t is A.Switch:
            out.append(["swst", ser_value(st.test, sm, ids),
                        [[None if ps is None else list(ps), ser_stmts(body, sm, ids)] for ps, body, _ in st.cases]])
        else:
            raise ValueError(f"cannot serialise statement of type {t.__name__}")
    return out


def remap(t, m):
    k = t[0]
    if k == "c":
        return t
    if k == "s":
        return ["s", m[t[1]]]
    if k == "o1":
        return ["o1", t[1], remap(t[2], m)]
    if k == "o2":
        return ["o2", t[1], remap(t[2], m), remap(t[3], m)]
    if k == "sl":
        return ["sl", remap(t[1], m), t[2], t[3]]
    if k == "pt":
        return ["pt", remap(t[1], m), remap(t[2], m), t[3], t[4]]
    if k == "cat":
        return ["cat", [remap(p, m) for p in t[1]]]
    if k == "sw":
        return ["sw", remap(t[1], m), [[ps, remap(e, m)] for ps, e in t[2]]]
    raise ValueError(k)


class DGen:
    def __init__(self, rng, ndom=None, depth=None, thorough=False, f7=None, mem=False):
        self.r = rng
        r = rng
        self.mem = mem
        self.memlist = []
        self.memtb = []
        self.cs = r.random() < 0.35            # ClockSignal / ResetSignal leaves in this design
        self.wide_ctl = (not mem) or r.random() < 0.25
        self.design_ctl = r.random() < 0.2     # some controls are expressions over design state
        self.sigs = []            # [w, signed, init, reset_less]
        self.names = []
        self.doms = []            # {"name", "pos", "rst": 0 none / 1 sync / 2 async, "clk": idx, "rsti": idx|None}
        self.sync_name = r.random() < 0.25
        nd = ndom or r.choice((1, 2, 2, 3))
        for k in range(nd):
            rst = r.choice((0, 1, 1, 2, 2))
            if f7 is True and k == 0:
                rst = 2
            share = k > 0 and r.random() < 0.12      # two domains on one clock (and maybe one reset) signal
            d = {"name": "sync" if (k == 0 and self.sync_name) else "d%d" % k, "pos": r.random() < 0.65, "rst": rst,
                 "clk": self.doms[0]["clk"] if share else self.sig(1, False, 0, False, "clk%d" % k), "rsti": None}
            if rst:
                if share and self.doms[0]["rsti"] is not None and r.random() < 0.5:
                    d["rsti"] = self.doms[0]["rsti"]
                else:
                    d["rsti"] = self.sig(1, False, 0, False, "rst%d" % k)
            self.doms.append(d)
        self.naliases = r.choice((0, 1, 1, 2))
        self.f7 = f7
        # controls
        self.ctl = []
        for k in range(r.choice((1, 2, 3))):
            q = r.random()
            shape = (1, False) if (q < 0.8 or not self.wide_ctl) else ((2, False) if q < 0.9 else ((1, True) if q < 0.95 else (0, False)))
            self.ctl.append(self.sig(shape[0], shape[1], 0, False, "ctl%d" % k))
        self.inputs = []
        for k in range(r.choice((1, 2, 3))):
            w, sg = r.randrange(1, 5), r.random() < 0.25
            self.inputs.append(self.sig(w, sg, 0, False, "in%d" % k))
        self.tbsigs = list(range(len(self.sigs)))
        self.state = []
        self.comb_sigs = []
        self.owners = {}          # sig idx -> list of [lo, hi, path(tuple), domname]
        self.tree = self.node(depth if depth is not None else r.choice((0, 1, 1, 2)), (), True)

    def sig(self, w, sg, init, rl, name):
        self.sigs.append([w, sg, init, rl])
        self.names.append(name)
        return len(self.sigs) - 1

    def shapes(self):
        return ShapeTab([[s[0], s[1]] for s in self.sigs])

    def dom_id(self, name):
        names = [d["name"] for d in self.doms] + ["x%d" % k for k in range(self.naliases)] + ["zz"]
        return names.index(name) + 1

    def cs_leaves(self, names):
        """late-bound signals of the domains usable at a node (a few of them, some designs only)"""
        if not self.cs or not names:
            return []
        r = self.r
        out = []
        for nm in r.sample(names, min(len(names), 2)):
            k = r.choice((0, 0, 1, 1, 2 if r.random() < 0.3 else 1))
            out.append(CS_BASE + 3 * self.dom_id(nm) + k)
        return out

    def new_state(self, rl=None):
        r = self.r
        w, sg = r.randrange(1, 6), r.random() < 0.3
        init = G.rand_value(r, w, sg)
        if rl is None:
            rl = r.random() < 0.25
        i = self.sig(w, sg, init, rl, "q%d" % len(self.state))
        self.state.append(i)
        return i

    def expr(self, allowed, d=2):
        if not allowed:
            return ["c", self.r.randrange(0, 4), 2, False]
        g = G.Gen(self.r, [self.shapes()[i] for i in allowed], maxw=4, maxtotal=12)
        return remap(g.expr(self.r.choice((0, 1, 1, d))), allowed)

    def small_unsigned(self, allowed, maxw):
        g = G.Gen(self.r, [self.shapes()[i] for i in allowed], maxw=3, maxtotal=8)
        return remap(g.unsigned_small(1, maxw), allowed)

    def lhs(self, targets, allowed):
        """targets: list of (sig, lo, hi, whole)"""
        r = self.r
        i, lo, hi, whole = r.choice(targets)
        w = self.sigs[i][0]
        q = r.random()
        if not whole:
            a = r.randrange(lo, hi)
            b = r.randrange(a + 1, hi + 1)
            return ["sl", ["s", i], a, b]
        if q < 0.5:
            return ["s", i]
        if q < 0.75:
            a = r.randrange(0, w)
            b = r.randrange(a, w + 1)
            return ["sl", ["s", i], a, b]
        if q < 0.87:
            off = self.small_unsigned(allowed, 2)
            return ["pt", ["s", i], off, r.randrange(1, 3), r.choice((1, 1, 2))]
        others = [t for t in targets if t[3] and t[0] != i]
        if others:
            j = r.choice(others)[0]
            return ["cat", [["s", i], ["s", j]]]
        return ["s", i]

    def stmts(self, targets, allowed, depth, n):
        r = self.r
        out = []
        for _ in range(n):
            q = r.random()
            if depth > 0 and q < 0.25:
                body = self.stmts(targets, allowed, depth - 1, r.choice((1, 1, 2)))
                els = self.stmts(targets, allowed, depth - 1, 1) if r.random() < 0.5 else None
                out.append(["if", self.expr(allowed, 1), body, els])
            elif depth > 0 and q < 0.35:
                test = self.small_unsigned(allowed, 2)
                tw = G.pyshape(test, self.shapes())[0]
                if tw == 0:
                    test, tw = ["c", r.randrange(2), 1, False], 1
                pats = []
                for v in r.sample(range(1 << tw), min(1 << tw, r.choice((1, 2)))):
                    p = format(v, "b").rjust(tw, "0") if tw else ""
                    if tw and r.random() < 0.3:
                        k = r.randrange(tw)
                        p = p[:k] + "-" + p[k + 1:]
                    if p not in pats:
                        pats.append(p)
                cases = [[p, self.stmts(targets, allowed, depth - 1, 1)] for p in pats]
                if r.random() < 0.4:
                    cases.append([None, self.stmts(targets, allowed, depth - 1, 1)])
                out.append(["sw", test, cases])
            else:
                out.append(["as", self.lhs(targets, allowed), self.expr(allowed)])
        return out

    def node(self, depth, path, root):
        r = self.r
        domnames = [d["name"] for d in self.doms]
        aliases = ["x%d" % k for k in range(self.naliases)]
        # wrappers first (they decide which alias names may be used below)
        wr = []
        nwr = r.choice((0, 1, 1, 2, 2, 3, 4)) if not root else r.choice((0, 0, 1, 2))
        usable_alias = []
        for _ in range(nwr):
            wr.append(self.wrapper(root, domnames, aliases, usable_alias))
        renamed = set()
        for w in wr:
            if w[0] == "ren":
                renamed |= set(k for k, _ in w[1])
        usable = [a for a in aliases if a in renamed]
        return self.fill(depth, path, root, wr, domnames, usable)

    def wrapper(self, root, domnames, aliases, usable_alias):
        r = self.r
        q = r.random()
        names = domnames + aliases
        if q < 0.3 and not root:
            pairs = []
            for a in aliases:
                if r.random() < 0.8:
                    pairs.append([a, r.choice(domnames)])
            if len(domnames) > 1 and r.random() < 0.3:
                a, b = r.sample(domnames, 2)
                pairs.append([a, b])
            if not pairs:
                pairs.append([(aliases or domnames)[0], domnames[-1]])
            pairs = [p for p in pairs if p[0] != p[1]] or [["zz", domnames[0]]]
            if "sync" in domnames and len(domnames) > 1 and r.random() < 0.3:
                pairs = [["sync", r.choice([d for d in domnames if d != "sync"])]]     # DomainRenamer("name")
            return ["ren", pairs]
        kind = "rst" if q < 0.65 else "en"
        ctl = []
        for nme in names:
            if r.random() < 0.7:
                ctl.append([nme, self.control()])
        if not ctl:
            ctl.append([names[0], self.control()])
        if "sync" in names and r.random() < 0.3:
            ctl = [["sync", self.control()]]                                            # ResetInserter(ctl)
        return [kind, ctl]

    def control(self):
        r = self.r
        if self.design_ctl and self.state and r.random() < 0.4:
            e = self.expr(self.state + self.tbsigs, 1)
            if not self.wide_ctl or r.random() < 0.6:
                e = ["o1", "b", e]
            return e
        c = ["s", r.choice(self.ctl)]
        q = r.random()
        if q < 0.12 and len(self.ctl) > 1:
            a, b = r.sample(self.ctl, 2)
            c = ["o2", r.choice("&|"), ["s", a], ["s", b]]
        elif q < 0.18:
            c = ["o1", "~", c]
        elif q < 0.22:
            c = ["sl", c, 0, min(1, self.sigs[c[1]][0])]
        return c

    def fill(self, depth, path, root, wr, domnames, usable_alias):
        r = self.r
        # domain names as written in this node: alias names are legal if some renamer on the way up maps them;
        # aliases renamed at THIS node or any ancestor are fine
        anc_alias = list(getattr(self, "_anc_alias", []))
        here_alias = sorted(set(anc_alias) | set(usable_alias))
        st = []
        written = ["comb"] + domnames + here_alias
        syncnames = domnames + here_alias
        groups = r.choice((1, 2, 2, 3))
        picked = []
        for _ in range(groups):
            dn = r.choice(written)
            if dn in picked:
                continue
            picked.append(dn)
        entries = []
        for dn in picked:
            if dn == "comb":
                body = []
                for _ in range(r.choice((1, 1, 2))):
                    i = self.new_state(rl=False)
                    allowed = (self.tbsigs + [s for s in self.state if s not in self.comb_sigs and s != i]
                               + list(self.comb_sigs) + self.cs_leaves(syncnames))
                    self.comb_sigs.append(i)
                    self.owners[i] = [[0, self.sigs[i][0], path, "comb"]]
                    body += self.stmts([(i, 0, self.sigs[i][0], True)], allowed, 1, r.choice((1, 1, 2)))
                entries.append(["comb", body])
            else:
                targets = []
                for _ in range(r.choice((1, 2, 2, 3))):
                    rl = None
                    if self.f7 is False:
                        rl = False
                    i = self.new_state(rl)
                    w = self.sigs[i][0]
                    if w >= 2 and r.random() < 0.25:
                        cut = r.randrange(1, w)
                        targets.append((i, 0, cut, False))
                        self.owners[i] = [[0, cut, path, dn]]
                        self._split.append((i, cut, w))
                    else:
                        targets.append((i, 0, w, True))
                        self.owners[i] = [[0, w, path, dn]]
                # upper halves of split signals from elsewhere
                if self._split and r.random() < 0.7:
                    i, cut, w = self._split.pop(0)
                    if not any(t[0] == i for t in targets):
                        targets.append((i, cut, w, False))
                        self.owners[i].append([cut, w, path, dn])
                    else:
                        self._split.insert(0, (i, cut, w))
                entries.append([dn, targets])
        # sync bodies are generated after all targets exist so that expressions may read any signal
        for e in entries:
            if e[0] != "comb":
                allowed = self.tbsigs + self.state + self.cs_leaves(syncnames)
                e[1] = self.stmts(e[1], allowed, 2, r.choice((1, 2, 2, 3)))
        mems = []
        syncw = [d for d in written if d != "comb"]
        if self.mem and syncw and (not self.memlist or r.random() < 0.3):
            mems.append(self.new_memory(path, syncw))
        subs = []
        if depth > 0:
            old = anc_alias
            self._anc_alias = here_alias
            for k in range(r.choice((1, 1, 2))):
                subs.append(self.node(depth - 1, path + (k,), False))
            self._anc_alias = old
        return {"st": entries, "wr": wr, "subs": subs, "mems": mems}

    def new_memory(self, path, syncw):
        """a lib.memory.Memory with 1-2 write ports (one domain) and 1-2 read ports; port inputs are testbench signals"""
        r = self.r
        k = len(self.memlist)
        w = r.randrange(1, 5)
        depth = r.randrange(2, 6)
        aw = (depth - 1).bit_length()
        init = [r.randrange(0, 1 << w) for _ in range(r.randrange(0, depth + 1))]
        wd = r.choice(syncw)
        wports, rports = [], []
        for j in range(r.choice((1, 1, 2))):
            gran = r.choice([None] + [g for g in range(1, w + 1) if w % g == 0])
            enw = 1 if gran is None else w // gran
            a = self.sig(aw, False, 0, False, "m%dw%d_addr" % (k, j))
            d = self.sig(w, False, 0, False, "m%dw%d_data" % (k, j))
            e = self.sig(enw, False, 0, False, "m%dw%d_en" % (k, j))
            self.memtb += [a, d, e]
            wports.append({"dom": wd, "gran": gran, "addr": a, "data": d, "en": e})
        for j in range(r.choice((1, 2, 2))):
            rd = r.choice(["comb", wd, wd, r.choice(syncw)])
            a = self.sig(aw, False, 0, False, "m%dr%d_addr" % (k, j))
            d = self.sig(w, False, 0, False, "m%dr%d_data" % (k, j))
            self.memtb.append(a)
            self.state.append(d)
            self.owners[d] = [[0, w, path, rd]]
            e = None
            tr = []
            if rd != "comb":
                e = self.sig(1, False, 1, False, "m%dr%d_en" % (k, j))
                self.memtb.append(e)
                if rd == wd:
                    tr = [x for x in range(len(wports)) if r.random() < 0.5]
            rports.append({"dom": rd, "addr": a, "data": d, "en": e, "transp": tr})
        self.memlist.append({"w": w, "depth": depth, "init": init, "wports": wports, "rports": rports})
        return k

    _split = []
    _anc_alias = []


def make_design(rng, **kw):
    g = DGen.__new__(DGen)
    g._split = []
    g._anc_alias = []
    DGen.__init__(g, rng, **kw)
    return g


# ------------------------------------------------------------------ building with the real API
def build_stmts(m, dom, stmts, so):
    for s in stmts:
        if s[0] == "as":
            m.d[dom] += G.build(s[1], so).eq(G.build(s[2], so))
        elif s[0] == "if":
            with m.If(G.build(s[1], so)):
                build_stmts(m, dom, s[2], so)
            if s[3] is not None:
                with m.Else():
                    build_stmts(m, dom, s[3], so)
        elif s[0] == "sw":
            with m.Switch(G.build(s[1], so)):
                for pat, body in s[2]:
                    if pat is None:
                        with m.Default():
                            build_stmts(m, dom, body, so)
                    else:
                        with m.Case(pat):
                            build_stmts(m, dom, body, so)
        else:
            raise ValueError(s[0])


def build_node(case, node, so, root, wrapped):
    from amaranth.hdl import Module, ClockDomain, ResetInserter, EnableInserter, DomainRenamer
    m = Module()
    if root:
        for d in case["doms"]:
            cd = ClockDomain(d["name"], clk_edge="pos" if d["pos"] else "neg", reset_less=d["rst"] == 0,
                             async_reset=d["rst"] == 2)
            cd.clk = so[d["clk"]]
            if d["rst"]:
                cd.rst = so[d["rsti"]]
            m.domains += cd
    for dn, body in node["st"]:
        build_stmts(m, dn, body, so)
    for k, sub in enumerate(node["subs"]):
        m.submodules["u%d" % k] = build_node(case, sub, so, False, wrapped)
    for mi in node.get("mems", ()):
        m.submodules["m%d" % mi] = case_mems[id(so)][mi]
    e = m
    if wrapped:
        for w in node["wr"]:
            bare = len(w[1]) == 1 and w[1][0][0] == "sync"      # ResetInserter(ctl) / DomainRenamer("name") forms
            if w[0] == "ren":
                e = DomainRenamer(w[1][0][1] if bare else {a: b for a, b in w[1]})(e)
            else:
                ctl = G.build(w[1][0][1], so) if bare else {dn: G.build(c, so) for dn, c in w[1]}
                e = (ResetInserter if w[0] == "rst" else EnableInserter)(ctl)(e)
    return e


def make_signals(case):
    """signals in index order; the port signals of memories are the ones lib.memory creates"""
    from amaranth.hdl import Signal, Shape
    so = [Signal(Shape(w, bool(sg)), init=init, reset_less=bool(rl), name=nm)
          for (w, sg, init, rl), nm in zip(case["sigs"], case["names"])]
    mems = []
    if case.get("memlist"):
        from amaranth.lib.memory import Memory
        from amaranth.hdl import unsigned
        for md in case["memlist"]:
            mem = Memory(shape=unsigned(md["w"]), depth=md["depth"], init=md["init"])
            wps = []
            for wp in md["wports"]:
                p = mem.write_port(domain=wp["dom"], granularity=wp["gran"])
                wps.append(p)
                so[wp["addr"]], so[wp["data"]], so[wp["en"]] = p.addr, p.data, p.en
            for rp in md["rports"]:
                p = mem.read_port(domain=rp["dom"], transparent_for=tuple(wps[x] for x in rp["transp"]))
                so[rp["addr"]], so[rp["data"]] = p.addr, p.data
                if rp["en"] is not None:
                    so[rp["en"]] = p.en
            mems.append(mem)
        for sg_, (w, sgn, init, rl) in zip(so, case["sigs"]):
            if (len(sg_), bool(sg_.shape().signed), sg_.init, bool(sg_.reset_less)) != (w, bool(sgn), init, bool(rl)):
                raise ValueError("memory port signal differs from its declaration")
    ids = dom_ids(case)
    so = SigObjs(so, {v: k for k, v in ids.items()})
    case_mems[id(so)] = mems
    return so


case_mems = {}


def dom_ids(case):
    ids = {"comb": 0}
    for k, d in enumerate(case["doms"]):
        ids[d["name"]] = k + 1
    for nm in case["alias"]:
        ids[nm] = len(ids)
    return ids


def ser_fragment(frag, sm, ids):
    """[[domid, [stmt terms]]...], [subs]"""
    st = []
    for dn, stmts in frag.statements.items():
        if dn not in ids:
            ids[dn] = len(ids)
        st.append([ids[dn], ser_stmts(stmts, sm, ids)])
    from amaranth.hdl._mem import MemoryInstance
    mems, subs = [], []
    for sf, _n, _s in frag.subfragments:
        if isinstance(sf, MemoryInstance):
            for pt in list(sf._write_ports) + list(sf._read_ports):
                if pt._domain not in ids:
                    ids[pt._domain] = len(ids)
            shp = sf._data.shape
            mems.append({"w": shp.width, "sg": bool(shp.signed), "depth": sf._data.depth, "init": [int(v) for v in sf._data.init],
                         "wports": [[ids[pt._domain], ser_value(pt._addr, sm, ids), ser_value(pt._data, sm, ids),
                                     ser_value(pt._en, sm, ids)] for pt in sf._write_ports],
                         "rports": [[ids[pt._domain], ser_value(pt._addr, sm, ids), ser_value(pt._data, sm, ids),
                                     ser_value(pt._en, sm, ids), list(pt._transparent_for)] for pt in sf._read_ports]})
        else:
            subs.append(ser_fragment(sf, sm, ids))
    return {"st": st, "mems": mems, "subs": subs}


def elaborate(case, wrapped):
    from amaranth.hdl._ir import Fragment
    so = make_signals(case)
    top = build_node(case, case["tree"], so, True, wrapped)
    frag = Fragment.get(top, None)
    sm = astser.SigMap(so)
    ser = ser_fragment(frag, sm, dom_ids(case))
    if len(sm.signals) != len(so):
        raise ValueError("foreign signal in elaborated design")
    return ser


# ------------------------------------------------------------------ integer encoding (mirrors RunC03.enc_*)
OP1C = {o: i for i, o in enumerate(G.OP1)}
OP2C = {o: i for i, o in enumerate(G.OP2)}


def enc_pats(ps):
    if ps is None:
        return [0]
    out = [1, len(ps)]
    for p in ps:
        out.append(len(p))
        out += [{"0": 0, "1": 1, "-": 2}[c] for c in p]
    return out


def enc_expr(t, shapes):
    k = t[0]
    if k == "c":
        return [0, t[1], t[2], int(bool(t[3]))]
    if k == "s":
        return [1, t[1], shapes[t[1]][0], int(bool(shapes[t[1]][1]))]
    if k == "o1":
        return [2, OP1C[t[1]]] + enc_expr(t[2], shapes)
    if k == "o2":
        return [3, OP2C[t[1]]] + enc_expr(t[2], shapes) + enc_expr(t[3], shapes)
    if k == "sl":
        return [4, t[2], t[3]] + enc_expr(t[1], shapes)
    if k == "pt":
        return [5, t[3], t[4]] + enc_expr(t[1], shapes) + enc_expr(t[2], shapes)
    if k == "cat":
        return [6, len(t[1])] + [x for p in t[1] for x in enc_expr(p, shapes)]
    if k == "sw":
        out = [7, len(t[2])] + enc_expr(t[1], shapes)
        for ps, e in t[2]:
            out += enc_pats(ps) + enc_expr(e, shapes)
        return out
    raise ValueError(k)


def enc_stmt(s, shapes):
    if s[0] == "as":
        return [8] + enc_expr(s[1], shapes) + enc_expr(s[2], shapes)
    if s[0] == "swst":
        out = [9, len(s[2])] + enc_expr(s[1], shapes)
        for ps, body in s[2]:
            out += enc_pats(ps) + [len(body)]
            for b in body:
                out += enc_stmt(b, shapes)
        return out
    raise ValueError(s[0])


def enc_frag(f, shapes):
    out = [10, len(f["st"])]
    for d, stmts in f["st"]:
        out += [d, len(stmts)]
        for s in stmts:
            out += enc_stmt(s, shapes)
    out.append(len(f.get("mems", ())))
    for m in f.get("mems", ()):
        out += [11, len(m["wports"])]
        for d, a, dt, en in m["wports"]:
            out += [d] + enc_expr(a, shapes) + enc_expr(dt, shapes) + enc_expr(en, shapes)
        out.append(len(m["rports"]))
        for d, a, dt, en, tr in m["rports"]:
            out += [d] + enc_expr(a, shapes) + enc_expr(dt, shapes) + enc_expr(en, shapes) + [len(tr)] + list(tr)
    out.append(len(f["subs"]))
    for sf in f["subs"]:
        out += enc_frag(sf, shapes)
    return out


# ------------------------------------------------------------------ events
def norm_val(v, w, sg):
    v &= (1 << w) - 1
    if sg and w and v >> (w - 1):
        v -= 1 << w
    return v


def gen_events(rng, case, n):
    """each event: list of [sig, value]; values are what the signal holds afterwards"""
    r = rng
    cur = {i: case["sigs"][i][2] for i in case["tb"]}
    toggles = []
    for d in case["doms"]:
        for i in (d["clk"], d["rsti"]):
            if i is not None and i not in toggles:      # domains may share a clock / reset signal
                toggles.append(i)
    others = [i for i in case["tb"] if i not in toggles]
    evs = []
    block = []
    while len(evs) < n:
        if not block:
            k = len(toggles)
            block = list(range(1 << k)) if k <= 4 else [r.randrange(1 << k) for _ in range(16)]
            r.shuffle(block)
            if r.random() < 0.5:          # bias: plain clocking phases
                block = [1 << r.randrange(k) for _ in range(6)] + block[:6]
        sub = block.pop()
        ev = []
        for b, i in enumerate(toggles):
            if (sub >> b) & 1:
                cur[i] ^= 1
                ev.append([i, cur[i]])
            elif r.random() < 0.05:
                ev.append([i, cur[i]])         # write without change
        for i in others:
            if r.random() < 0.3:
                w, sg = case["sigs"][i][0], case["sigs"][i][1]
                v = norm_val(r.randrange(0, 1 << w) if w else 0, w, sg)
                if i in case["ctlsigs"] and w == 1 and not sg:
                    v = 1 if r.random() < 0.6 else 0
                cur[i] = v
                ev.append([i, v])
        if not ev:
            ev.append([toggles[0], cur[toggles[0]]])
        evs.append(ev)
    return evs


# ------------------------------------------------------------------ case construction
def final_owner_dom(case, path, dn):
    """domain id after the renamers applied on the way from the node at `path` up to the root"""
    nodes = [case["tree"]]
    for k in path:
        nodes.append(nodes[-1]["subs"][k])
    for node in reversed(nodes):
        for w in node["wr"]:
            if w[0] == "ren":
                m = {a: b for a, b in w[1]}
                dn = m.get(dn, dn)
    return dom_ids(case).get(dn, -1)


def make_case(kind, rng, nev=0, **kw):
    g = make_design(rng, **kw)
    case = {"k": kind, "sigs": g.sigs, "names": g.names, "doms": g.doms, "alias": ["x%d" % k for k in range(g.naliases)] + ["zz"],
            "tree": g.tree, "tb": g.tbsigs + g.memtb, "ctlsigs": g.ctl, "reads": g.state, "memlist": g.memlist,
            "flags": {"cs": g.cs, "wide": g.wide_ctl and bool(g.memlist), "dctl": g.design_ctl,
                      "share": len(set(d["clk"] for d in g.doms)) < len(g.doms), "syncname": g.sync_name}}
    finish_case(case, g.owners, rng, nev)
    return case


def finish_case(case, owners, rng, nev):
    case["own"] = {str(i): [[lo, hi, final_owner_dom(case, tuple(path), dn)] for lo, hi, path, dn in ow]
                   for i, ow in owners.items()}
    case["ev"] = gen_events(rng, case, nev) if nev else []
    # the model is given the control values the real inserters receive (constants as Const() stores them)
    so = make_signals(case)
    sm, ids = astser.SigMap(so), dom_ids(case)

    def norm_ctl(node):
        for w in node["wr"]:
            if w[0] != "ren":
                w[1] = [[dn, ser_value(G.build(ct, so), sm, ids)] for dn, ct in w[1]]
        for sub in node["subs"]:
            norm_ctl(sub)
    norm_ctl(case["tree"])
    case["orig"] = elaborate(case, False)


FIXED = {
    # one async domain, one sync domain; a split signal; reset-less signal only in the sync domain
    "sigs": [[1, False, 0, False], [1, False, 0, False], [1, False, 0, False], [1, False, 0, False],
             [1, False, 0, False], [1, False, 0, False], [3, False, 0, False],
             [4, False, 5, False], [4, False, 9, False], [3, True, -2, True], [4, False, 3, False], [4, False, 0, False]],
    "names": ["clk0", "rst0", "clk1", "rst1", "ctl0", "ctl1", "in0", "q0", "q1", "q2", "q3", "q4"],
    "doms": [{"name": "d0", "pos": True, "rst": 2, "clk": 0, "rsti": 1},
             {"name": "d1", "pos": False, "rst": 1, "clk": 2, "rsti": 3}],
    "alias": ["x0", "zz"], "tb": [0, 1, 2, 3, 4, 5, 6], "ctlsigs": [4, 5], "reads": [7, 8, 9, 10, 11],
}


def fixed_case(kind, stack, rng, nev):
    """top: comb q4 = q0 ^ in0;  sub u0 (wrapped by `stack`): d0: q0 += 1, q1[0:2] = in0;  d1: q1[2:4] = q0, q2 -= 1;
    x0: q3 = q3 + in0 (alias, renamed by the stack when it contains a renamer, else by a final renamer)"""
    import copy
    c = copy.deepcopy(FIXED)
    c["k"] = kind
    sub = {"st": [["d0", [["as", ["s", 7], ["o2", "+", ["s", 7], ["c", 1, 1, False]]],
                          ["if", ["s", 6], [["as", ["sl", ["s", 8], 0, 2], ["s", 6]]], None]]],
                  ["d1", [["as", ["sl", ["s", 8], 2, 4], ["s", 7]],
                          ["as", ["s", 9], ["o2", "-", ["s", 9], ["c", 1, 1, False]]]]],
                  ["x0", [["as", ["s", 10], ["o2", "+", ["s", 10], ["s", 6]]]]]],
           "wr": list(stack) + [["ren", [["x0", "d1"]]]], "subs": []}
    c["tree"] = {"st": [["comb", [["as", ["s", 11], ["o2", "^", ["s", 7], ["s", 6]]]]]], "wr": [], "subs": [sub]}
    owners = {7: [[0, 4, (0,), "d0"]], 8: [[0, 2, (0,), "d0"], [2, 4, (0,), "d1"]], 9: [[0, 3, (0,), "d1"]],
              10: [[0, 4, (0,), "x0"]], 11: [[0, 4, (), "comb"]]}
    finish_case(c, owners, rng, nev)
    return c


def wrapper_alphabet():
    c0, c1 = ["s", 4], ["s", 5]
    return [["rst", [["d0", c0], ["d1", c0], ["x0", c0]]],
            ["rst", [["d1", c1]]],
            ["en", [["d0", c1], ["d1", c1], ["x0", c1]]],
            ["en", [["d0", c0]]],
            ["ren", [["x0", "d0"]]],
            ["ren", [["d0", "d1"]]]]



# ------------------------------------------------------------------ domain scoping over the hierarchy (kind d)
DS_NAMES = ["a", "b", "c"]


def gen_dtree(rng, depth, top=True):
    """a fragment: domains it defines itself (names 0..2; the top defines all three), late-bound uses in its own comb
    statements [(kind, name)] (kind 0 ClockSignal, 1 ResetSignal), subfragments"""
    defs = [0, 1, 2] if top else [n for n in range(3) if rng.random() < 0.35]
    rng.shuffle(defs)
    uses = [[rng.randrange(2), rng.randrange(3)] for _ in range(rng.choice((0, 1, 1, 2, 3)))]
    nsub = 0 if depth == 0 else rng.choice((0, 1, 1, 2, 2, 3))
    return {"defs": defs, "uses": uses, "subs": [gen_dtree(rng, depth - 1, False) for _ in range(nsub)]}


def dscope_cases(rng, n):
    out = []
    # directed: the parent's use after one / two subfragments that redefine the name (the last one, the first one, a
    # grandchild), for both kinds
    for kind in (0, 1):
        leaf = lambda defs: {"defs": defs, "uses": [[kind, 0]], "subs": []}
        for subs in ([leaf([0])], [leaf([]), leaf([0])], [leaf([0]), leaf([])],
                     [{"defs": [], "uses": [], "subs": [leaf([0])]}], [leaf([0]), leaf([0, 1])]):
            out.append({"k": "d", "tree": {"defs": [0, 1, 2], "uses": [[kind, 0], [kind, 1]], "subs": subs}})
    for _ in range(n):
        out.append({"k": "d", "tree": gen_dtree(rng, rng.choice((1, 2, 2, 3)))})
    return out


def dscope_run(case):
    """which ClockDomain object each late-bound use follows, observed by pulsing every clk / rst in a simulation"""
    from amaranth.hdl import Module, Signal, ClockDomain, ClockSignal, ResetSignal
    from amaranth.sim import Simulator
    cds, probes = [], []

    def build(node):
        m = Module()
        for name in node["defs"]:
            cd = ClockDomain(DS_NAMES[name])
            m.domains += cd
            cds.append(cd)
        for kind, name in node["uses"]:
            p = Signal(name=f"p{len(probes)}")
            probes.append((p, kind))
            m.d.comb += p.eq(ClockSignal(DS_NAMES[name]) if kind == 0 else ResetSignal(DS_NAMES[name]))
        subs = [build(sub) for sub in node["subs"]]     # pre-order ids: own definitions first
        for sm in subs:
            m.submodules += sm
        return m
    top = build(case["tree"])
    hits = [[] for _ in probes]
    sim = Simulator(top)

    async def tb(ctx):
        for j, cd in enumerate(cds):
            for kind, sig in ((0, cd.clk), (1, cd.rst)):
                ctx.set(sig, 1)
                for i, (p, pk) in enumerate(probes):
                    if pk == kind and ctx.get(p) == 1:
                        hits[i].append(j)
                ctx.set(sig, 0)
    sim.add_testbench(tb)
    sim.run()
    return [h[0] if len(h) == 1 else (-1 if not h else -2) for h in hits]


def dscope_term(tree):
    nid = [0]

    def go(node):
        defs = []
        for name in node["defs"]:
            defs.append(f"({name}%nat, {nid[0]}%nat)")
            nid[0] += 1
        uses = "; ".join(f"{name}%nat" for _, name in node["uses"])
        subs = "; ".join(go(sub) for sub in node["subs"])
        return f"(DN [{'; '.join(defs)}] [{uses}] [{subs}])"
    return go(tree)


def dscope_depth(node):
    return 1 + max([dscope_depth(x) for x in node["subs"]], default=0)


def dscope_shadows(node, top=True):
    return (not top and bool(node["defs"])) or any(dscope_shadows(x, False) for x in node["subs"])


def gen_cases(tier, seed):
    rng = random.Random(seed * 7919 + 3)
    thorough = tier == "thorough"
    cases = []
    alpha = wrapper_alphabet()
    import itertools
    stacks = [()]
    for n in (1, 2):
        stacks += list(itertools.product(range(len(alpha)), repeat=n))
    longer = []
    for n in (3, 4):
        allp = list(itertools.product(range(len(alpha)), repeat=n))
        longer += (allp if n == 3 else rng.sample(allp, 400)) if thorough else rng.sample(allp, 40 if n == 3 else 60)
    for st in stacks + longer:
        stack = [alpha[i] for i in st]
        cases.append(fixed_case("x", stack, rng, 0))
        if len(st) <= 2 or rng.random() < 0.5:
            cases.append(fixed_case("t", stack, rng, 40))
    nrand = 1400 if thorough else 420
    nev = 80 if thorough else 40
    for k in range(nrand):
        q = k % 10
        if q < 3:
            cases.append(make_case("x", rng))
        elif q < 4:
            cases.append(make_case("c", rng) if k % 20 == 3 else make_case("x", rng, mem=True))
        elif q < 6:
            cases.append(make_case("t", rng, nev=rng.choice((12, nev, nev))))
        elif q < 8:
            cases.append(make_case("m", rng, nev=rng.choice((12, nev, nev)), mem=True))
        elif q < 9:
            cases.append(make_case("s", rng, nev=nev, f7=False))
        else:
            cases.append(make_case("s", rng, nev=nev, f7=(True if k % 20 == 9 else None)))
    # directed: transformer / prepare errors compared on the exception class with the faithful model
    for v in range(3):
        for kind in ("x", "m"):
            c = wide_case(v, rng)
            c["k"] = kind
            cases.append(c)
    for strict_on_resetless in (True, False):
        cases.append(late_bound_case(strict_on_resetless, rng))
    # spec-stream cases of a LISTED finding only (an unlisted id would be an ordinary violation)
    import common as C
    if any(f.get("id") == WIDE and f.get("property") == ID and f.get("status") == "open" for f in C.load_known_findings()):
        for v in range(3):
            cases.append(wide_case(v, rng))
    cases += dscope_cases(rng, 600 if thorough else 150)
    return cases


def late_bound_case(strict_on_resetless, rng):
    """q counts in x0 (renamed to d1); p samples ClockSignal(x0), ResetSignal(x0, allow_reset_less) and ResetSignal(d0):
    d0 is reset-less in the first variant, so resolving the strict ResetSignal raises DomainError"""
    c = {"k": "t",
         "sigs": [[1, False, 0, False], [1, False, 0, False], [1, False, 0, False], [3, False, 0, False],
                  [3, False, 2, False], [3, False, 0, False]] if not strict_on_resetless else
                 [[1, False, 0, False], [1, False, 0, False], [1, False, 0, False], [3, False, 0, False],
                  [3, False, 2, False], [3, False, 0, False]],
         "names": ["clk0", "clk1", "rst", "in0", "q", "p"],
         "doms": [{"name": "d0", "pos": True, "rst": 0 if strict_on_resetless else 1, "clk": 0,
                   "rsti": None if strict_on_resetless else 2},
                  {"name": "d1", "pos": False, "rst": 2 if strict_on_resetless else 0, "clk": 1,
                   "rsti": 2 if strict_on_resetless else None}],
         "alias": ["x0", "zz"], "tb": [0, 1, 2, 3], "ctlsigs": [], "reads": [4, 5], "memlist": [],
         "flags": {"cs": True}}
    x0 = 3          # domain ids: d0 1, d1 2, x0 3
    cs = lambda d, k: ["s", CS_BASE + 3 * d + k]
    sub = {"st": [["x0", [["as", ["s", 4], ["o2", "+", ["s", 4], ["s", 3]]]]],
                  ["comb", [["as", ["s", 5], ["cat", [cs(x0, 0), cs(x0, 1), cs(1, 2)]]]]]],
           "wr": [["ren", [["x0", "d1"]]]], "mems": [], "subs": []}
    c["tree"] = {"st": [], "wr": [], "mems": [], "subs": [sub]}
    finish_case(c, {4: [[0, 3, (0,), "x0"]], 5: [[0, 3, (0,), "comb"]]}, rng, 16)
    return c


def wide_case(v, rng):
    """EnableInserter with a control that is not unsigned(1) over a memory with a sync read port, then another
    transformer (v = 0, 1) or only the simulator's own DomainLowerer (v = 2)"""
    cshape = [[2, False], [1, True], [2, False]][v]
    c = {"k": "a",
         "sigs": [[1, False, 0, False], [1, False, 0, False], cshape + [0, False], [1, False, 0, False],
                  [1, False, 0, False], [4, False, 0, False], [1, False, 0, False], [1, False, 0, False],
                  [4, False, 0, False], [1, False, 1, False]],
         "names": ["clk0", "rst0", "ctl0", "ctl1", "w_addr", "w_data", "w_en", "r_addr", "r_data", "r_en"],
         "doms": [{"name": "d0", "pos": True, "rst": 1, "clk": 0, "rsti": 1}], "alias": ["zz"],
         "tb": [0, 1, 2, 3, 4, 5, 6, 7, 9], "ctlsigs": [2, 3], "reads": [8],
         "memlist": [{"w": 4, "depth": 2, "init": [5],
                      "wports": [{"dom": "d0", "gran": None, "addr": 4, "data": 5, "en": 6}],
                      "rports": [{"dom": "d0", "addr": 7, "data": 8, "en": 9, "transp": [0]}]}]}
    wr = [["en", [["d0", ["s", 2]]]]] + ([["rst", [["d0", ["s", 3]]]]] if v < 2 else [])
    c["tree"] = {"st": [], "wr": [], "mems": [], "subs": [{"st": [], "wr": wr, "mems": [0], "subs": []}]}
    finish_case(c, {8: [[0, 4, (0,), "d0"]]}, rng, 12)
    return c


# ------------------------------------------------------------------ implementation side
def collect_chunks(frag, sm):
    from amaranth.hdl._xfrm import LHSMaskCollector
    out = []
    for dn, stmts in frag.statements.items():
        lm = LHSMaskCollector()
        lm.visit_stmt(stmts)
        masks = {id(s): mk for s, mk in lm.masks()}
        per = {}
        order = []
        for s, mk in lm.masks():
            order.append(s)
            per[id(s)] = []
        for s, a, b in lm.chunks():
            per[id(s)] += [a, -1 if b is None else b]
        for s in order:
            out += [sm.get(s), masks[id(s)]] + per[id(s)]
    for sf, _n, _s in frag.subfragments:
        out += collect_chunks(sf, sm)
    return out


EXC = {"AssertionError": 1, "DomainError": 2}


def run_impl(case):
    """[1, ...] or [-1, code of the exception class] (x, t, s, m, a); c has no tag"""
    if case["k"] == "c":
        return run_impl_inner(case)
    try:
        out = [1] + run_impl_inner(case)
    except Exception as e:
        out = [-1, EXC.get(type(e).__name__, 9)]
    if case["k"] == "s" and out[0] == 1:      # compared with 1 :: faithful trace ++ spec trace
        out = out + out[1:]
    if case["k"] == "a":                      # compared with faithful answer ++ spec answer
        out = out + out
    return out


def run_impl_inner(case):
    from amaranth.hdl import Cat
    from amaranth.hdl._ir import Fragment
    k = case["k"]
    if k == "d":
        return dscope_run(case)
    shapes = case_shapes(case)
    if k == "x":
        return enc_frag(elaborate(case, True), shapes)
    if k == "c":
        so = make_signals(case)
        frag = Fragment.get(build_node(case, case["tree"], so, True, False), None)
        return collect_chunks(frag, astser.SigMap(so))
    from amaranth.sim import Simulator
    so = make_signals(case)
    top = build_node(case, case["tree"], so, True, True)
    sim = Simulator(top)
    rows = []
    reads = [so[i] for i in case["reads"]]
    if k in ("m", "a"):  # every row of every memory (pre-order of the hierarchy) after the signals
        for mem, md in zip(case_mems[id(so)], case["memlist"]):
            reads += [mem.data[a] for a in range(md["depth"])]

    async def tb(ctx):
        rows.extend(ctx.get(s) for s in reads)
        for ev in case["ev"]:
            if True:
                bits, off = 0, 0
                for i, v in ev:
                    w = case["sigs"][i][0]
                    bits |= (v & ((1 << w) - 1)) << off
                    off += w
                ctx.set(Cat(*[so[i] for i, _ in ev]), bits)
            rows.extend(ctx.get(s) for s in reads)
    sim.add_testbench(tb)
    sim.run()
    return [int(v) for v in rows]


# ------------------------------------------------------------------ model side
def coq_tab(case):
    return "[" + "; ".join(f"SD {z(w)} {blit(sg)} {z(init)} {blit(rl)}" for w, sg, init, rl in case["sigs"]) + "]"


def coq_doms(case):
    out = ["DC 0 true None false"]
    for d in case["doms"]:
        rst = "None" if d["rsti"] is None else f"(Some {d['rsti']}%nat)"
        out.append(f"DC {d['clk']}%nat {blit(d['pos'])} {rst} {blit(d['rst'] == 2)}")
    return "[" + "; ".join(out) + "]"


def coq_entries(st, shapes):
    return "[" + "; ".join(f"({d}%nat, {astser.coq_stmts(stmts, shapes)})" for d, stmts in st) + "]"


def coq_wrapper(w, ids, shapes):
    if w[0] == "ren":
        return "WRename [" + "; ".join(f"({ids[a]}%nat, {ids[b]}%nat)" for a, b in w[1]) + "]"
    ctl = "; ".join(f"({ids[dn]}%nat, {G.coq_expr(c, shapes)})" for dn, c in w[1])
    return ("WReset [" if w[0] == "rst" else "WEnable [") + ctl + "]"


def coq_tree(node, orig, ids, shapes):
    wr = "[" + "; ".join(coq_wrapper(w, ids, shapes) for w in node["wr"]) + "]"
    subs = "[" + "; ".join(coq_tree(s, o, ids, shapes) for s, o in zip(node["subs"], orig["subs"])) + "]"
    mems = "[" + "; ".join(coq_mem(m, shapes) for m in orig.get("mems", ())) + "]"
    return f"(FT {coq_entries(orig['st'], shapes)} {mems} {wr} {subs})"


def coq_mem(m, shapes):
    wps = "; ".join(f"WP {d}%nat {G.coq_expr(a, shapes)} {G.coq_expr(dt, shapes)} {G.coq_expr(en, shapes)}"
                    for d, a, dt, en in m["wports"])
    rps = "; ".join(f"RP {d}%nat {G.coq_expr(a, shapes)} {G.coq_expr(dt, shapes)} {G.coq_expr(en, shapes)} "
                    "[" + "; ".join(f"{t}%nat" for t in tr) + "]" for d, a, dt, en, tr in m["rports"])
    return f"(MI (Sh {z(m['w'])} {blit(m['sg'])}) {z(m['depth'])} {zlist(m['init'])} [{wps}] [{rps}])"


def all_entries(orig):
    out = [stmts for _d, stmts in orig["st"]]
    for s in orig["subs"]:
        out += all_entries(s)
    return out


def coq_term(case):
    if case["k"] == "d":
        return f"(1 :: k_domscope {dscope_term(case['tree'])})"
    shapes = case_shapes(case)
    ids = dom_ids(case)
    k = case["k"]
    if k == "c":
        return "(" + " ++ ".join(f"k_chunks {coq_tab(case)} {astser.coq_stmts(st, shapes)}"
                                 for st in all_entries(case["orig"])) + " ++ [])"
    tree = coq_tree(case["tree"], case["orig"], ids, shapes)
    if k == "x":
        return f"(k_xfrm_cs {CS_BASE} {coq_tab(case)} {tree})"
    reads = "[" + "; ".join(f"{i}%nat" for i in case["reads"]) + "]"
    evs = "[" + "; ".join("[" + "; ".join(f"({i}%nat, {z(v)})" for i, v in ev) + "]" for ev in case["ev"]) + "]"
    args = f"{coq_tab(case)} {coq_doms(case)} {tree} {reads} {evs}"
    if k == "a":     # faithful answer, then the SPEC answer: the wrappers never raise (memory designs without late-bound signals)
        return f"(k_mtrace_cs {CS_BASE} {len(case['doms'])} {args} ++ 1 :: k_mtrace {args})"
    fn = {"t": "k_trace_cs", "s": "k_trace_both", "m": "k_mtrace_cs"}[k]
    return f"({fn} {CS_BASE} {len(case['doms'])} {args})"


# ------------------------------------------------------------------ reporting
def wr_sig(node):
    s = "".join({"rst": "R", "en": "E", "ren": "N"}[w[0]] for w in node["wr"])
    subs = ",".join(wr_sig(x) for x in node["subs"])
    return s + ("(" + subs + ")" if subs else "")


def classify(c):
    if c["k"] == "d":
        return f"d:depth={dscope_depth(c['tree'])}:shadow={int(dscope_shadows(c['tree']))}"
    kinds = "".join("nsa"[d["rst"]] + ("+" if d["pos"] else "-") for d in c["doms"])
    nwr = sum(1 for ch in wr_sig(c["tree"]) if ch in "REN")
    mem = ":mem" if c.get("memlist") else ""
    fl = c.get("flags", {})
    tags = "".join(":" + t for t in ("cs", "wide", "dctl", "share", "syncname") if fl.get(t))
    return f"{c['k']}:doms={kinds}:wrappers={min(nwr, 6)}{mem}{tags}"


def nontrivial(c, obs):
    if not isinstance(obs, list) or not obs:
        return False
    if c["k"] == "d":
        return obs[0] == 1 and len(set(obs[1:])) >= 2 and dscope_shadows(c["tree"])
    if c["k"] == "x":
        return obs[0] == 1 and any(ch in "REN" for ch in wr_sig(c["tree"]))
    if c["k"] == "c":
        return len(obs) > 0
    if obs[0] != 1:
        return False
    obs = obs[1:]
    if c["k"] in ("s", "a"):
        obs = obs[:len(obs) // 2]
    n = len(c["reads"]) + (sum(m["depth"] for m in c.get("memlist", ())) if c["k"] in ("m", "a") else 0)
    rows = [obs[i:i + n] for i in range(0, len(obs), n)]
    if c["k"] in ("m", "a"):   # some memory row changes during the trace
        k0 = len(c["reads"])
        return any(r[k0:] != rows[0][k0:] for r in rows)
    return any(r != rows[0] for r in rows)


def first_divergence(c, obs, model):
    n = len(c["reads"])
    for j, (a, b) in enumerate(zip(obs, model)):
        if a != b:
            return j // n, c["reads"][j % n], a ^ b
    return None


def known_finding(c, obs, model):
    """Only the wide-enable-control finding has a filter (and only for its own case kind `a`).  The former F7 filter is
    gone: the simulator was repaired, the s stream (faithful trace ++ spec trace) must now agree exactly."""
    if c["k"] == "a":
        # the faithful model reproduces the AssertionError exactly; the spec (no exception) answer follows it
        model = list(model)
        if list(obs[:2]) == [-1, 1] and model[:2] == [-1, 1] and len(model) > 2 and model[2] == 1:
            return WIDE
        return None
    return None


def shrink(c, obs, model):
    if c["k"] != "t" or len(obs) != len(model) or obs[0] != 1 or model[0] != 1:
        return c, obs, model      # only plain traces are shrunk
    fd = first_divergence(c, obs[1:], list(model)[1:])
    if fd is None:
        return c, obs, model
    step = fd[0]
    n = len(c["reads"])
    c2 = dict(c)
    c2["ev"] = c["ev"][:step]
    return c2, obs[:1 + (step + 1) * n], list(model)[:1 + (step + 1) * n]


def explain(c):
    if c["k"] == "d":
        return ("hierarchy of modules; each node defines ClockDomains named by `defs` (a/b/c; ids in pre-order), and drives "
                "one probe per entry of `uses` with ClockSignal(name) (kind 0) or ResetSignal(name) (kind 1); observed = for "
                "each probe (pre-order) the id of the ClockDomain whose clk / rst it follows in a simulation")
    return ("signals " + ", ".join(f"{nm}:{'s' if s[1] else 'u'}{s[0]} init={s[2]}{' reset_less' if s[3] else ''}"
                                   for nm, s in zip(c["names"], c["sigs"]))
            + "; domains " + ", ".join(f"{d['name']}({'pos' if d['pos'] else 'neg'},{['no', 'sync', 'async'][d['rst']]} reset)"
                                       for d in c["doms"])
            + "; wrappers " + wr_sig(c["tree"]) + "; observed = values of " + ", ".join(c["names"][i] for i in c["reads"])
            + " initially and after each event (event = list of [signal index, new value] written with one ctx.set)")

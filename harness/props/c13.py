"""C13 — asynchronous FIFOs are safe under every interleaving of their clocks."""
import collections, itertools, random
from common import z, zlist, blit

ID = "C13"
LEVEL = "proof"
PROPS_FILE = "C13.v"
RUN_MODULE = "RunC13"
TRANSLATOR_UNITS = ["asyncfifo"]
SHARD = 700
F4 = "F4-asyncfifo-depth1-elaborate"
# The text of C13 quantifies over clock interleavings and strobe/data sequences only, not over the domains' resets.
# On a history containing a reset the model-vs-implementation comparison of every output stays a verdict, but a
# divergence between the strict specification monitor and that (common) trace is an OBSERVATION, never a verdict.
# Observation classes (semantics under which the monitor accepts the run; witnesses: the *_refuted theorems of C13.v):
O_SHORT = "wreset-too-short"                 # write-domain reset shorter than the flush pattern leaves stale pointers
O_BUFREG = "buffered-wreset-keeps-entry"     # AsyncFIFOBuffered output stage is not cleared by a write-domain reset
O_RRST = "buffered-rreset-drops-entry"       # AsyncFIFOBuffered loses entries on a read-domain reset
O_OTHER = "other"
OBS_TEXT = {
    O_SHORT: "a write-domain reset episode shorter than 1 write edge + 3 read edges + 2 write edges leaves stale "
             "pointers (r_level above depth / garbage readable); longer episodes are proved to recover",
    O_BUFREG: "AsyncFIFOBuffered keeps its output-stage entry (r_rdy/r_data, registered r_level) across a write-domain reset",
    O_RRST: "AsyncFIFOBuffered loses the entry in its output stage on a read-domain reset",
    O_OTHER: "strict monitor and common trace diverge after a reset in a way none of the three classes explains",
}
RULE = ("real AsyncFIFO/AsyncFIFOBuffered, domains 'read'/'write' declared by hand, clocks driven from a testbench by "
        "ctx.set(Cat(clk_w, clk_r), bits) through event words over {W,R,WR} (both clocks low between events), inputs "
        "(w_en, w_data, r_en, write-domain rst, read-domain rst) set before each edge, all six outputs read after every "
        "event and compared with the Coq model trace (vm_compute) AND with a Python deque monitor (w_rdy while depth "
        "entries held, r_rdy -> r_data = oldest unread, levels in 0..depth, drain/visibility bounds of the theorems after "
        "writing stops); the monitor's verdict on the reset-free part of a history (all of it, or the prefix before the "
        "first reset event) is the last integer of the observation and the model side says 0; after a reset the monitor "
        "(write-reset empties the FIFO, read-reset loses nothing) only produces OBSERVATIONS (coverage key "
        "reset_observations, NOTE lines), because C13 does not quantify over resets. Streams: (1) construct+elaborate for both classes, depths -3..40 "
        "and 63..4097 around powers of two, exact_depth both ways, width 4 and width -1 (TypeError) (spec answer "
        "'elaborates' and faithful answer; exception CLASS compared); (2) Gray encode/decode as elaborated, all values of "
        "widths 0..7 + random wide; (3) ALL event words of bounded length: AsyncFIFO(2)/Buffered(3) width 3 over {W,R,WR} "
        "(L 6/7, 5 after preambles {filled+visible, past start-up}), AsyncFIFO(4)/Buffered(5) width 1 (L 4), and over the "
        "alphabets {W,R,WR}x{write-rst} and {W,R,WR}x{read-rst} after a filling preamble (L 3, thorough 4); (4) seeded "
        "random walks (quick 400 events, thorough 2000) on constructible depths only (requested 0,2..9,16,17 rounded, and "
        "exact conforming depths) x both classes x regimes 1:1, 1:7, 7:1, bursty, coincident-heavy with strobe phases; "
        "40 % of walks carry write-reset episodes (wrstL: all long enough, wrstS: also too short) or read-reset pulses; half "
        "end in a "
"no-write, r_en=1 drain tail. non-trivial = (trace) some event shows r_rdy=1; (elab) depth > 0; (gray) width > 0")
MODELLED = ("AsyncFIFO.elaborate / AsyncFIFOBuffered.elaborate register-transfer behaviour, FFSynchronizer (2 and 4 stages), "
            "AsyncFFSynchronizer flops, Memory read/write ports across domains, _gray_encode/_gray_decode, constructor "
            "depth rounding and error classes, both domain resets are hand-modelled in coq/Model/AsyncFifo.v and validated "
            "by this run; the simulator's event scheduling for coincident edges is validated only. AsyncFIFOBuffered "
            "under write-domain reset is modelled and validated, its theorems exclude both resets.")
ASSUMPTIONS = ["no metastability: a synchroniser flop samples the old value of its input at an edge (as the simulator does); "
               "the Gray single-bit-change theorem is what makes this sound in hardware",
               "write-domain reset: safety proved after episodes containing 1 write edge, then 3 read edges, then 2 write "
               "edges (suff_reset); shorter episodes are refuted (observation class " + O_SHORT + ", not a verdict)"]

EXC = {"ValueError": 1, "TypeError": 2, "IndexError": 3}


def exc_code(e):
    n = type(e).__name__
    return EXC.get(n, 100 + sum(map(ord, n)))


def word(ev, wen, ren, rst, data, rrst=0):
    return ev + 4 * (wen + 2 * ren + 4 * rst + 8 * rrst) + 64 * data


def unword(x):
    f = (x // 4) % 16
    return x % 4, f & 1, x // 64, (f >> 1) & 1, (f >> 2) & 1, (f >> 3) & 1   # ev, wen, wdata, ren, rst, rrst


def pack(o):
    wrdy, wl, rrdy, rd, rl, rrst = o
    return wrdy + 2 * rrdy + 4 * rrst + 8 * (wl + 64 * (rl + 64 * rd))


def unpack(p):
    q = p // 8
    return dict(w_rdy=p & 1, r_rdy=(p >> 1) & 1, r_rst=(p >> 2) & 1, w_level=q % 64, r_level=(q // 64) % 64,
                r_data=q // 4096)


# ------------------------------------------------------------------------------------------ specification monitor
def ep_step(s, ev):
    """progress of a write-reset episode through the flush pattern 1 W edge, 3 R edges, 2 W edges (= suff_reset)"""
    if s in (0, 4, 5):
        return s + 1 if ev & 1 else s
    if s in (1, 2, 3):
        return s + 1 if ev & 2 else s
    return s


def monitor(cls, depth, width, events, obs0, obs, lenient=(), drop_plan=None):
    """Deque monitor over a recorded run.  events: unword tuples; obs0: outputs before the first event; obs[i]: outputs
    after event i (dicts).  Returns 0 or 10*(index of the event before which the check failed + 1) + code:
      4 w_rdy asserted while depth entries are held      5 r_rdy but r_data is not the oldest unread entry
      6 a level outside 0..depth                         7 held entries not visible 2 (buffered 3) read edges after
      8 not drained held+2 (buffered held+3) read edges after writing stopped with r_en kept high     writing stopped
    Strict semantics: a write-domain reset episode empties the FIFO (whatever its length), a read-domain reset loses
    nothing.  lenient = semantics of the recorded findings: 'short' (after an episode that does not contain the flush
    pattern nothing is specified any more), 'bufreg' (the buffered output stage is not cleared by a write reset: r_rdy/r_data keep their entry and
    the registered r_level keeps its mid-reset value until the next read edge), 'rrst' (the k-th read-domain reset edge of the buffered FIFO drops drop_plan[k] in 0..2 entries: the one in
    the output register and the one the inner FIFO hands over at that edge; -1 is returned when the plan is exhausted)."""
    if depth == 0:
        for i, o in enumerate([obs0] + list(obs)):
            if o["w_rdy"] or o["r_rdy"] or o["w_level"] or o["r_level"]:
                return 10 * (i + 1) + 4
        return 0
    K = 2 if cls == 0 else 3
    q = collections.deque()
    in_ep, s, tainted, n_rr, stale_rl = False, 0, False, 0, False
    quiet_r, quiet_allren, held_stop = 0, True, 0
    pre = obs0

    def check(pre):
        if pre["w_rdy"] and len(q) >= depth:
            return 4
        if pre["r_rdy"] and (not q or q[0] != pre["r_data"]):
            return 5
        if not (0 <= pre["w_level"] <= depth and (stale_rl or 0 <= pre["r_level"] <= depth)):
            return 6
        if quiet_r >= K:
            if bool(pre["r_rdy"]) != (len(q) > 0):
                return 7
            if cls == 0 and pre["r_level"] != len(q):
                return 7
        if quiet_allren and quiet_r >= held_stop + K and q:
            return 8
        return 0

    for idx, (ev, wen, wd, ren, rst, rrst) in enumerate(events):
        if rst:
            if not in_ep:
                in_ep, s = True, 0
            s = ep_step(s, ev)
            q.clear()
            quiet_r, quiet_allren, held_stop = 0, True, 0
            pre = obs[idx]
            continue
        if in_ep:
            in_ep = False
            if s < 6 and "short" in lenient:
                tainted = True
            if cls == 1 and "bufreg" in lenient:
                stale_rl = True             # the registered r_level keeps its mid-reset value until the next read edge
                if pre["r_rdy"]:
                    q.append(pre["r_data"])
                    held_stop = 1
        if tainted:
            pre = obs[idx]
            continue
        code = check(pre)
        if code:
            return 10 * (idx + 1) + code
        if ev & 2 and ren and pre["r_rdy"]:
            q.popleft()
        if ev & 2 and rrst and cls == 1 and "rrst" in lenient:
            if n_rr >= len(drop_plan):
                return -1
            for _ in range(min(drop_plan[n_rr], len(q))):
                q.popleft()
            n_rr += 1
        if ev & 1 and wen and pre["w_rdy"]:
            q.append(wd % (1 << width))
        if ev & 2:
            stale_rl = False
        if wen or (rrst and cls == 1):
            quiet_r, quiet_allren, held_stop = 0, True, len(q)
        else:
            quiet_r += 1 if ev & 2 else 0
            quiet_allren = quiet_allren and bool(ren)
        pre = obs[idx]
    if not tainted and not in_ep:
        code = check(pre)
        if code:
            return 10 * (len(events) + 1) + code
    return 0


# ------------------------------------------------------------------------------------------ generator
def _strobes(rng, n, width):
    """strobe phases as in C12: fill, drain, balanced, saturated, write-only, read-only"""
    out = []
    phases = [(0.9, 0.15), (0.15, 0.9), (0.5, 0.5), (1.0, 1.0), (1.0, 0.0), (0.0, 1.0), (0.7, 0.7)]
    pw, pr = rng.choice(phases)
    left = rng.randrange(10, 80)
    for _ in range(n):
        if left == 0:
            pw, pr = rng.choice(phases)
            left = rng.randrange(10, 80)
        left -= 1
        out.append((int(rng.random() < pw), int(rng.random() < pr), rng.randrange(1 << width)))
    return out


def _events(rng, regime, n):
    if regime == "bursty":
        out = []
        while len(out) < n:
            e = rng.choice((1, 2, 3, 1, 2))
            out += [e] * rng.randrange(1, 20)
        return out[:n]
    wts = {"1:1": (10, 10, 1), "1:7": (1, 7, 0), "7:1": (7, 1, 0), "coincident": (1, 1, 6)}[regime]
    return rng.choices((1, 2, 3), wts, k=n)


REGIMES = ("1:1", "1:7", "7:1", "bursty", "coincident")
BIG_DEPTHS = (63, 64, 65, 127, 128, 129, 255, 256, 257, 1000, 1024, 1025, 4096, 4097)


def _walk(rng, regime, n_ev, width, flavour, tail_depth):
    es = _events(rng, regime, n_ev)
    ss = _strobes(rng, n_ev, width)
    evs = []
    i = 0
    while i < n_ev:
        e, (wen, ren, d) = es[i], ss[i]
        if flavour in ("wrstL", "wrstS") and rng.random() < 0.012:
            # a write-reset episode: long enough (flush pattern embedded) or short
            if flavour == "wrstL" or rng.random() < 0.4:
                pat = [1] + [rng.choice((2, 3)) for _ in range(3)] + [rng.choice((1, 3)) for _ in range(2)]
                ep = []
                for p in pat:
                    ep += [rng.choice((1, 2, 3)) for _ in range(rng.randrange(0, 2))] + [p]
            else:
                ep = [rng.choice((1, 2, 3)) for _ in range(rng.randrange(1, 5))]
            for p in ep:
                evs.append(word(p, int(rng.random() < 0.5), int(rng.random() < 0.5), 1, rng.randrange(1 << width)))
        rrst = int(flavour == "rrst" and rng.random() < 0.02)
        evs.append(word(e, wen, ren, 0, d, rrst))
        i += 1
    if tail_depth:
        # drain tail: no writes, r_en high, enough read edges for depth + 3 entries
        need, t = tail_depth + 4, []
        while need > 0:
            e = rng.choice((1, 2, 2, 3))
            need -= 1 if e & 2 else 0
            t.append(word(e, 0, 1, 0, rng.randrange(1 << width)))
        evs += t
    return evs


def gen_cases(tier, seed):
    rng = random.Random(seed)
    thorough = tier == "thorough"
    short, long_ = [], []
    # (1) construct + elaborate
    for cls in (0, 1):
        for depth in list(range(-3, 41)) + list(BIG_DEPTHS):
            for exact in (False, True):
                if depth >= 0:      # the specification quantifies over the documented depths (non-negative)
                    short.append({"k": "elab", "cls": cls, "depth": depth, "exact": exact, "width": 4})
                short.append({"k": "elabm", "cls": cls, "depth": depth, "exact": exact, "width": 4})
        for depth in (-1, 0, 1, 3, 4, 5):      # negative width: TypeError unless the depth is rejected first
            for exact in (False, True):
                short.append({"k": "elabm", "cls": cls, "depth": depth, "exact": exact, "width": -1})
                short.append({"k": "trace", "cls": cls, "depth": depth, "exact": exact, "width": -1, "ev": [], "g": "err"})
    # (2) Gray code helpers as elaborated
    for w in range(0, 8):
        xs = list(range(1 << w))
        for i in range(0, len(xs), 64):
            short.append({"k": "gray", "w": w, "xs": xs[i:i + 64]})
    for _ in range(20 if not thorough else 200):
        w = rng.randrange(8, 41)
        xs = [rng.randrange(1 << w) for _ in range(24)] + [(1 << w) - 1, 1 << (w - 1), (1 << (w - 1)) - 1]
        short.append({"k": "gray", "w": w, "xs": xs})
    # (3) all event words of bounded length on the smallest depths
    pre_fill = [word(1, 1, 0, 0, 1), word(1, 1, 0, 0, 2), word(2, 0, 0, 0, 0), word(2, 0, 0, 0, 0)]
    pre_fill3 = pre_fill + [word(2, 0, 0, 0, 0)]
    pre_start = [word(2, 0, 0, 0, 0)] * 3
    L = 6 if not thorough else 7
    P = L if thorough else L - 1
    plans = [(0, 2, 3, [], L + 1, "on"), (0, 2, 3, [], L, "rnd"), (0, 2, 3, pre_fill, P, "on"),
             (0, 2, 3, pre_start, P, "rnd"), (1, 3, 3, [], L, "on"), (1, 3, 3, pre_fill, P, "rnd"),
             (1, 3, 3, pre_start, P, "on"),
             (0, 4, 1, pre_fill, 4 if not thorough else 5, "on"), (0, 4, 1, [], 4 if not thorough else 5, "rnd"),
             (1, 5, 1, pre_fill, 4 if not thorough else 5, "rnd"), (1, 5, 1, [], 4 if not thorough else 5, "on")]
    for cls, depth, width, pre, maxlen, mode in plans:
        for n in range(0 if not pre else 1, maxlen + 1):
            for w in itertools.product((1, 2, 3), repeat=n):
                evs = list(pre)
                for j, e in enumerate(w):
                    if mode == "on":
                        evs.append(word(e, 1, 1, 0, (3 + j) % (1 << width)))
                    else:
                        evs.append(word(e, int(rng.random() < 0.7), int(rng.random() < 0.7), 0,
                                        rng.randrange(1 << width)))
                short.append({"k": "trace", "cls": cls, "depth": depth, "exact": False, "width": width, "ev": evs,
                              "g": "words"})
    # words over events x {reset}: write-domain and read-domain reset, both classes, after a filling preamble
    LR = 3 if not thorough else 4
    for cls, depth in ((0, 2), (1, 3)):
        for which in ("wrst", "rrst"):
            for n in range(1, LR + 1):
                for w in itertools.product(((1, 0), (2, 0), (3, 0), (1, 1), (2, 1), (3, 1)), repeat=n):
                    if not any(r for _, r in w):
                        continue
                    evs = list(pre_fill3 if cls else pre_fill)
                    for j, (e, r) in enumerate(w):
                        evs.append(word(e, 1, j % 2, r if which == "wrst" else 0, 3 + j, r if which == "rrst" else 0))
                    evs += [word(2, 0, 1, 0, 0)] * 3      # then read what is there
                    short.append({"k": "trace", "cls": cls, "depth": depth, "exact": False, "width": 3, "ev": evs,
                                  "g": "words+" + which})
    # (4) random walks on constructible depths only
    n_ev = 400 if not thorough else 2000
    reps = 1 if not thorough else 4
    req = {0: [(d, False) for d in (0, 2, 3, 4, 5, 6, 7, 8, 9, 16, 17)] + [(d, True) for d in (2, 4, 8, 16)],
           1: [(d, False) for d in (0, 3, 4, 5, 6, 7, 8, 9, 10, 16, 17)] + [(d, True) for d in (3, 5, 9, 17)]}
    for cls in (0, 1):
        for depth, exact in req[cls]:
            for regime in REGIMES:
                for rep in range(reps):
                    width = rng.choice((0, 1, 3, 4, 8, 8, 12))
                    flavour = rng.choices(("plain", "wrstL", "wrstS", "rrst"), (58, 14, 13, 15))[0]
                    built = _built_depth(cls, depth)
                    tail = built if rng.random() < 0.5 else 0
                    evs = _walk(rng, regime, n_ev, width, flavour, tail)
                    long_.append({"k": "trace", "cls": cls, "depth": depth, "exact": exact, "width": width,
                                  "ev": evs, "tail": bool(tail),
                                  "g": regime + ("" if flavour == "plain" else "+" + flavour)})
    # spread the long walks evenly between the short cases (keeps every shard small)
    cases = []
    step = max(1, len(short) // max(1, len(long_)))
    li = 0
    for i, c in enumerate(short):
        if i % step == 0 and li < len(long_):
            cases.append(long_[li])
            li += 1
        cases.append(c)
    cases += long_[li:]
    global SHARD
    SHARD = 280 if thorough else 700      # few, larger shards (< 300 kB): coqc start-up dominates small ones
    return cases


def _cl2(n):
    return 0 if n == 0 else (n - 1).bit_length()


def _built_depth(cls, depth):
    if depth == 0:
        return 0
    return (1 << _cl2(depth)) if cls == 0 else (1 << _cl2(max(0, depth - 1))) + 1


def classify(c):
    k = c["k"]
    if k == "trace":
        return f"trace/{'AB'[c['cls']]}/{c['g']}"
    if k == "gray":
        return "gray"
    return f"{k}/{'AB'[c['cls']]}" + ("/w<0" if c.get("width", 4) < 0 else "")


def nontrivial(c, obs):
    k = c["k"]
    if k == "trace":
        return bool(obs) and obs[0] == 1 and any((p >> 1) & 1 for p in obs[2:-1])
    if k == "gray":
        return c["w"] > 0
    return c["depth"] > 0


# ------------------------------------------------------------------------------------------ implementation side
def _cls(c):
    from amaranth.lib.fifo import AsyncFIFO, AsyncFIFOBuffered
    return (AsyncFIFO, AsyncFIFOBuffered)[c["cls"]]


NAMES = ("w_rdy", "w_level", "r_rdy", "r_data", "r_level", "r_rst")


def run_impl(c):
    import warnings
    warnings.simplefilter("ignore")
    k = c["k"]
    if k == "gray":
        from amaranth.hdl import Signal, Module
        from amaranth.lib.fifo import _gray_encode, _gray_decode
        from amaranth.sim import Simulator
        w = c["w"]
        v = Signal(w)
        e = Signal(max(w, 1) + 2)
        d = Signal(max(w, 1) + 2)
        m = Module()
        m.d.comb += [e.eq(_gray_encode(v)), d.eq(_gray_decode(v))]
        out = []

        async def tbg(ctx):
            for x in c["xs"]:
                ctx.set(v, x)
                out.extend((ctx.get(e), ctx.get(d)))
        sim = Simulator(m)
        sim.add_testbench(tbg)
        sim.run()
        return out
    # the exception CLASS of every failure is part of the answer; nothing is absorbed
    try:
        f = _cls(c)(width=c["width"], depth=c["depth"], exact_depth=c["exact"])
    except Exception as e:
        return [0, exc_code(e)]
    if k in ("elab", "elabm"):
        from amaranth.hdl import Fragment
        try:
            Fragment.get(f, None)
        except Exception as e:
            return [-1, exc_code(e)] if k == "elab" else [1, f.depth, 0, exc_code(e)]
        return [1, f.depth] if k == "elab" else [1, f.depth, 1]
    # trace
    from amaranth.hdl import Module, ClockDomain, Cat
    from amaranth.sim import Simulator
    m = Module()
    m.domains.read = cdr = ClockDomain("read")
    m.domains.write = cdw = ClockDomain("write")
    m.submodules.fifo = f
    try:
        sim = Simulator(m)
    except Exception as e:
        return [2, f.depth, exc_code(e)]
    out = []
    events = [unword(x) for x in c["ev"]]
    clk = Cat(cdw.clk, cdr.clk)
    depth = f.depth

    async def tb(ctx):
        def obs():
            return (ctx.get(f.w_rdy), ctx.get(f.w_level), ctx.get(f.r_rdy), ctx.get(f.r_data), ctx.get(f.r_level),
                    ctx.get(f.r_rst))
        out.append(obs())
        for ev, wen, wd, ren, rst, rrst in events:
            ctx.set(f.w_en, wen)
            ctx.set(f.w_data, wd)
            ctx.set(f.r_en, ren)
            ctx.set(cdw.rst, rst)
            ctx.set(cdr.rst, rrst)
            ctx.set(clk, ev)
            out.append(obs())
            ctx.set(clk, 0)
    sim.add_testbench(tb)
    sim.run()
    dicts = [dict(zip(NAMES, o)) for o in out]
    # verdict only on the reset-free part: the whole history, or the prefix before the first reset event
    k0 = _first_reset(events)
    verdict = monitor(c["cls"], depth, c["width"], events[:k0], dicts[0], dicts[1:1 + k0])
    return [1, depth] + [pack(o) for o in out[1:]] + [verdict]


# ------------------------------------------------------------------------------------------ model side
def coq_term(c):
    k = c["k"]
    if k == "gray":
        return f"flat_map (k_gray {z(c['w'])}) {zlist(c['xs'])}"
    if k == "elab":
        return f"k_elab {c['cls']} {z(c['width'])} {z(c['depth'])} {blit(c['exact'])}"
    if k == "elabm":
        return f"k_elab_model {c['cls']} {z(c['width'])} {z(c['depth'])} {blit(c['exact'])}"
    return f"k_trace {c['cls']} {z(c['depth'])} {z(c['width'])} {blit(c['exact'])} {zlist(c['ev'])}"


def _obs0(c, depth):
    return dict(w_rdy=int(depth > 0), w_level=0, r_rdy=0, r_data=0, r_level=0, r_rst=0)


def _first_reset(events):
    for i, e in enumerate(events):
        if e[4] or e[5]:
            return i
    return len(events)


def known_finding(c, obs, model):
    """F4 only: the specification answer 'elaborates' for AsyncFIFO constructed depth 1 / AsyncFIFOBuffered constructed
    depth 2 (requested depth >= 0) against IndexError in elaborate()."""
    obs, model = list(obs), list(model)
    if c["k"] != "elab" or c["depth"] < 0 or obs != [-1, EXC["IndexError"]]:
        return None
    if (c["cls"] == 0 and model == [1, 1]) or (c["cls"] == 1 and model == [1, 2]):
        return F4
    return None


def reset_observation(c):
    """For a history with resets: (class, strict verdict) when the strict monitor over the WHOLE observed run fails,
    else None.  The class is the semantics under which the monitor accepts the run."""
    if c["k"] != "trace":
        return None
    events = [unword(x) for x in c["ev"]]
    if _first_reset(events) == len(events):
        return None
    obs = run_impl(c)
    if len(obs) < 3 or obs[0] != 1:
        return None
    depth = obs[1]
    dicts = [unpack(p) for p in obs[2:-1]]
    strict = monitor(c["cls"], depth, c["width"], events, _obs0(c, depth), dicts)
    if strict == 0:
        return None
    has_w = any(e[4] for e in events)
    has_r = any(e[5] for e in events)

    def lenient(flags):
        return monitor(c["cls"], depth, c["width"], events, _obs0(c, depth), dicts, lenient=flags) == 0

    def search(plan):       # some choice of 0..2 dropped entries per read-reset edge explains the whole run
        v = monitor(c["cls"], depth, c["width"], events, _obs0(c, depth), dicts, lenient=("rrst",), drop_plan=plan)
        if v == -1:
            return any(search(plan + [d]) for d in (0, 1, 2))
        return v == 0
    if has_r and not has_w and c["cls"] == 1 and search([]):
        return O_RRST, strict
    if has_w and not has_r:
        if c["cls"] == 1 and lenient(("bufreg",)):
            return O_BUFREG, strict
        if lenient(("short",)):
            return O_SHORT, strict
        if c["cls"] == 1 and lenient(("short", "bufreg")):
            return O_SHORT, strict
    return O_OTHER, strict


def _reset_obs_worker(chunk):
    from common import setup_env
    setup_env()
    return [reset_observation(c) for c in chunk]


def shrink(c, obs, model):
    if c["k"] != "trace" or not obs or obs[0] != 1 or not model or model[0] != 1:
        return c, obs, model
    j = None
    for i in range(2, min(len(obs), len(model)) - 1):
        if obs[i] != model[i]:
            j = i - 2
            break
    if j is None:       # only the monitor verdict differs: cut after the failing event
        if obs[-1] and obs[-1] // 10 <= len(c["ev"]):
            j = obs[-1] // 10 - 1
        else:
            return c, obs, model
    c2 = dict(c)
    c2["ev"] = c["ev"][:j + 1]
    return c2, run_impl(c2), list(model[:2 + j + 1]) + [0]


def extra(tier, seed, findings):
    """Measured reach of the random walks, and the reset OBSERVATIONS (never a verdict, never a violation payload)."""
    allc = gen_cases(tier, seed)
    walks = [c for c in allc if c["k"] == "trace" and not c["g"].startswith(("words", "err"))]
    rng = random.Random(seed + 1)
    sample = rng.sample(walks, min(len(walks), 80))
    st = collections.Counter()
    for c in sample:
        obs = run_impl(c)
        if obs[0] != 1 or obs[1] == 0:
            st["walks_not_simulated(depth 0)"] += 1
            continue
        depth = obs[1]
        o = [unpack(p) for p in obs[2:-1]]
        evs = [unword(x) for x in c["ev"]]
        st["walks_simulated"] += 1
        st["events"] += len(o)
        st["coincident_events"] += sum(1 for e in evs if e[0] == 3)
        st["walks_with_write_reset"] += int(any(e[4] for e in evs))
        st["walks_with_read_reset"] += int(any(e[5] for e in evs))
        st["walks_reaching_full(w_rdy=0)"] += int(any(not x["w_rdy"] for x in o))
        st["walks_level_reaches_depth"] += int(any(x["w_level"] == depth or x["r_level"] == depth for x in o))
        wr = rd = 0
        pre = dict(w_rdy=1, r_rdy=0)
        for (ev, wen, _, ren, rst, _), ob in zip(evs, o):
            if not rst:
                wr += int(ev & 1 and wen and pre["w_rdy"])
                rd += int(ev & 2 and ren and pre["r_rdy"])
            pre = ob
        st["accepted_writes"] += wr
        st["accepted_reads"] += rd
        st["walks_pointer_wraps(>= 2*depth entries passed)"] += int(rd >= 2 * depth)
        st["walks_with_drain_tail"] += int(c.get("tail", False))
        st["monitor_failures(strict, reset-free part)"] += int(obs[-1] != 0)
    # reset observations over every generated history that contains a reset
    from concurrent.futures import ProcessPoolExecutor
    import common as C
    rc = [c for c in allc if c["k"] == "trace" and _first_reset([unword(x) for x in c["ev"]]) < len(c["ev"])]
    chunks = [rc[i:i + 40] for i in range(0, len(rc), 40)]
    res = []
    with ProcessPoolExecutor(C.NCPU) as ex:
        for r in ex.map(_reset_obs_worker, chunks):
            res += r
    ro = {"histories_with_reset": len(rc), "strict_monitor_agrees": sum(1 for r in res if r is None), "classes": {}}
    for cls_name in (O_SHORT, O_BUFREG, O_RRST, O_OTHER):
        hits = [(c, r[1]) for c, r in zip(rc, res) if r is not None and r[0] == cls_name]
        if not hits:
            continue
        c, v = min(hits, key=lambda h: (len(h[0]["ev"]), h[0]["ev"]))
        ro["classes"][cls_name] = {"count": len(hits), "what": OBS_TEXT[cls_name],
                                   "minimal_example": {"case": {k: c[k] for k in ("cls", "depth", "exact", "width", "ev")},
                                                       "strict_monitor_verdict": v}}
        print(f"NOTE: property=C13 observation (not a verdict): {len(hits)} reset histories: {OBS_TEXT[cls_name]}")
    return [], {"walk_reach_sample": dict(st), "reset_observations": ro}


def explain(c):
    if c["k"] == "trace":
        return ("events: code(1=W,2=R,3=WR) + 4*(w_en + 2*r_en + 4*write-rst + 8*read-rst) + 64*w_data; answer "
                "[1, depth, obs.., verdict]: obs = w_rdy + 2*r_rdy + 4*r_rst + 8*(w_level + 64*(r_level + 64*r_data)) "
                "after each event; verdict = specification monitor on the reset-free part of the history: 0 ok, else 10*(index of the event before which the "
                "check failed + 1) + code (4 w_rdy while full, 5 r_rdy/r_data not oldest unread, 6 level out of range, "
                "7 held entries not visible in time, 8 not drained in time); [2, depth, c] = elaboration raises class c; "
                "[0, c] = constructor raises class c (1 ValueError, 2 TypeError, 3 IndexError)")
    if c["k"] == "elab":
        return ("spec answer: [0, c] constructor raises class c, [1, depth] constructed and elaborates; observed "
                "[-1, c] = elaboration raised class c")
    return ""

"""C13 — asynchronous FIFOs are safe under every interleaving of their clocks."""
import collections, itertools, random
from common import z, zlist, blit

ID = "C13"
LEVEL = "proof"
PROPS_FILE = "C13.v"
RUN_MODULE = "RunC13"
TRANSLATOR_UNITS = []
SHARD = 700
F4 = "F4-asyncfifo-depth1-elaborate"
RULE = ("real AsyncFIFO/AsyncFIFOBuffered, domains 'read'/'write' declared by hand, clocks driven from a testbench by "
        "ctx.set(Cat(clk_w, clk_r), bits) through event words over {W,R,WR} (both clocks low between events), inputs "
        "(w_en,w_data,r_en,write-rst) set before each edge, all six outputs read after every event and compared with the "
        "Coq model trace (vm_compute) AND with a Python deque monitor (overflow, underflow, r_rdy -> r_data = oldest, "
        "levels in 0..depth; its verdict is the last integer of the observation, the model side says 0). "
        "Streams: (1) construct+elaborate for both classes, depths -3..40, exact_depth both ways (spec answer 'elaborates' "
        "and faithful answer); (2) Gray encode/decode as elaborated, all values of widths 0..7 + random wide; "
        "(3) ALL event words of length <= L (quick 6, 7 for AsyncFIFO(2) all-on, 5 after a preamble; thorough 7/8/7) for "
        "AsyncFIFO(depth 2) and AsyncFIFOBuffered(depth 3) after preambles {none, filled+visible, past start-up reset}, "
        "strobes all-on and random; "
        "(4) seeded random walks (quick 400 events, thorough 2000) for depths 0..9,16,17 x both classes x exact both ways "
        "x regimes 1:1, 1:7, 7:1, bursty, coincident-heavy with strobe phases (fill, drain, balanced, saturated) and, in "
        "a fraction, write-domain reset pulses. non-trivial = (trace) some event shows r_rdy=1, i.e. data crossed the CDC; "
        "(elab) depth > 0; (gray) width > 0; distinct by case hash")
MODELLED = ("AsyncFIFO.elaborate / AsyncFIFOBuffered.elaborate register-transfer behaviour, FFSynchronizer (2 and 4 stages), "
            "AsyncFFSynchronizer flops, Memory read/write ports across domains, _gray_encode/_gray_decode, constructor "
            "depth rounding are hand-modelled in coq/Model/AsyncFifo.v and validated by this run; the simulator's event "
            "scheduling for coincident edges is validated only. The write-domain reset path (r_rst) is modelled and "
            "validated but the theorems cover reset-free runs only (plus the start-up r_rst pulse, which is part of "
            "every run).")
ASSUMPTIONS = ["no metastability: a synchroniser flop samples the old value of its input at an edge (as the simulator does); "
               "the Gray single-bit-change theorem is what makes this sound in hardware",
               "write-domain reset never asserted in the safety theorems (reset path validated only)"]

EVC = {"W": 1, "R": 2, "WR": 3}


def word(ev, wen, ren, rst, data):
    return ev + 4 * (wen + 2 * ren + 4 * rst) + 32 * data


def unword(x):
    f = (x // 4) % 8
    return x % 4, f & 1, x // 32, (f >> 1) & 1, (f >> 2) & 1     # ev, wen, wdata, ren, rst


def pack(o):
    wrdy, wl, rrdy, rd, rl, rrst = o
    return wrdy + 2 * rrdy + 4 * rrst + 8 * (wl + 64 * (rl + 64 * rd))


def unpack(p):
    q = p // 8
    return dict(w_rdy=p & 1, r_rdy=(p >> 1) & 1, r_rst=(p >> 2) & 1, w_level=q % 64, r_level=(q // 64) % 64,
                r_data=q // 4096)


# ------------------------------------------------------------------------------------------ generator
def _strobes(rng, n, width, rst_p=0.0):
    """strobe phases as in C12: fill, drain, balanced, saturated, write-only, read-only"""
    out = []
    phases = [(0.9, 0.15), (0.15, 0.9), (0.5, 0.5), (1.0, 1.0), (1.0, 0.0), (0.0, 1.0), (0.7, 0.7)]
    pw, pr = rng.choice(phases)
    left = rng.randrange(10, 80)
    for _ in range(n):
        if left == 0:
            pw, pr = rng.choice(phases)
            left = rng.randrange(10, 80)
        left -= 1
        out.append((int(rng.random() < pw), int(rng.random() < pr), int(rng.random() < rst_p),
                    rng.randrange(1 << width)))
    return out


def _events(rng, regime, n):
    if regime == "bursty":
        out = []
        while len(out) < n:
            e = rng.choice((1, 2, 3, 1, 2))
            out += [e] * rng.randrange(1, 20)
        return out[:n]
    wts = {"1:1": (10, 10, 1), "1:7": (1, 7, 0), "7:1": (7, 1, 0), "coincident": (1, 1, 6)}[regime]
    return rng.choices((1, 2, 3), wts, k=n)


REGIMES = ("1:1", "1:7", "7:1", "bursty", "coincident")


def gen_cases(tier, seed):
    rng = random.Random(seed)
    thorough = tier == "thorough"
    short, long_ = [], []
    # (1) construct + elaborate
    for cls in (0, 1):
        for depth in range(-3, 41):
            for exact in (False, True):
                if depth >= 0:      # the specification quantifies over the documented depths (non-negative)
                    short.append({"k": "elab", "cls": cls, "depth": depth, "exact": exact})
                short.append({"k": "elabm", "cls": cls, "depth": depth, "exact": exact})
    # (2) Gray code helpers as elaborated
    for w in range(0, 8):
        xs = list(range(1 << w))
        for i in range(0, len(xs), 64):
            short.append({"k": "gray", "w": w, "xs": xs[i:i + 64]})
    for _ in range(20 if not thorough else 200):
        w = rng.randrange(8, 41)
        xs = [rng.randrange(1 << w) for _ in range(24)] + [(1 << w) - 1, 1 << (w - 1), (1 << (w - 1)) - 1]
        short.append({"k": "gray", "w": w, "xs": xs})
    # (3) all event words of bounded length on the smallest depths
    pre_fill = [word(1, 1, 0, 0, 1), word(1, 1, 0, 0, 2), word(2, 0, 0, 0, 0), word(2, 0, 0, 0, 0)]
    pre_start = [word(2, 0, 0, 0, 0)] * 3
    L = 6 if not thorough else 7
    P = L if thorough else L - 1
    plans = [(0, 2, [], L + 1, "on"), (0, 2, [], L, "rnd"), (0, 2, pre_fill, P, "on"), (0, 2, pre_start, P, "rnd"),
             (1, 3, [], L, "on"), (1, 3, pre_fill, P, "rnd"), (1, 3, pre_start, P, "on")]
    for cls, depth, pre, maxlen, mode in plans:
        for n in range(0 if not pre else 1, maxlen + 1):
            for w in itertools.product((1, 2, 3), repeat=n):
                evs = list(pre)
                for j, e in enumerate(w):
                    if mode == "on":
                        evs.append(word(e, 1, 1, 0, (3 + j) % 8))
                    else:
                        evs.append(word(e, int(rng.random() < 0.7), int(rng.random() < 0.7), 0, rng.randrange(8)))
                short.append({"k": "trace", "cls": cls, "depth": depth, "exact": False, "width": 3, "ev": evs,
                              "g": "words"})
    # (4) random walks
    n_ev = 400 if not thorough else 2000
    reps = 1 if not thorough else 4
    for cls in (0, 1):
        for depth in (0, 1, 2, 3, 4, 5, 6, 7, 8, 9, 16, 17):
            for exact in (False, True):
                for regime in REGIMES:
                    for rep in range(reps):
                        width = rng.choice((0, 1, 3, 4, 8, 8, 12))
                        rst_p = 0.02 if rng.random() < 0.15 else 0.0
                        es = _events(rng, regime, n_ev)
                        ss = _strobes(rng, n_ev, width, rst_p)
                        evs = [word(e, wen, ren, rst, d) for e, (wen, ren, rst, d) in zip(es, ss)]
                        long_.append({"k": "trace", "cls": cls, "depth": depth, "exact": exact, "width": width,
                                      "ev": evs, "g": regime})
    # spread the long walks evenly between the short cases (keeps every shard small)
    cases = []
    step = max(1, len(short) // max(1, len(long_)))
    li = 0
    for i, c in enumerate(short):
        if i % step == 0 and li < len(long_):
            cases.append(long_[li])
            li += 1
        cases.append(c)
    cases += long_[li:]
    global SHARD
    SHARD = 280 if thorough else 700      # few, larger shards (< 300 kB): coqc start-up dominates small ones
    return cases


def classify(c):
    k = c["k"]
    if k == "trace":
        return f"trace/{'AB'[c['cls']]}/{c['g']}"
    if k == "gray":
        return "gray"
    return f"{k}/{'AB'[c['cls']]}"


def nontrivial(c, obs):
    k = c["k"]
    if k == "trace":
        return bool(obs) and obs[0] == 1 and any((p >> 1) & 1 for p in obs[2:-1])
    if k == "gray":
        return c["w"] > 0
    return c["depth"] > 0


# ------------------------------------------------------------------------------------------ implementation side
def _exc(e):
    return [-1, sum(map(ord, type(e).__name__))]


def _cls(c):
    from amaranth.lib.fifo import AsyncFIFO, AsyncFIFOBuffered
    return (AsyncFIFO, AsyncFIFOBuffered)[c["cls"]]


def _monitor(depth, pre, ev, wen, wd, ren, q):
    """pre = observation before the event (dict). Returns failure code or 0."""
    if pre["w_rdy"] and len(q) >= depth:
        return 4                                    # w_rdy asserted while depth entries are held
    if pre["r_rdy"] and (not q or q[0] != pre["r_data"]):
        return 5                                    # r_rdy but r_data is not the oldest unread entry
    if not (0 <= pre["w_level"] <= depth and 0 <= pre["r_level"] <= depth):
        return 6
    if ev & 2 and ren and pre["r_rdy"]:
        q.popleft()
    if ev & 1 and wen and pre["w_rdy"]:
        q.append(wd)
    return 0


def run_impl(c):
    import warnings
    warnings.simplefilter("ignore")
    k = c["k"]
    if k == "gray":
        from amaranth.hdl import Signal, Module
        from amaranth.lib.fifo import _gray_encode, _gray_decode
        from amaranth.sim import Simulator
        w = c["w"]
        v = Signal(w)
        e = Signal(max(w, 1) + 2)
        d = Signal(max(w, 1) + 2)
        m = Module()
        m.d.comb += [e.eq(_gray_encode(v)), d.eq(_gray_decode(v))]
        out = []

        async def tbg(ctx):
            for x in c["xs"]:
                ctx.set(v, x)
                out.extend((ctx.get(e), ctx.get(d)))
        sim = Simulator(m)
        sim.add_testbench(tbg)
        sim.run()
        return out
    try:
        f = _cls(c)(width=c.get("width", 4), depth=c["depth"], exact_depth=c["exact"])
    except ValueError:
        return [0]
    except Exception as e:
        return _exc(e)
    if k in ("elab", "elabm"):
        from amaranth.hdl import Fragment
        try:
            Fragment.get(f, None)
        except Exception as e:
            return _exc(e) if k == "elab" else [1, f.depth, 0]
        return [1, f.depth] if k == "elab" else [1, f.depth, 1]
    # trace
    from amaranth.hdl import Module, ClockDomain, Cat
    from amaranth.sim import Simulator
    m = Module()
    m.domains.read = cdr = ClockDomain("read")
    m.domains.write = cdw = ClockDomain("write")
    m.submodules.fifo = f
    try:
        sim = Simulator(m)
    except IndexError:
        return [2, f.depth]
    except Exception as e:
        return _exc(e)
    out = []
    verdict = [0]
    use_mon = not any(unword(x)[4] for x in c["ev"])
    clk = Cat(cdw.clk, cdr.clk)
    depth = f.depth

    async def tb(ctx):
        def obs():
            return (ctx.get(f.w_rdy), ctx.get(f.w_level), ctx.get(f.r_rdy), ctx.get(f.r_data), ctx.get(f.r_level),
                    ctx.get(f.r_rst))
        q = collections.deque()
        names = ("w_rdy", "w_level", "r_rdy", "r_data", "r_level", "r_rst")
        pre = dict(zip(names, obs()))
        for idx, x in enumerate(c["ev"]):
            ev, wen, wd, ren, rst = unword(x)
            ctx.set(f.w_en, wen)
            ctx.set(f.w_data, wd)
            ctx.set(f.r_en, ren)
            ctx.set(cdw.rst, rst)
            if use_mon and not verdict[0]:
                code = _monitor(depth, pre, ev, wen, wd, ren, q)
                if code:
                    verdict[0] = 10 * (idx + 1) + code
            ctx.set(clk, ev)
            o = obs()
            out.append(pack(o))
            pre = dict(zip(names, o))
            ctx.set(clk, 0)
        if use_mon and not verdict[0]:
            code = _monitor(depth, pre, 0, 0, 0, 0, q)
            if code:
                verdict[0] = 10 * (len(c["ev"]) + 1) + code
    sim.add_testbench(tb)
    sim.run()
    return [1, depth] + out + verdict


# ------------------------------------------------------------------------------------------ model side
def coq_term(c):
    k = c["k"]
    if k == "gray":
        return f"flat_map (k_gray {z(c['w'])}) {zlist(c['xs'])}"
    if k == "elab":
        return f"k_elab {c['cls']} {z(c['depth'])} {blit(c['exact'])}"
    if k == "elabm":
        return f"k_elab_model {c['cls']} {z(c['depth'])} {blit(c['exact'])}"
    return f"k_trace {c['cls']} {z(c['depth'])} {z(c['width'])} {blit(c['exact'])} {zlist(c['ev'])}"


def known_finding(c, obs, model):
    """F4: AsyncFIFO whose constructed depth is 1 and AsyncFIFOBuffered whose constructed depth is 2 (requested 1 or 2)
    construct but raise IndexError in elaborate()."""
    if c["k"] != "elab" or c["depth"] < 0:
        return None
    if list(obs) != [-1, sum(map(ord, "IndexError"))]:
        return None
    if (c["cls"] == 0 and list(model) == [1, 1]) or (c["cls"] == 1 and list(model) == [1, 2]):
        return F4
    return None


def shrink(c, obs, model):
    if c["k"] != "trace" or not obs or obs[0] != 1 or not model or model[0] != 1:
        return c, obs, model
    j = None
    for i in range(2, min(len(obs), len(model)) - 1):
        if obs[i] != model[i]:
            j = i - 2
            break
    if j is None:       # only the monitor verdict differs: cut after the failing event
        if obs[-1] and obs[-1] // 10 <= len(c["ev"]):
            j = obs[-1] // 10 - 1
        else:
            return c, obs, model
    c2 = dict(c)
    c2["ev"] = c["ev"][:j + 1]
    return c2, run_impl(c2), list(model[:2 + j + 1]) + [0]


def extra(tier, seed, findings):
    """Measured reach of the random walks (no verdict here: the walks are compared case by case above)."""
    walks = [c for c in gen_cases(tier, seed) if c["k"] == "trace" and c["g"] != "words"]
    rng = random.Random(seed + 1)
    sample = rng.sample(walks, min(len(walks), 80))
    st = collections.Counter()
    for c in sample:
        obs = run_impl(c)
        if obs[0] != 1 or obs[1] == 0:
            st["walks_not_simulated(ctor error / F4 depth / depth 0)"] += 1
            continue
        depth = obs[1]
        o = [unpack(p) for p in obs[2:-1]]
        st["walks_simulated"] += 1
        st["events"] += len(o)
        st["coincident_events"] += sum(1 for x in c["ev"] if x % 4 == 3)
        st["walks_with_reset_pulses"] += int(any(unword(x)[4] for x in c["ev"]))
        st["walks_reaching_full(w_rdy=0)"] += int(any(not x["w_rdy"] for x in o))
        st["walks_level_reaches_depth"] += int(any(x["w_level"] == depth or x["r_level"] == depth for x in o))
        wr = rd = 0
        pre = dict(w_rdy=1, r_rdy=0)
        for x, ob in zip(c["ev"], o):
            ev, wen, _, ren, _ = unword(x)
            wr += int(ev & 1 and wen and pre["w_rdy"])
            rd += int(ev & 2 and ren and pre["r_rdy"])
            pre = ob
        st["accepted_writes"] += wr
        st["accepted_reads"] += rd
        st["walks_pointer_wraps(>= 2*depth entries passed)"] += int(rd >= 2 * depth)
        st["walks_drained_to_empty_after_data"] += int(rd > 0 and wr == rd)
        st["monitor_failures"] += int(obs[-1] != 0)
    return [], {"walk_reach_sample": dict(st)}


def explain(c):
    if c["k"] == "trace":
        return ("events: code(1=W,2=R,3=WR) + 4*(w_en + 2*r_en + 4*rst) + 32*w_data; answer [1, depth, obs.., verdict]: "
                "obs = w_rdy + 2*r_rdy + 4*r_rst + 8*(w_level + 64*(r_level + 64*r_data)) after each event; verdict = "
                "deque monitor: 0 ok, else 10*(event index+1) + code (4 w_rdy while full, 5 r_rdy/r_data not oldest "
                "unread, 6 level out of range); [2, depth] = elaboration raises IndexError; [0] = constructor ValueError")
    if c["k"] == "elab":
        return "spec answer: [0] constructor ValueError, [1, depth] constructed and elaborates; observed [-1, code] = exception"
    return ""

"""C06 — multiply-driven bits and combinational loops are rejected; legal designs are not."""
import itertools, os, random, re
from common import z, zlist, blit

ID = "C06"
LEVEL = "proof"
PROPS_FILE = "C06.v"
RUN_MODULE = "RunC06"
RUN_MODULE_GEN = "RunC06Gen"     # wrappers that evaluate coq/Gen/NirGen.v (optional: see main.py)
TRANSLATOR_UNITS = ["nir"]
SHARD = 700
RULE = ("drivers: ordered pairs of placements (bit range of a 4-bit signal x module of a 3-node tree (fan / chain) x "
        "domain comb/a/b), target form / tree shape / If-wrap / entry point taken from digits of the emitted-case "
        "counter (slice / part-select on the slice / part-select on the whole signal (1-2-bit offset) / Cat / array "
        "element / u,s cast); seeded 3-placement designs; two contested signals in random trees of 4-6 modules; every "
        "placement x (Instance output | async / sync memory read-port data | IOBufferInstance i) x range; output x "
        "output; placements and outputs x ports (dir None / Input / Output, also the same signal twice); mixed-width "
        "arrays; every slice of a choice between values of different widths (Mux / Array.as_value) x every range of the "
        "narrower value driven from another module or domain; every slice / part-select window of a concatenation (starting "
        "inside either part, crossing the boundary) x a second driver of the free / touched bits of the same signals; "
        "zero-width targets (a driver without bits drives nothing, also as the signal's only driver: every port direction x "
        "sole bit-less driver in comb / clocked domain / submodule / If / through Cat, part-select, cast, array element, "
        "choice; two bit-less drivers; next to Instance / read-port / buffer outputs; mixed with real bits). "
        "cycles: seeded dependency rings over <= 6 signal bits from slices, Cat, ~ & | ^, Mux, If conditions and one "
        "word-level operator (+ - * << >> < ==), half of them spread over a 3-level module hierarchy, each in a cyclic "
        "variant and with one edge cut (or moved to a sync domain); per CELL KIND (every unary/binary Operator incl. "
        "signed variants on either operand, Mux data/select, Part with dynamic offset on value/offset, static slices, "
        "Matches with don't-care patterns, array element index/element, If / Switch-Case conditions, partial "
        "AssignmentList, FlipFlop, async/sync memory read port, IOBuffer o/oe, Instance, AnyConst, Initial, Print/"
        "Assert) and per TARGET-side dependency (part-select offset / array index reading the ring, comb and sync) and "
        "per FLIP-FLOP control (clock, gated clock, asynchronous / synchronous reset driven from the ring) a cycle "
        "entering and leaving at the SAME bit index (0, 2, 3) and at DIFFERENT ones (up, down; half of them with the "
        "closing edge in another submodule), each with an acyclic twin, plus a = a << s style whole-word forms and "
        "s.bit_select(s[0:2], 1).eq(1) with near misses. Every cycle design is answered four times: by the model DFS on "
        "the serialised pre-check netlist (verdict, path length, every cell's comb_edges_to / output_nets / "
        "comb_edges_is_per_bit on every output bit), by the TRANSLATED check_comb_cycles (Gen/NirGen.v) on the cells as "
        "Python objects, by the Gallina design-level oracle design_cyclicb on the design's statements, and by an "
        "independent Python bit-dependency graph. "
        "non-trivial = at least two drivers (drv) / at least one comb edge between signal bits (cyc); distinct by case hash")
MODELLED = ("NetlistEmitter.emit_assign / emit_fragment order / emit_drivers / connect / emit_top_ports, "
            "Module._add_statement + LHSMaskCollector, every _nir cell's comb_edges_to / comb_edges_is_per_bit / "
            "output_nets and Netlist.check_comb_cycles are modelled in coq/Model/Nir.v (the _nir part also regenerated "
            "from the source, translator unit nir); the design-level dependency relation (which signal bit depends on "
            "which) is a Gallina SPEC (Nir.v Part III) with a proved decision procedure. Validated only: emit_rhs / "
            "emit_assign's cells for expressions and target selectors (the differential run compares the verdict of the "
            "real emitter + checker with the design-level oracle), the DSL's If / Switch lowering, Fragment.prepare / "
            "Design, rtlil.convert's wrapping of build_netlist")
ASSUMPTIONS = ["word-level operators are taken to depend on every operand bit (ground truth of the cycle generator)",
               "CPython iterates a set of consecutive Net ints in ascending order (compared on every cell)"]

DOMS = ["comb", "a", "b"]
FORMS = ["slice", "part", "part0", "cat", "arr", "cast"]
RANGES = [(lo, hi) for lo in range(4) for hi in range(lo + 1, 5)]
S2 = "S2-early-conflict-part-overapprox"


# ------------------------------------------------------------------ target grammar (JSON lists)
def tlen(t, sigw):
    k = t[0]
    if k == "sig":
        return sigw[str(t[1])] if str(t[1]) in sigw else sigw[t[1]]
    if k == "cast":
        return tlen(t[1], sigw)
    if k == "sl":
        return t[3] - t[2]
    if k == "part":
        return t[3]
    if k == "cat":
        return sum(tlen(p, sigw) for p in t[1])
    if k == "arr":
        return max([tlen(p, sigw) for p in t[1]] + [0])
    if k in ("sw", "mux"):
        return t[3] - t[2]
    raise ValueError(k)


def coq_tgt(t, sigw):
    k = t[0]
    if k == "sig":
        return f"(TSig {t[1]} {tlen(t, sigw)})"
    if k == "cast":
        return f"(TCast {coq_tgt(t[1], sigw)})"
    if k == "sl":
        return f"(TSlice {coq_tgt(t[1], sigw)} {t[2]} {t[3]})"
    if k == "part":
        return f"(TPart {coq_tgt(t[1], sigw)} {t[2]} {t[3]} {t[4]})"
    if k == "cat":
        return "(TCat [" + "; ".join(coq_tgt(p, sigw) for p in t[1]) + "])"
    if k == "arr":
        return f"(TSwitch {tlen(t, sigw)} [" + "; ".join(coq_tgt(p, sigw) for p in t[1]) + "])"
    if k == "mux":  # Mux(sel, t[1][0], t[1][1])[lo:hi]: SwitchValue cases are (0, val0), (None, val1)
        el = [t[1][1], t[1][0]]
        inner = f"(TSwitch {max(tlen(p, sigw) for p in el)} [" + "; ".join(coq_tgt(p, sigw) for p in el) + "])"
        return f"(TSlice {inner} {t[2]} {t[3]})"
    if k == "sw":   # as_value() of an array, sliced: Slice(SwitchValue)
        inner = f"(TSwitch {max(tlen(p, sigw) for p in t[1])} [" + "; ".join(coq_tgt(p, sigw) for p in t[1]) + "])"
        return f"(TSlice {inner} {t[2]} {t[3]})"
    raise ValueError(k)


class Ctx:
    def __init__(self, sigw):
        from amaranth.hdl import Signal
        self.sig = {int(k): Signal(w, name=f"s{k}") for k, w in sigw.items()}
        self.n = 0
        self.aux = []

    def fresh(self, w, pfx):
        from amaranth.hdl import Signal
        self.n += 1
        s = Signal(w, name=f"{pfx}{self.n}")
        self.aux.append(s)
        return s

    def build(self, t):
        from amaranth.hdl import Cat, Array
        k = t[0]
        if k == "sig":
            return self.sig[t[1]]
        if k == "cast":
            v = self.build(t[1])
            return v.as_unsigned() if t[2] == "u" else v.as_signed()
        if k == "sl":
            return self.build(t[1])[t[2]:t[3]]
        if k == "part":
            v = self.build(t[1])
            off = self.fresh(t[2], "off")
            if t[4] == 1:
                return v.bit_select(off, t[3])
            assert t[4] == t[3]
            return v.word_select(off, t[3])
        if k == "cat":
            return Cat(*[self.build(p) for p in t[1]])
        if k == "arr":
            idx = self.fresh(max(1, (len(t[1]) - 1).bit_length()), "idx")
            return Array([self.build(p) for p in t[1]])[idx]
        if k == "mux":
            from amaranth.hdl import Mux
            sel = self.fresh(1, "sel")
            return Mux(sel, self.build(t[1][0]), self.build(t[1][1]))[t[2]:t[3]]
        if k == "sw":
            idx = self.fresh(max(1, (len(t[1]) - 1).bit_length()), "idx")
            return Array([self.build(p) for p in t[1]])[idx].as_value()[t[2]:t[3]]
        raise ValueError(k)


# ------------------------------------------------------------------ driver designs
def coq_frag(f, sigw):
    if "out" in f:
        return "(FOut [" + "; ".join(coq_tgt(t, sigw) for t in f["t"]) + "])"
    st = "; ".join(f"({DOMS.index(d)}%nat, {coq_tgt(t, sigw)})" for d, t, _w in f["st"])
    return f"(FMod [{st}] [" + "; ".join(coq_frag(s, sigw) for s in f["sub"]) + "])"


def coq_design(c):
    sigw = c["sigw"]
    ports = "; ".join(f"({s}%nat, {sigw[str(s)]}%nat, {'PNone' if d == 'n' else 'PIn' if d == 'i' else 'POut'})"
                      for s, d in c["ports"])
    return f"(Design {coq_frag(c['top'], sigw)} [{ports}])"


def build_design(c):
    """-> (module, ports) or raises the DSL's early SyntaxError"""
    from amaranth.hdl import Module, Instance, IOBufferInstance, IOPort, MemoryData, MemoryInstance, Const, Signal
    from amaranth.hdl._ir import PortDirection
    ctx = Ctx(c["sigw"])
    rv = Signal(8, name="rv")
    cond = Signal(1, name="cnd")

    def mk(f):
        if "out" in f:
            vals = [ctx.build(t) for t in f["t"]]
            if f["out"] == "inst":
                return Instance("foo", **{f"o_x{i}": v for i, v in enumerate(vals)})
            if f["out"] == "mem":
                v, = vals
                mi = MemoryInstance(data=MemoryData(shape=len(v), depth=2, init=[]), attrs={})
                mi.read_port(domain=f.get("dom", "comb"), addr=ctx.fresh(1, "addr"), data=v,
                             en=Const(1, 1) if f.get("dom", "comb") == "comb" else ctx.fresh(1, "en"),
                             transparent_for=())
                return mi
            if f["out"] == "iob":
                v, = vals
                return IOBufferInstance(IOPort(len(v), name=f"io{ctx.n}_{id(f) % 997}"), i=v)
            raise ValueError(f["out"])
        m = Module()
        for d, t, wrap in f["st"]:
            v = ctx.build(t)
            if len(v) != tlen(t, c["sigw"]):
                raise ValueError(f"harness width table wrong for {t}: {len(v)}")
            if wrap:
                with m.If(cond):
                    m.d[d] += v.eq(rv)
            else:
                m.d[d] += v.eq(rv)
        for i, s in enumerate(f["sub"]):
            m.submodules[f"u{i}"] = mk(s)
        return m

    m = mk(c["top"])
    ports = []
    for s, d in c["ports"]:
        sig = ctx.sig[s]
        if d == "n":
            ports.append(sig)
        else:
            ports.append((f"p{len(ports)}", sig, PortDirection.Input if d == "i" else PortDirection.Output))
    return m, ports


_RE_EARLY = re.compile(r"trying to drive \(sig s(\d+)\) bit (\d+) from")
_RE_CONN = re.compile(r"Bit (\d+) of signal \(sig s(\d+)\) has multiple drivers")
_RE_DOM = re.compile(r"Signal \(sig s(\d+)\) bit (\d+) driven from (domain|module)")


def run_drv(c):
    from amaranth.hdl._ir import build_netlist, Fragment
    from amaranth.back import rtlil
    try:
        m, ports = build_design(c)
    except Exception as e:
        if type(e).__name__ == "SyntaxError" and "Driver-driver conflict" in str(e):
            mm = _RE_EARLY.search(str(e))
            return [1, int(mm.group(1)), int(mm.group(2)), 1]
        raise
    try:
        if c.get("via") == "rtlil":
            rtlil.convert(m, ports=ports)
        else:
            build_netlist(Fragment.get(m, None), ports=ports)
        return [0, 0, 0]
    except Exception as e:
        if type(e).__name__ != "DriverConflict":
            return [-1, sum(map(ord, type(e).__name__))]
        msg = str(e)
        mm = _RE_CONN.search(msg)
        if mm:
            return [0, 1, 1, int(mm.group(2)), int(mm.group(1)), 1]
        mm = _RE_DOM.search(msg)
        if mm:
            return [0, 1, 2 if mm.group(3) == "domain" else 3, int(mm.group(1)), int(mm.group(2)), 1]
        return [0, 1, 0, -1, -1, 1]


def form_target(form, lo, hi, fresh, sid=0):
    """target reaching exactly bits lo..hi of signal `sid` (4 bits); `fresh(w)` allocates a dummy signal id"""
    L = hi - lo
    s = ["sig", sid]
    sl = ["sl", s, lo, hi]
    if form == "slice":
        return s if (lo, hi) == (0, 4) else sl
    if form == "part":
        if L >= 2:
            return ["part", sl, 1, L - 1, 1]               # s[lo:hi].bit_select(off1, L-1)
        return ["part", sl, 1, 1, 1]
    if form == "part0":
        if lo == 0 and hi >= 2:
            if hi == 4:
                return ["part", s, 1, 2, 2]                  # s.word_select(off1, 2)
            return ["part", s, 1, hi - 1, 1]                 # s.bit_select(off1, hi-1): reaches 0..hi
        if L == 2:
            return ["part", sl, 2, 1, 1]                     # 2-bit offset, width 1: reaches both bits
        return ["part", sl, 1, L, L]                         # word_select, one word
    if form == "cat":
        if L >= 2:
            return ["cat", [["sl", s, lo, lo + 1], ["sl", s, lo + 1, hi]]]
        return ["cat", [sl, ["sl", ["sig", fresh(2)], 0, 1]]]
    if form == "arr":
        return ["arr", [sl, ["sl", ["sig", fresh(4)], 0, L]]]
    if form == "cast":
        return ["cast", sl, "u" if lo % 2 else "s"]
    raise ValueError(form)


def mk_tree(shape, mods):
    """mods: {0,1,2} -> fragment dicts; shape fan: 0 -> [1, 2]; chain: 0 -> [1 -> [2]] (indices = preorder)"""
    if shape == "fan":
        mods[0]["sub"] = [mods[1], mods[2]] + mods[0]["sub"]
    else:
        mods[1]["sub"] = [mods[2]] + mods[1]["sub"]
        mods[0]["sub"] = [mods[1]] + mods[0]["sub"]
    return mods[0]


def drv_case(shape, places, outs=(), ports=(), via=None, tag=""):
    """places: [(lo, hi, module, domain, form, wrap)], outs: [(kind, lo, hi, module)]"""
    sigw = {"0": 4}

    def fresh(w):
        k = len(sigw)
        sigw[str(k)] = w
        return k
    mods = {i: {"st": [], "sub": []} for i in range(3)}
    for lo, hi, mod, dom, form, wrap in places:
        mods[mod]["st"].append([dom, form_target(form, lo, hi, fresh), int(wrap)])
    for kind, lo, hi, mod in outs:
        t = ["sig", 0] if (lo, hi) == (0, 4) and kind not in ("mem", "memsync") else ["sl", ["sig", 0], lo, hi]
        if kind == "memsync":
            mods[mod]["sub"].append({"out": "mem", "dom": "a", "t": [["sl", ["sig", 0], lo, hi]]})
        elif kind == "instcat":
            mods[mod]["sub"].append({"out": "inst", "t": [["cat", [["sl", ["sig", 0], lo, hi], ["sig", fresh(1)]]]]})
        else:
            mods[mod]["sub"].append({"out": kind, "t": [t]})
    c = {"k": "drv", "tag": tag, "sigw": sigw, "top": mk_tree(shape, mods), "ports": [list(p) for p in ports]}
    if via:
        c["via"] = via
    return c


def gen_drv(tier, rng):
    cases = []
    thorough = tier == "thorough"
    slots = [(lo, hi, mod, dom) for (lo, hi) in RANGES for mod in range(3) for dom in DOMS]      # 90
    # (1) all ordered pairs of placements; every choice below is a digit of the counter of EMITTED cases, so no
    # filter can alias with the form / tree-shape / If-wrap / entry-point selection
    n = k = 0
    for p, q in itertools.product(slots, slots):
        n += 1
        if not thorough and n % 7 and p[2:] != q[2:]:
            continue
        for j in range(len(FORMS) if thorough and n % 3 == 0 else 1):
            f1, f2 = FORMS[(k + j) % len(FORMS)], FORMS[(k // len(FORMS)) % len(FORMS)]
            cases.append(drv_case("fan" if (k // 36) % 2 else "chain",
                                  [p + (f1, (k // 72) % 5 == 0), q + (f2, (k // 72) % 7 == 3)],
                                  via="rtlil" if k % 13 == 0 else None, tag="pair"))
            k += 1
    # same-module pairs with every form combination (early check; S2 lives here)
    for (lo1, hi1), (lo2, hi2) in itertools.product(RANGES, RANGES):
        for d1, d2 in itertools.product(DOMS, DOMS):
            for f1, f2 in itertools.product(FORMS, FORMS):
                if not thorough and rng.random() < 0.955:
                    continue
                cases.append(drv_case("fan", [(lo1, hi1, 0, d1, f1, False), (lo2, hi2, 0, d2, f2, False)], tag="same"))
    # (2) three placements
    for _ in range(800 if not thorough else 8000):
        ps = [rng.choice(slots) + (rng.choice(FORMS), rng.random() < 0.2) for _ in range(3)]
        if rng.random() < 0.6:   # bias to near-misses: a partition of the signal
            cut = sorted(rng.sample(range(1, 4), 2))
            rs = [(0, cut[0]), (cut[0], cut[1]), (cut[1], 4)]
            if rng.random() < 0.4:
                i = rng.randrange(3)
                lo, hi = rs[i]
                rs[i] = (max(0, lo - rng.randrange(2)), min(4, hi + rng.randrange(2)))
            ps = [r + p[2:] for r, p in zip(rs, ps)]
        outs = []
        if rng.random() < 0.3:
            outs.append((rng.choice(["inst", "mem", "memsync", "iob", "instcat"]),) + rng.choice(RANGES) + (rng.randrange(3),))
        ports = [(0, rng.choice("nio"))] if rng.random() < 0.3 else []
        cases.append(drv_case(rng.choice(["fan", "chain"]), ps, outs, ports, tag="triple"))
    # (3) placement x output (digits of the emitted-case counter again)
    n = k = 0
    okinds = ("inst", "mem", "memsync", "iob", "instcat")
    for p in slots:
        for kind in okinds:
            for (lo, hi) in RANGES:
                for mod in range(3):
                    n += 1
                    if not thorough and n % 8:
                        continue
                    cases.append(drv_case("fan" if (k // len(FORMS)) % 2 else "chain",
                                          [p + (FORMS[k % len(FORMS)], (k // 12) % 4 == 0)],
                                          [(kind, lo, hi, mod)], tag="logic+out"))
                    k += 1
    # (4) output x output
    for k1, k2 in itertools.product(("inst", "mem", "memsync", "iob"), repeat=2):
        for r1, r2 in itertools.product(RANGES, RANGES):
            if not thorough and rng.random() < 0.7:
                continue
            cases.append(drv_case("fan", [], [(k1,) + r1 + (1,), (k2,) + r2 + (2,)], tag="out+out"))
    # (5) ports
    for p in slots:
        for d in "nio":
            cases.append(drv_case("fan", [p + ("slice", False)], [], [(0, d)], tag="logic+port"))
            cases.append(drv_case("fan", [p + ("part0", False)], [], [(0, d)], tag="logic+port"))
    for kind in ("inst", "mem", "iob"):
        for r in RANGES:
            for d in "nio":
                cases.append(drv_case("chain", [], [(kind,) + r + (2,)], [(0, d)], tag="out+port"))
    for d1, d2 in itertools.product("nio", repeat=2):
        cases.append(drv_case("fan", [], [], [(0, d1), (0, d2)], tag="port+port"))
        cases.append(drv_case("chain", [], [("inst", 0, 1, 2)], [(0, d1), (0, d2)], tag="port+port"))
        cases.append(drv_case("fan", [(0, 2, 1, "comb", "slice", False)], [], [(0, d1), (0, d2)], tag="port+port"))
    # (5b) two contested signals in random trees of 4-6 modules (depth up to 4), 3-5 placements, outputs, ports
    for _ in range(400 if not thorough else 6000):
        sigw = {"0": 4, "1": 4}

        def fresh(w, sigw=sigw):
            k_ = len(sigw)
            sigw[str(k_)] = w
            return k_
        nmod = rng.randrange(4, 7)
        mods_ = [{"st": [], "sub": []} for _ in range(nmod)]
        for i in range(1, nmod):
            mods_[rng.randrange(max(0, i - 2), i)]["sub"].append(mods_[i])      # parent among the two previous ones
        near = rng.random() < 0.6
        cuts = {sid: sorted(rng.sample(range(1, 4), 2)) for sid in (0, 1)}
        used = {0: 0, 1: 0}
        for _p in range(rng.randrange(3, 6)):
            sid = rng.randrange(2)
            if near and used[sid] < 3:     # a partition of the signal: bit-disjoint near miss ...
                cs = [0] + cuts[sid] + [4]
                lo, hi = cs[used[sid]], cs[used[sid] + 1]
                used[sid] += 1
                if rng.random() < 0.15:    # ... sometimes widened by one bit
                    lo, hi = max(0, lo - rng.randrange(2)), min(4, hi + rng.randrange(2))
            else:
                lo, hi = rng.choice(RANGES)
            mods_[rng.randrange(nmod)]["st"].append([rng.choice(DOMS), form_target(rng.choice(FORMS), lo, hi, fresh, sid),
                                                     int(rng.random() < 0.2)])
        if rng.random() < 0.4:
            lo, hi = rng.choice(RANGES)
            kind = rng.choice(["inst", "mem", "memsync", "iob"])
            f = {"out": "mem" if kind == "memsync" else kind, "t": [["sl", ["sig", rng.randrange(2)], lo, hi]]}
            if kind == "memsync":
                f["dom"] = "a"
            mods_[rng.randrange(nmod)]["sub"].append(f)
        ports = [[rng.randrange(2), rng.choice("nio")]] if rng.random() < 0.3 else []
        cases.append({"k": "drv", "tag": "multi", "sigw": sigw, "top": mods_[0], "ports": ports})
    # (6) hand-written: S2 reproducer (8-bit), mixed-width arrays, sliced switch value, zero-width targets
    s8 = {"0": 8}
    cases.append({"k": "drv", "tag": "S2", "sigw": s8, "ports": [], "top": {"st": [
        ["comb", ["part", ["sig", 0], 1, 2, 2], 0], ["a", ["sl", ["sig", 0], 4, 8], 0]], "sub": []}})
    cases.append({"k": "drv", "tag": "S2", "sigw": s8, "ports": [], "top": {"st": [], "sub": [
        {"st": [["comb", ["part", ["sig", 0], 1, 2, 2], 0]], "sub": []},
        {"st": [["a", ["sl", ["sig", 0], 4, 8], 0]], "sub": []}]}})
    for w1, w2 in ((2, 4), (4, 2), (3, 3)):
        for d2 in DOMS:
            for lo in range(4):
                cases.append({"k": "drv", "tag": "arr-mixed", "sigw": {"0": 4, "1": w1, "2": w2}, "ports": [],
                              "top": {"st": [["comb", ["arr", [["sig", 1], ["sig", 2]]], 0],
                                             [d2, ["sl", ["sig", 0], lo, 4], 0]],
                                      "sub": [{"st": [["a", ["sl", ["sig", 2 if w2 > w1 else 1], lo % max(w1, w2), max(w1, w2)], 0]],
                                               "sub": []}]}})
    for lo, hi in ((0, 2), (1, 3), (2, 4), (0, 4)):
        for d2 in DOMS:
            cases.append({"k": "drv", "tag": "sw-slice", "sigw": {"0": 4, "1": 4}, "ports": [],
                          "top": {"st": [["comb", ["sw", [["sig", 0], ["sig", 1]], lo, hi], 0]],
                                  "sub": [{"st": [[d2, ["sl", ["sig", 0], 0, 2], 0]], "sub": []}]}})
    # a sliced / part-selected CONCATENATION whose window starts inside a part (every start offset within the first and
    # the second part, windows crossing the boundary), plus a second driver of the remaining bits of the same signals
    # from another module or domain: bit-disjoint -> accepted, overlapping -> rejected
    ncat = 0
    for variant in ("slice-of-wide", "whole"):
        # Cat(s0[0:4], s1) with s0 8 bits wide (its upper half belongs to someone else), or Cat(s2, s1) with whole signals
        sigw_ = {"0": 8, "1": 4, "2": 4}
        first_sid, first = (0, ["sl", ["sig", 0], 0, 4]) if variant == "slice-of-wide" else (2, ["sig", 2])
        cat = ["cat", [first, ["sig", 1]]]
        windows = [("sl", lo, hi) for lo in range(8) for hi in range(lo + 1, 9)]
        windows += [("part", 1, w_, 1) for w_ in (2, 3, 5)] + [("part", 2, 2, 1), ("part", 1, 3, 3), ("part", 2, 2, 2)]
        for win in windows:
            if win[0] == "sl":
                tgt_ = ["sl", cat, win[1], win[2]]
                touched = set(range(win[1], win[2]))
            else:
                _p, offw, w_, st_ = win
                tgt_ = ["part", cat, offw, w_, st_]
                touched = {o * st_ + k_ for o in range(min((8 + st_ - 1) // st_, 2 ** offw)) for k_ in range(w_)
                           if o * st_ + k_ < 8}
            t_first = {p_ for p_ in touched if p_ < 4}            # bits of the first part
            t_second = {p_ - 4 for p_ in touched if p_ >= 4}      # bits of s1
            seconds = []
            if variant == "slice-of-wide":
                seconds.append((0, 4, 8))                           # the upper half of s0: never touched
            for sid_, used, width in ((first_sid, t_first, 4), (1, t_second, 4)):
                free = [b_ for b_ in range(width) if b_ not in used]
                if free:
                    seconds.append((sid_, free[0], free[0] + 1))   # a free bit next to the window: near miss
                    lo_ = free[0]
                    hi_ = lo_ + 1
                    while hi_ < width and hi_ not in used:
                        hi_ += 1
                    if hi_ - lo_ > 1:
                        seconds.append((sid_, lo_, hi_))           # the whole free run
                    if hi_ < width:
                        seconds.append((sid_, lo_, hi_ + 1))       # one bit too far: overlap
                if used:
                    u = min(used)
                    seconds.append((sid_, u, u + 1))               # overlap on the first touched bit
            for sid_, l2, h2 in seconds:
                ncat += 1
                if not thorough and ncat % 2 and win[0] == "sl" and not (0 < win[1] < 8 and win[1] != 4):
                    continue
                where = (ncat // 2) % 3
                second = [["comb" if where == 0 else "a", ["sl", ["sig", sid_], l2, h2], 0]]
                first_st = ["comb", tgt_, int(ncat % 7 == 0)]
                top = {"st": [first_st] + (second if where == 1 else []),
                       "sub": [] if where == 1 else [{"st": second, "sub": []}]}
                cases.append({"k": "drv", "tag": "cat-window", "sigw": dict(sigw_), "ports": [], "top": top})
    # a slice with a non-zero start of a choice between values of DIFFERENT widths (Mux(sel, a, b)[lo:hi] and
    # Array([a, b])[idx].as_value()[lo:hi]) plus a second driver of the narrower value's signal in another module or
    # domain: accepted when bit-disjoint, DriverConflict when overlapping (C06-choice-target-overhang-indexerror)
    nmix = 0
    for wa, wb in ((2, 4), (4, 2), (3, 4), (1, 4)):
        wmax, wmin = max(wa, wb), min(wa, wb)
        narrow = 1 if wa < wb else 2
        for lo in range(wmax):
            for hi in range(lo + 1, wmax + 1):
                for l2 in range(wmin):
                    for h2 in range(l2 + 1, wmin + 1):
                        nmix += 1
                        kind = "mux" if (nmix // 2) % 2 else "sw"
                        where = (nmix // 4) % 3          # other module same domain / same module other domain / both
                        second = [["comb" if where == 0 else "a", ["sl", ["sig", narrow], l2, h2], 0]]
                        first = ["comb", [kind, [["sig", 1], ["sig", 2]], lo, hi], int(nmix % 5 == 0)]
                        top = {"st": [first] + (second if where == 1 else []),
                               "sub": [] if where == 1 else [{"st": second, "sub": []}]}
                        cases.append({"k": "drv", "tag": "choice-mixed", "sigw": {"0": 4, "1": wa, "2": wb},
                                      "ports": [], "top": top})
    # zero-width targets (all in the QUICK tier): a driver that assigns no bit is no source of any bit, also when it is
    # the signal's ONLY driver (formerly widened to the whole signal by emit_drivers: finding
    # C06-zero-width-driver-vs-input-port, repaired in the repo) -- every port direction x {sole bit-less driver in comb /
    # a clocked domain / a submodule / under If / through Cat, a part-select, a cast, an array element; two bit-less
    # drivers; next to an Instance output; next to real bits of the same or another driver (still a conflict with Input)}
    z0 = lambda a, b=None: ["sl", ["sig", 0], a, a if b is None else b]
    for d in "nio":
        zw = []
        for dom in DOMS:
            for wrap in (0, 1):
                for lo in (0, 1, 4):
                    zw.append(({"st": [[dom, z0(lo), wrap]], "sub": []}, {"0": 4}, [[0, d]]))
            zw.append(({"st": [], "sub": [{"st": [], "sub": [{"st": [[dom, z0(2), 0]], "sub": []}]}]}, {"0": 4}, [[0, d]]))
            zw.append(({"st": [[dom, z0(1), 0], [dom, z0(3), 0]], "sub": []}, {"0": 4}, [[0, d]]))
            # bit-less + real bits in the SAME driver: widened as before, collides with an Input port
            zw.append(({"st": [[dom, z0(1), 0], [dom, z0(0, 2), 0]], "sub": []}, {"0": 4}, [[0, d]]))
            # bit-less driver + a real driver elsewhere / two bit-less drivers (different domain, different module)
            zw.append(({"st": [["comb", z0(1), 0]], "sub": [{"st": [[dom, z0(2, 4), 0]], "sub": []}]}, {"0": 4}, [[0, d]]))
            zw.append(({"st": [["comb", z0(1), 0]], "sub": [{"st": [[dom, z0(3), 0]], "sub": []}]}, {"0": 4}, [[0, d]]))
            zw.append(({"st": [["comb", z0(1), 0], ["a", z0(3), 0], ["b", z0(1), 0]], "sub": []}, {"0": 4}, [[0, d]]))
        for form in (["cat", [z0(2), ["sl", ["sig", 1], 0, 0]]], ["part", ["sig", 0], 1, 0, 1], ["part", z0(1, 3), 2, 0, 1],
                     ["cast", z0(3), "u"], ["arr", [z0(1), ["sl", ["sig", 1], 2, 2]]], ["cat", []],
                     ["sl", ["cat", [["sig", 0], ["sig", 1]]], 4, 4], ["sw", [["sig", 0], ["sig", 1]], 2, 2],
                     ["mux", [["sig", 0], ["sig", 1]], 1, 1]):
            for d1 in "ni":
                zw.append(({"st": [["comb", form, 0]], "sub": []}, {"0": 4, "1": 2}, [[0, d], [1, d1]]))
        for kind in ("inst", "mem", "iob"):
            for olo, ohi in ((0, 2), (0, 4), (3, 4)):
                zw.append(({"st": [["comb", z0(2), 0]], "sub": [{"out": kind, "t": [z0(olo, ohi)]}]}, {"0": 4}, [[0, d]]))
                zw.append(({"st": [], "sub": [{"out": kind, "t": [z0(olo, ohi)]}, {"st": [["a", z0(2), 0]], "sub": []}]},
                           {"0": 4}, [[0, d]]))
        # a signal of width 0 assigned as a whole; 1-bit signal
        zw.append(({"st": [["comb", ["sig", 0], 0]], "sub": []}, {"0": 0}, [[0, d]]))
        zw.append(({"st": [["a", ["sl", ["sig", 0], 1, 1], 0]], "sub": []}, {"0": 1}, [[0, d]]))
        for i, (top, sigw, ports) in enumerate(zw):
            cases.append({"k": "drv", "tag": "zero-width", "sigw": sigw, "ports": ports, "top": top,
                          **({"via": "rtlil"} if i % 3 == 0 else {})})
    return cases


# ------------------------------------------------------------------ cycle designs
# expression grammar (all leaves unsigned):
#   ["b", sid, i] | ["sl", sid, lo, hi] | ["c", v, w] | ["any", w] (AnyConst) | ["init"] (Initial())
#   ["cat", [e..]] | ["esl", e, lo, hi] | ["sgn", e] (as_signed)                       -- wiring, no cell
#   ["not", e] | ["and"|"or"|"xor", e, e] | ["mux", e1bit, e, e]                        -- per-bit cells
#   ["neg"|"bool"|"rany"|"rall"|"rxor", e]                                              -- word-level unary
#   ["add"|"sub"|"mul"|"div"|"mod"|"shl"|"shr"|"eq"|"ne"|"lt"|"le"|"gt"|"ge", e, e]     -- word-level binary
#   ["bsel"|"wsel", e, off_e, w] (Part, dynamic offset) | ["matches", e, [patterns]] (Match)
#   ["arr", idx_e, [e..]] (Array(...)[idx] on the right-hand side: Match + AssignmentList)
# statement: [domain, sid, lo, hi, expr, cond] with cond None | expr (If) | ["case", expr, pattern] (Switch/Case)
#   or a dict: {"mem": "comb"|"a", "addr": e1bit, "sid", "lo", "hi"}   read-port data on signal bits
#              {"iob": o_expr, "oe": e1bit, "sid", "lo", "hi"}         bidirectional IOBufferInstance, i on signal bits
#              {"inst": expr, "sid", "lo", "hi"}                       Instance input / output
#              {"print": expr} | {"assert": expr} | {"wport": expr}    cells without outputs
WORD1 = ("neg", "bool", "rany", "rall", "rxor")
WORD2 = ("add", "sub", "mul", "div", "mod", "shl", "shr", "eq", "ne", "lt", "le", "gt", "ge")
BIT2 = ("and", "or", "xor")


def _unify(a, b):
    (wa, sa), (wb, sb) = a, b
    if sa == sb:
        return (max(wa, wb), sa)
    if sa:
        return (max(wa, wb + 1), True)
    return (max(wa + 1, wb), True)


def eshape(e, sigw=None):
    """(width, signed) by the documented shape rules (checked against the real value in build_cyc)"""
    k = e[0]
    if k == "b":
        return (1, False)
    if k == "sl":
        return (e[3] - e[2], False)
    if k in ("c", "any"):
        return (e[-1], False)
    if k == "init":
        return (1, False)
    if k == "cat":
        return (sum(eshape(p)[0] for p in e[1]), False)
    if k == "esl":
        return (e[3] - e[2], False)
    if k == "sgn":
        return (eshape(e[1])[0], True)
    if k == "not":
        return eshape(e[1])
    if k in BIT2:
        return _unify(eshape(e[1]), eshape(e[2]))
    if k == "mux":
        return _unify(eshape(e[2]), eshape(e[3]))
    if k == "neg":
        return (eshape(e[1])[0] + 1, True)
    if k in ("bool", "rany", "rall", "rxor", "eq", "ne", "lt", "le", "gt", "ge", "matches"):
        return (1, False)
    if k in ("bsel", "wsel"):
        return (e[3], False)
    if k == "arr":
        sh = eshape(e[2][0])
        for p in e[2][1:]:
            sh = _unify(sh, eshape(p))
        return sh
    (wa, sa), (wb, sb) = eshape(e[1]), eshape(e[2])
    if k == "add":
        w, sg = _unify((wa, sa), (wb, sb))
        return (w + 1, sg)
    if k == "sub":
        w, sg = _unify((wa, sa), (wb, sb))
        return (w + 1, True)
    if k == "mul":
        return (wa + wb, sa or sb)
    if k == "div":
        return (wa + (1 if sb else 0), sa or sb)
    if k == "mod":
        return (wb, sb)
    if k == "shl":
        return (wa + 2 ** wb - 1, sa)
    if k == "shr":
        return (wa, sa)
    raise ValueError(k)


def ewidth(e, sigw=None):
    return eshape(e)[0]


def _ext(d, signed, n):
    """value extension to n bits: zero bits depend on nothing, sign bits on the MSB"""
    d = list(d[:n])
    while len(d) < n:
        d.append(set(d[-1]) if (signed and d) else set())
    return d


def _all(d):
    out = set()
    for x in d:
        out |= x
    return out


def edeps(e, sigw=None):
    """ground truth: per result bit, the set of (sid, bit) it depends on.  Word-level cells (arithmetic, shifts,
    comparisons, reductions, part-selects, pattern matches) depend on every operand bit at every result bit."""
    k = e[0]
    w, _sg = eshape(e)
    if k == "b":
        return [{(e[1], e[2])}]
    if k == "sl":
        return [{(e[1], i)} for i in range(e[2], e[3])]
    if k in ("c", "any", "init"):
        return [set() for _ in range(w)]
    if k == "cat":
        out = []
        for p in e[1]:
            out += edeps(p)
        return out
    if k == "esl":
        return edeps(e[1])[e[2]:e[3]]
    if k in ("sgn", "not"):
        return edeps(e[1])
    if k in BIT2:
        a = _ext(edeps(e[1]), eshape(e[1])[1], w)
        b = _ext(edeps(e[2]), eshape(e[2])[1], w)
        return [a[i] | b[i] for i in range(w)]
    if k == "mux":
        c = _all(edeps(e[1]))
        a = _ext(edeps(e[2]), eshape(e[2])[1], w)
        b = _ext(edeps(e[3]), eshape(e[3])[1], w)
        return [c | a[i] | b[i] for i in range(w)]
    if k in WORD1 or k == "matches":
        allb = _all(edeps(e[1]))
        return [set(allb) for _ in range(w)]
    if k in WORD2 or k in ("bsel", "wsel"):
        allb = _all(edeps(e[1])) | _all(edeps(e[2]))
        return [set(allb) for _ in range(w)]
    if k == "arr":
        idx = _all(edeps(e[1]))
        els = [_ext(edeps(p), eshape(p)[1], w) for p in e[2]]
        return [idx | _all([el[i] for el in els]) for i in range(w)]
    raise ValueError(k)


CLK_SID, RST_SID = 8, 9     # clock / reset signal of domain "a" when the case declares it ("cd")


def norm_stmt(st):
    """list form [dom, sid, lo, hi, e, cond] -> dict form {"asg": dom, "tgt": ["sl", sid, lo, hi], "e", "cond"}"""
    if isinstance(st, dict):
        return st
    dom, sid, lo, hi, e, cond = st
    return {"asg": dom, "tgt": ["sl", sid, lo, hi], "e": e, "cond": cond}


def tgt_len(t):
    if t[0] == "sl":
        return t[3] - t[2]
    if t[0] == "part":
        return t[5]
    return max(hi - lo for _s, lo, hi in t[2])


def tgt_positions(t):
    """[(position k of the target, (sid, bit) it may address, selector expression or None)]"""
    if t[0] == "sl":
        return [(k, (t[1], t[2] + k), None) for k in range(t[3] - t[2])]
    if t[0] == "part":
        _p, sid, lo, hi, off, w, stride = t
        width = hi - lo
        n = min((width + stride - 1) // stride, 2 ** eshape(off)[0])
        return [(k, (sid, lo + o * stride + k), off) for o in range(n) for k in range(w) if o * stride + k < width]
    return [(k, (sid, lo + k), t[1]) for sid, lo, hi in t[2] for k in range(hi - lo)]


def ff_deps(c):
    return {(CLK_SID, 0)} | ({(RST_SID, 0)} if c.get("cd", {}).get("async") else set())


def gt_graph(c):
    g = {}

    def add(sid, lo, hi, per_bit, common):
        for i in range(lo, hi):
            src = per_bit[i - lo] if i - lo < len(per_bit) else set()
            g.setdefault((sid, i), set()).update(src | common)
    for st in c["st"]:
        st = norm_stmt(st)
        if "mem" in st:
            add(st["sid"], st["lo"], st["hi"], [], _all(edeps(st["addr"])) if st["mem"] == "comb" else set())
        elif "iob" in st:
            add(st["sid"], st["lo"], st["hi"], edeps(st["iob"]), _all(edeps(st["oe"])))
        elif "asg" in st:
            t, e, cond = st["tgt"], st["e"], st["cond"]
            d = _ext(edeps(e), eshape(e)[1], tgt_len(t))
            cd = set()
            if cond is not None:
                cd = _all(edeps(cond[1] if cond[0] == "case" else cond))
            for k, bit, sel in tgt_positions(t):
                if st["asg"] != "comb":
                    g.setdefault(bit, set()).update(ff_deps(c))
                else:
                    g.setdefault(bit, set()).update(d[k] | cd | (_all(edeps(sel)) if sel is not None else set()))
        # instance outputs, prints, asserts, write ports: no comb path to a signal
    return g


def gt_cyclic(c):
    g = gt_graph(c)
    WHITE, GREY, BLACK = 0, 1, 2
    col = {}

    def dfs(n):
        col[n] = GREY
        for m in g.get(n, ()):
            cm = col.get(m, WHITE)
            if cm == GREY or (cm == WHITE and dfs(m)):
                return True
        col[n] = BLACK
        return False
    return any(col.get(n, WHITE) == WHITE and dfs(n) for n in list(g)), sum(len(v) for v in g.values())


def build_cyc(c):
    from amaranth.hdl._ast import AnyConst, Initial
    from amaranth.hdl import (Module, Signal, Cat, Const, Mux, Array, Print, Assert, Instance,
                              IOBufferInstance, IOPort, MemoryData, MemoryInstance)
    from amaranth.hdl import ClockDomain
    sig = {int(k): Signal(w, name=f"s{k}") for k, w in c["sigw"].items()}
    cd = None
    if "cd" in c:
        cd = ClockDomain("a", async_reset=bool(c["cd"].get("async")))
        sig[CLK_SID], sig[RST_SID] = cd.clk, cd.rst
    cnt = [0]

    def ex(e):
        v = ex0(e)
        if (len(v), v.shape().signed) != eshape(e):
            raise ValueError(f"harness shape table wrong for {e}: {v.shape()} vs {eshape(e)}")
        return v

    def ex0(e):
        k = e[0]
        if k == "b":
            return sig[e[1]][e[2]]
        if k == "sl":
            return sig[e[1]][e[2]:e[3]]
        if k == "c":
            return Const(e[1], e[2])
        if k == "any":
            return AnyConst(e[1])
        if k == "init":
            return Initial()
        if k == "cat":
            return Cat(*[ex(p) for p in e[1]])
        if k == "esl":
            return ex(e[1])[e[2]:e[3]]
        if k == "sgn":
            return ex(e[1]).as_signed()
        if k == "not":
            return ~ex(e[1])
        if k == "mux":
            return Mux(ex(e[1]), ex(e[2]), ex(e[3]))
        if k == "neg":
            return -ex(e[1])
        if k == "bool":
            return ex(e[1]).bool()
        if k == "rany":
            return ex(e[1]).any()
        if k == "rall":
            return ex(e[1]).all()
        if k == "rxor":
            return ex(e[1]).xor()
        if k == "matches":
            return ex(e[1]).matches(*e[2])
        if k == "bsel":
            return ex(e[1]).bit_select(ex(e[2]), e[3])
        if k == "wsel":
            return ex(e[1]).word_select(ex(e[2]), e[3])
        if k == "arr":
            return Array([ex(p) for p in e[2]])[ex(e[1])]
        a, b = ex(e[1]), ex(e[2])
        return {"and": lambda: a & b, "or": lambda: a | b, "xor": lambda: a ^ b, "add": lambda: a + b,
                "sub": lambda: a - b, "mul": lambda: a * b, "div": lambda: a // b, "mod": lambda: a % b,
                "shl": lambda: a << b, "shr": lambda: a >> b, "eq": lambda: a == b, "ne": lambda: a != b,
                "lt": lambda: a < b, "le": lambda: a <= b, "gt": lambda: a > b, "ge": lambda: a >= b}[k]()
    # module tree: 0 = top, 1 = child of top, 2 = child of 1; statement i lives in module c["mods"][i]
    M = [Module(), Module(), Module()]
    placement = c.get("mods") or [0] * len(c["st"])
    if any(placement):
        M[0].submodules.u1 = M[1]
        M[1].submodules.u2 = M[2]
    if cd is not None:
        M[0].domains.a = cd
    for st, mi_ in zip(c["st"], placement):
        m = M[mi_]
        cnt[0] += 1
        st = norm_stmt(st)
        if "mem" in st:
            tgt = sig[st["sid"]][st["lo"]:st["hi"]]
            mi = MemoryInstance(data=MemoryData(shape=len(tgt), depth=2, init=[]), attrs={})
            if st.get("wport"):
                mi.write_port(domain="a", addr=Const(0, 1), data=Const(0, len(tgt)), en=Const(1, 1))
            mi.read_port(domain=st["mem"], addr=ex(st["addr"]), data=tgt,
                         en=Const(1, 1), transparent_for=())
            m.submodules[f"mem{cnt[0]}"] = mi
        elif "iob" in st:
            tgt = sig[st["sid"]][st["lo"]:st["hi"]]
            m.submodules[f"iob{cnt[0]}"] = IOBufferInstance(IOPort(len(tgt), name=f"io{cnt[0]}"),
                                                            i=tgt, o=ex(st["iob"]), oe=ex(st["oe"]))
        elif "inst" in st:
            m.submodules[f"inst{cnt[0]}"] = Instance("foo", i_x=ex(st["inst"]),
                                                     o_y=sig[st["sid"]][st["lo"]:st["hi"]])
        elif "print" in st:
            m.d[st.get("dom", "comb")] += Print(ex(st["print"]))
        elif "assert" in st:
            m.d[st.get("dom", "comb")] += Assert(ex(st["assert"]))
        else:
            dom, t, e, cond = st["asg"], st["tgt"], st["e"], st["cond"]
            if t[0] == "sl":
                lhs = sig[t[1]][t[2]:t[3]]
            elif t[0] == "part":
                base = sig[t[1]][t[2]:t[3]]
                lhs = base.bit_select(ex(t[4]), t[5]) if t[6] == 1 else base.word_select(ex(t[4]), t[5])
            else:
                lhs = Array([sig[s_][lo:hi] for s_, lo, hi in t[2]])[ex(t[1])]
            if len(lhs) != tgt_len(t):
                raise ValueError(f"harness target length wrong for {t}")
            a = lhs.eq(ex(e))
            if cond is None:
                m.d[dom] += a
            elif cond[0] == "case":
                with m.Switch(ex(cond[1])):
                    with m.Case(cond[2]):
                        m.d[dom] += a
            else:
                with m.If(ex(cond)):
                    m.d[dom] += a
    m = M[0]
    return m, [sig[i] for i in c.get("ports", [])]


def emit_pre_check(c):
    """the netlist exactly as Netlist.check_comb_cycles sees it"""
    from amaranth.hdl import _nir
    from amaranth.hdl._ir import Fragment, _emit_netlist
    m, ports = build_cyc(c)
    design = Fragment.get(m, None).prepare(ports=ports, hierarchy=("top",))
    nl = _nir.Netlist()
    _emit_netlist(nl, design)
    return nl


def run_checker(nl):
    try:
        nl.check_comb_cycles()
        return [0, 0]
    except Exception as e:
        n = type(e).__name__
        if n == "CombinationalCycle":
            return [1, str(e).count("\n") - 1]
        if n == "AssertionError":
            return [2, 0]
        return [-1, sum(map(ord, n))]


def struct_obs(nl):
    out = []
    for idx, cell in enumerate(nl.cells):
        for net in cell.output_nets(idx):
            edges = [int(s) for s, _loc in cell.comb_edges_to(net.bit)]
            out += [int(net), int(bool(cell.comb_edges_is_per_bit())), len(edges)] + edges
    return out


def run_cyc(c):
    from amaranth.hdl._ir import build_netlist, Fragment
    nl = emit_pre_check(c)
    so = struct_obs(nl)
    v = run_checker(nl)
    # the public path must give the same verdict
    m, ports = build_cyc(c)
    try:
        build_netlist(Fragment.get(m, None), ports=ports)
        v2 = 0
    except Exception as e:
        v2 = {"CombinationalCycle": 1, "AssertionError": 2}.get(type(e).__name__, -1)
    if v2 != v[0]:
        return [-2, v2, v[0]]
    cyc, _ = gt_cyclic(c)
    gt_ok = int((v[0] == 1) == cyc)
    # ... ++ [rejected with CombinationalCycle (vs the Gallina design-level oracle), Python oracle agrees]
    # ... ++ verdict again (vs the TRANSLATED check_comb_cycles run on the cells as Python objects)
    return v + [1] + so + v + [int(v[0] == 1), gt_ok]


def coq_net(n):
    n = int(n)
    return f"(NL {-n})" if n < 0 else f"(NC {n >> 16} {n & 0xffff})"


def coq_nets(v):
    return "[" + "; ".join(coq_net(n) for n in v) + "]"


_OPK = {"~": "KNot", "&": "KAnd", "|": "KOr", "^": "KXor", "m": "KMux"}


def coq_cell(cell):
    from amaranth.hdl import _nir
    if isinstance(cell, _nir.Top):
        return "(CTop [" + "; ".join(f"({s}%nat, {w}%nat)" for s, w in cell.ports_i.values()) + "])"
    if isinstance(cell, _nir.Operator):
        return (f"(COperator {_OPK.get(cell.operator, 'KOther')} {cell.width} ["
                + "; ".join(coq_nets(i) for i in cell.inputs) + "])")
    if isinstance(cell, _nir.Part):
        return f"(CPart {cell.width} {coq_nets(cell.value)} {coq_nets(cell.offset)})"
    if isinstance(cell, _nir.Match):
        return f"(CMatch {len(cell.patterns)} {coq_net(cell.en)} {coq_nets(cell.value)})"
    if isinstance(cell, _nir.AssignmentList):
        asg = "; ".join(f"({coq_net(a.cond)}, {a.start}%nat, {coq_nets(a.value)})" for a in cell.assignments)
        return f"(CAssign {coq_nets(cell.default)} [{asg}])"
    if isinstance(cell, _nir.FlipFlop):
        return f"(CFlipFlop {len(cell.data)} {coq_net(cell.clk)} {coq_net(cell.arst)})"
    if isinstance(cell, _nir.AsyncReadPort):
        return f"(CAsyncRead {cell.width} {coq_nets(cell.addr)})"
    if isinstance(cell, _nir.SyncReadPort):
        return f"(CSyncRead {cell.width})"
    if isinstance(cell, _nir.Initial):
        return "CInitial"
    if isinstance(cell, _nir.AnyValue):
        return f"(CAnyValue {cell.width})"
    if isinstance(cell, _nir.Instance):
        return "(CInstance [" + "; ".join(f"({s}%nat, {w}%nat)" for s, w in cell.ports_o.values()) + "])"
    if isinstance(cell, _nir.IOBuffer):
        inp = cell.dir is _nir.IODirection.Input
        outp = cell.dir is _nir.IODirection.Output
        return (f"(CIOB {blit(inp)} {blit(outp)} {len(cell.port)} {coq_nets(cell.o if not inp else [])} "
                f"{coq_net(cell.oe if not inp else 0)})")
    return "CNoOut"


def _zs(txt):
    return "(zstr " + zlist([ord(ch) for ch in txt]) + ")"


def coq_pycell(cell):
    """the cell as the typed __init__ fields of its Python class (Gen/NirGen.v pycell)"""
    from amaranth.hdl import _nir
    G = "NirGen."
    if isinstance(cell, _nir.Top):
        return f"({G}PTop [" + "; ".join(f"({_zs(n)}, ({z(s_)}, {z(w)}))" for n, (s_, w) in cell.ports_i.items()) + "])"
    if isinstance(cell, _nir.Operator):
        return f"({G}POperator {_zs(cell.operator)} [" + "; ".join(coq_nets(i) for i in cell.inputs) + "])"
    if isinstance(cell, _nir.Part):
        return f"({G}PPart {coq_nets(cell.value)} {coq_nets(cell.offset)} {z(cell.width)} {z(cell.stride)})"
    if isinstance(cell, _nir.Match):
        pats = "; ".join("[" + "; ".join(_zs(p_) for p_ in pl) + "]" for pl in cell.patterns)
        return f"({G}PMatch {coq_net(cell.en)} {coq_nets(cell.value)} [{pats}])"
    if isinstance(cell, _nir.AssignmentList):
        asg = "; ".join(f"({G}mkAssignment {coq_net(a.cond)} {z(a.start)} {coq_nets(a.value)})" for a in cell.assignments)
        return f"({G}PAssignmentList {coq_nets(cell.default)} [{asg}])"
    if isinstance(cell, _nir.FlipFlop):
        return f"({G}PFlipFlop {coq_nets(cell.data)} {z(cell.init)} {coq_net(cell.clk)} {coq_net(cell.arst)})"
    if isinstance(cell, _nir.Memory):
        return f"{G}PMemory"
    if isinstance(cell, _nir.SyncWritePort):
        return f"({G}PSyncWritePort {coq_nets(cell.data)} {coq_nets(cell.addr)} {coq_nets(cell.en)} {coq_net(cell.clk)})"
    if isinstance(cell, _nir.AsyncReadPort):
        return f"({G}PAsyncReadPort {z(cell.width)} {coq_nets(cell.addr)})"
    if isinstance(cell, _nir.SyncReadPort):
        return f"({G}PSyncReadPort {z(cell.width)} {coq_nets(cell.addr)} {coq_net(cell.en)} {coq_net(cell.clk)})"
    if isinstance(cell, _nir.AsyncPrint):
        return f"({G}PAsyncPrint {coq_net(cell.en)})"
    if isinstance(cell, _nir.SyncPrint):
        return f"({G}PSyncPrint {coq_net(cell.en)} {coq_net(cell.clk)})"
    if isinstance(cell, _nir.Initial):
        return f"{G}PInitial"
    if isinstance(cell, _nir.AnyValue):
        return f"({G}PAnyValue {z(cell.width)})"
    if isinstance(cell, _nir.AsyncProperty):
        return f"({G}PAsyncProperty {coq_net(cell.test)} {coq_net(cell.en)})"
    if isinstance(cell, _nir.SyncProperty):
        return f"({G}PSyncProperty {coq_net(cell.test)} {coq_net(cell.en)} {coq_net(cell.clk)})"
    if isinstance(cell, _nir.Instance):
        return f"({G}PInstance [" + "; ".join(f"({_zs(n)}, ({z(s_)}, {z(w)}))" for n, (s_, w) in cell.ports_o.items()) + "])"
    if isinstance(cell, _nir.IOBuffer):
        d = {"Input": "IO_Input", "Output": "IO_Output", "Bidir": "IO_Bidir"}[cell.dir.name]
        inp = cell.dir is _nir.IODirection.Input
        return (f"({G}PIOBuffer {zlist([int(n) for n in cell.port])} {G}{d} {coq_nets(cell.o if not inp else [])} "
                f"{coq_net(cell.oe if not inp else 0)})")
    raise ValueError(type(cell).__name__)


def coq_netlist(nl):
    cells = "; ".join(coq_cell(c) for c in nl.cells)
    conn = "; ".join(f"({-int(k)}%nat, {coq_net(v)})" for k, v in nl.connections.items())
    sigs = "; ".join(coq_nets(v) for v in nl.signals.values())
    return f"(Netlist [{cells}] [{conn}] [{sigs}])"


def gen_cyc(tier, rng):
    cases = []

    def rexpr(srcs, depth, word):
        """random expression whose leaves are exactly drawn from `srcs` (list of (sid, bit))"""
        r = rng.random()
        if depth == 0 or r < 0.25:
            s, b = rng.choice(srcs)
            return ["b", s, b]
        if r < 0.35:
            return ["not", rexpr(srcs, depth - 1, word)]
        if r < 0.6:
            return [rng.choice(["and", "or", "xor"]), rexpr(srcs, depth - 1, word), rexpr(srcs, depth - 1, word)]
        if r < 0.7:
            return ["mux", ["b"] + list(rng.choice(srcs)), rexpr(srcs, depth - 1, word), rexpr(srcs, depth - 1, word)]
        if r < 0.85:
            return ["cat", [rexpr(srcs, depth - 1, word) for _ in range(rng.randrange(1, 3))]]
        if word:
            return [rng.choice(["add", "sub", "mul", "shl", "shr", "lt", "eq"]),
                    rexpr(srcs, depth - 1, False), rexpr(srcs, depth - 1, False)]
        return ["c", rng.randrange(2), 1]

    n = 600 if tier == "quick" else 2500
    for _ in range(n):
        # signals: s0 (up to 4 bits), s1 (up to 2 bits): <= 6 bits, plus an input s2
        w0, w1 = rng.randrange(2, 5), rng.randrange(1, 3)
        sigw = {"0": w0, "1": w1, "2": 2}
        bits = [(0, i) for i in range(w0)] + [(1, i) for i in range(w1)]
        rng.shuffle(bits)
        # a chain through the bits in shuffled order closes into a ring: bits[i] <- f(bits[i-1] ...)
        ring = bits[:rng.randrange(1, len(bits) + 1)]
        st = []
        word_used = False
        for i, (sid, b) in enumerate(ring):
            prev = ring[i - 1]
            srcs = [prev] + [(2, rng.randrange(2))]
            if rng.random() < 0.3 and i > 0:
                srcs.append(ring[rng.randrange(i)])       # extra back edges keep it interesting
            word = (not word_used) and rng.random() < 0.35
            e = rexpr(srcs, rng.randrange(0, 3), word)
            if any(f"'{o}'" in repr(e) for o in WORD2):
                word_used = True
            leaves = repr(e)
            if f"['b', {prev[0]}, {prev[1]}]" not in leaves:
                e = [rng.choice(["and", "xor", "or"]), e, ["b", prev[0], prev[1]]]
            cond = None
            if rng.random() < 0.2:
                cond = ["b", 2, rng.randrange(2)]
            elif rng.random() < 0.1:
                cond = ["b"] + list(prev)
            # the expression may be wider than 1 bit: only bit 0 lands in the target unless we widen the target
            st.append(["comb", sid, b, b + 1, e, cond])
        c = {"k": "cyc", "sigw": sigw, "st": st, "ports": [2], "variant": "ring"}
        place = [rng.randrange(3) for _ in st] if rng.random() < 0.5 else None
        if place:
            c["mods"] = place
            c["variant"] = "ring-hier"
        cases.append(c)
        # cut one edge: replace one statement by a constant / an input / a sync statement
        j = rng.randrange(len(st))
        st2 = [list(s) for s in st]
        how = rng.choice(["const", "input", "sync", "drop"])
        if how == "const":
            st2[j][4] = ["c", 1, 1]; st2[j][5] = None
        elif how == "input":
            st2[j][4] = ["not", ["b", 2, 0]]; st2[j][5] = None
        elif how == "sync":
            st2[j][0] = "a"
        else:
            del st2[j]
        c2 = {"k": "cyc", "sigw": sigw, "st": st2, "ports": [2], "variant": "cut-" + how}
        if place:
            c2["mods"] = [m_ for i_, m_ in enumerate(place) if not (how == "drop" and i_ == j)]
        cases.append(c2)
    # word-level operator with the cycle through the entered bit / a sibling bit; bits of one signal feeding others
    for w in (2, 3, 4):
        for tb in range(w):
            for fb in range(w):
                cases.append({"k": "cyc", "sigw": {"0": w, "2": 2}, "ports": [2], "variant": "word",
                              "st": [["comb", 0, tb, tb + 1, ["add", ["b", 0, fb], ["b", 2, 0]], None]]})
                cases.append({"k": "cyc", "sigw": {"0": w, "2": 2}, "ports": [2], "variant": "word-wide",
                              "st": [["comb", 0, 0, w, ["add", ["b", 0, fb], ["sl", 2, 0, 2]], None]]})
                cases.append({"k": "cyc", "sigw": {"0": w, "2": 2}, "ports": [2], "variant": "self-feed",
                              "st": [["comb", 0, tb, tb + 1, ["xor", ["b", 0, fb], ["b", 2, 1]], None]]})
    for w in (2, 3, 4):   # shift chains: s[i+1] = ~s[i] — never cyclic
        cases.append({"k": "cyc", "sigw": {"0": w, "2": 2}, "ports": [2], "variant": "shift",
                      "st": [["comb", 0, 1, w, ["not", ["sl", 0, 0, w - 1]], None],
                             ["comb", 0, 0, 1, ["b", 2, 0], None]]})
        cases.append({"k": "cyc", "sigw": {"0": w, "2": 2}, "ports": [2], "variant": "rotate",
                      "st": [["comb", 0, 0, w, ["cat", [["sl", 0, w - 1, w], ["sl", 0, 0, w - 1]]], None]]})
    # the audit's example: s.bit_select(s[0:2], 1).eq(1), and near misses
    for off, lo, hi in ((["sl", 0, 0, 2], 0, 4), (["sl", 0, 0, 2], 2, 4), (["sl", 0, 2, 4], 0, 2), (["sl", 0, 1, 3], 0, 4),
                        (["sl", 0, 3, 4], 0, 3)):
        cases.append({"k": "cyc", "sigw": {"0": 4, "2": 2}, "ports": [2], "variant": "lsel",
                      "st": [{"asg": "comb", "tgt": ["part", 0, lo, hi, off, 1, 1], "e": ["c", 1, 1], "cond": None}]})
    cases += gen_kinds(tier, rng)
    return cases


def live(fb, w=4):
    """a w-bit value whose only live bit is bit fb of signal 0 (pure wiring)"""
    parts = []
    if fb:
        parts.append(["c", 0, fb])
    parts.append(["b", 0, fb])
    if w - fb - 1:
        parts.append(["c", 0, w - fb - 1])
    return ["cat", parts]


def kind_exprs(X, fb):
    """one expression per cell kind the emitter can produce, with the value X (live bit fb of signal 0) on each
    operand position; I2/I4/I1 are inputs"""
    I1, I2, I4 = ["b", 2, 0], ["sl", 2, 0, 2], ["sl", 3, 0, 4]
    Xb = ["esl", X, fb, fb + 1]
    ks = {}
    for o in WORD1:
        ks[o] = [o, X]
    for o in WORD2:
        ks[o + ".l"] = [o, X, I2]
        if o in ("shl", "shr"):
            ks[o + ".r"] = [o, I4, ["esl", X, 0, 2] if fb < 2 else ["esl", X, 2, 4]]
        else:
            ks[o + ".r"] = [o, I4, X]
    for o in ("mul", "div", "mod", "shr", "lt", "le", "gt", "ge", "add", "sub", "eq"):
        ks["s" + o] = [o, ["sgn", X], ["sgn", I2]] if o != "shr" else [o, ["sgn", X], I2]
    ks["sshl"] = ["shl", ["sgn", X], I2]
    ks["not"] = ["not", X]
    for o in BIT2:
        ks[o] = [o, X, I4]
        ks[o + ".sx"] = [o, ["sgn", ["esl", X, 0, 2]], I4] if fb < 2 else [o, I4, ["sgn", ["esl", X, 2, 4]]]
    ks["mux.d"] = ["mux", I1, X, I4]
    ks["mux.e"] = ["mux", I1, I4, X]
    ks["mux.s"] = ["mux", Xb, I4, ["not", I4]]
    ks["bsel.v"] = ["bsel", X, I2, 4]
    ks["bsel.o"] = ["bsel", I4, ["esl", X, 0, 2] if fb < 2 else ["esl", X, 2, 4], 4]
    ks["wsel.v"] = ["wsel", X, I1, 2]
    ks["wsel.o"] = ["wsel", I4, Xb, 2]
    ks["part.static"] = ["esl", ["cat", [X, I2]], 0, 4]
    ks["matches"] = ["matches", X, ["1--0", "-01-"]]
    ks["matches.dc"] = ["matches", X, ["----"]]
    ks["arr.i"] = ["arr", Xb, [I4, ["not", I4]]]
    ks["arr.e"] = ["arr", I1, [X, I4]]
    ks["any"] = ["xor", X, ["any", 4]]
    ks["init"] = ["and", X, ["cat", [["init"], ["init"], ["init"], ["init"]]]]
    return ks


def gen_kinds(tier, rng):
    """for every cell kind: the cycle a[tb] -> cell(.. a[fb] ..)[rb] -> a[tb], entering and leaving the cell at the
    same bit index (fb = tb) or at different ones (closed by a[fb] = a[tb] ^ input), each with an acyclic twin"""
    cases = []
    sigw = {"0": 4, "2": 2, "3": 4, "4": 1}
    arrangements = [("same", 0, 0), ("same", 2, 2), ("same", 3, 3), ("up", 1, 3), ("down", 2, 0)]
    if tier == "thorough":
        arrangements = [("same", i, i) for i in range(4)] + [("up" if f < t else "down", f, t)
                                                             for f in range(4) for t in range(4) if f != t]

    def emit(kind, arr, fb, tb, body, extra=(), cd=None):
        for cyc in (True, False):
            st = [list(x) if isinstance(x, list) else dict(x) for x in body]
            nb = len(st)
            if fb != tb:
                # closing edge a[fb] <- a[tb]; the acyclic twin closes from an input instead
                st.append(["comb", 0, fb, fb + 1, ["xor", ["b", 0, tb] if cyc else ["b", 3, tb], ["b", 2, 1]], None])
            elif not cyc:
                continue
            case = {"k": "cyc", "sigw": sigw, "st": st + list(extra), "ports": [2, 3],
                    "variant": f"kind:{arr}", "kind": kind}
            if cd is not None:
                case["cd"] = cd
            if arr in ("down", "up") and fb != tb and len(cases) % 2 and kind != "assign.partial":
                # the cycle spans the hierarchy: body in submodule u1, closing edge in u1.u2, the rest on top —
                # unless the body's target also reaches the closing edge's bit (two modules driving one bit is a
                # DriverConflict, not a cycle design)
                body_bits = set()
                for st_ in st[:nb]:
                    st_ = norm_stmt(st_)
                    if "asg" in st_:
                        body_bits |= {bit for _k, bit, _sel in tgt_positions(st_["tgt"])}
                    elif "sid" in st_:
                        body_bits |= {(st_["sid"], i_) for i_ in range(st_["lo"], st_["hi"])}
                if (0, fb) not in body_bits:
                    case["mods"] = [1] * nb + [2] + [0] * len(extra)
            cases.append(case)
    for arr, fb, tb in arrangements:
        X = live(fb)
        for kind, E in kind_exprs(X, fb).items():
            w = eshape(E)[0]
            rb = min(tb, w - 1)
            emit(kind, arr, fb, tb, [["comb", 0, tb, tb + 1, ["esl", E, rb, rb + 1], None]])
            if arr == "same":
                # acyclic twin of the same-index arrangement: the live bit is another one, nothing closes the loop
                fo = (fb + 1) % 4
                E2 = kind_exprs(live(fo), fo)[kind]
                cases.append({"k": "cyc", "sigw": sigw, "ports": [2, 3], "variant": "kind:same-cut", "kind": kind,
                              "st": [["comb", 0, tb, tb + 1, ["esl", E2, min(tb, eshape(E2)[0] - 1),
                                                              min(tb, eshape(E2)[0] - 1) + 1], None]]})
        # whole-word forms: a = f(a) (every bit enters and leaves at its own index)
        if arr == "same" and fb == 0:
            A = ["sl", 0, 0, 4]
            for kind, E in (("shl.word", ["shl", A, ["sl", 2, 0, 2]]), ("shr.word", ["shr", A, ["sl", 2, 0, 2]]),
                            ("mux.word", ["mux", ["b", 2, 0], ["esl", ["shl", ["xor", A, ["sl", 3, 0, 4]], ["sl", 2, 0, 2]], 0, 4],
                                          ["sl", 3, 0, 4]]),
                            ("and-shl.bit", ["esl", ["shl", ["and", A, ["c", 4, 4]], ["sl", 2, 0, 2]], 2, 3])):
                lo, hi = (2, 3) if kind == "and-shl.bit" else (0, 4)
                cases.append({"k": "cyc", "sigw": sigw, "ports": [2, 3], "variant": "kind:word", "kind": kind,
                              "st": [["comb", 0, lo, hi, E, None]]})
        # statement-level and fragment-level kinds
        Xb = ["b", 0, fb]
        src = ["b", 3, tb]
        emit("if", arr, fb, tb, [["comb", 0, tb, tb + 1, src, Xb]])
        emit("if.word", arr, fb, tb, [["comb", 0, tb, tb + 1, src, X]])
        emit("case.dc", arr, fb, tb, [["comb", 0, tb, tb + 1, src, ["case", X, "-1--" if fb == 2 else "1---"]]])
        emit("assign.partial", arr, fb, tb, [["comb", 0, 0, 4, ["sl", 3, 0, 4], ["b", 2, 0]],
                                             ["comb", 0, tb, tb + 1, Xb, ["b", 2, 1]]])
        # the ring passes through the DEFAULT input of an AssignmentList: the first assignment of signal 4 is
        # unconditional, covers the whole signal and has a signal-only right-hand side (emit_value folds it into the
        # cell's default), a conditional override follows, and the loop closes only through that first assignment
        emit("assign.default", arr, fb, tb, [["comb", 4, 0, 1, Xb, None],
                                             ["comb", 4, 0, 1, ["c", 0, 1], ["b", 2, 1]],
                                             ["comb", 0, tb, tb + 1, ["b", 4, 0], None]])
        emit("flipflop", arr, fb, tb, [["a", 0, tb, tb + 1, Xb, None]])
        # dependencies through the assignment TARGET: part-select offset / array index reading the ring
        emit("lsel.part", arr, fb, tb, [{"asg": "comb", "tgt": ["part", 0, tb, tb + 1, Xb, 1, 1], "e": src, "cond": None}])
        emit("lsel.part2", arr, fb, tb, [{"asg": "comb", "tgt": ["part", 0, tb, min(4, tb + 2), ["cat", [Xb, ["b", 2, 0]]], 1, 1],
                                          "e": src, "cond": None}])
        emit("lsel.word", arr, fb, tb, [{"asg": "comb", "tgt": ["part", 0, 2 * (tb // 2), 2 * (tb // 2) + 2, Xb, 1, 1],
                                         "e": src, "cond": None}] if fb // 2 != tb // 2 or fb == tb else
             [{"asg": "comb", "tgt": ["part", 0, tb, tb + 1, Xb, 1, 1], "e": src, "cond": None}])
        emit("lsel.arr", arr, fb, tb, [{"asg": "comb", "tgt": ["arr", Xb, [[0, tb, tb + 1], [4, 0, 1]]], "e": src, "cond": None}])
        emit("lsel.arr.sync", arr, fb, tb, [{"asg": "a", "tgt": ["arr", Xb, [[0, tb, tb + 1], [4, 0, 1]]], "e": src, "cond": None}])
        # a register's output depends on its clock and on an asynchronous reset
        emit("ff.clk", arr, fb, tb, [["a", 0, tb, tb + 1, src, None], ["comb", CLK_SID, 0, 1, ["xor", Xb, ["b", 2, 0]], None]],
             cd={"async": False})
        emit("ff.arst", arr, fb, tb, [["a", 0, tb, tb + 1, src, None], ["comb", RST_SID, 0, 1, ["and", Xb, ["b", 2, 0]], None]],
             cd={"async": True})
        emit("ff.srst", arr, fb, tb, [["a", 0, tb, tb + 1, src, None], ["comb", RST_SID, 0, 1, ["and", Xb, ["b", 2, 0]], None]],
             cd={"async": False})
        emit("ff.clk.gate", arr, fb, tb, [["a", 0, tb, tb + 1, src, None],
                                          ["comb", CLK_SID, 0, 1, ["and", ["b", 2, 0], ["rany", X]], None]], cd={"async": True})
        emit("mem.async", arr, fb, tb, [{"mem": "comb", "addr": Xb, "sid": 0, "lo": tb, "hi": tb + 1}])
        emit("mem.sync", arr, fb, tb, [{"mem": "a", "addr": Xb, "sid": 0, "lo": tb, "hi": tb + 1, "wport": 1}])
        emit("iob.o", arr, fb, tb, [{"iob": Xb, "oe": ["b", 2, 0], "sid": 0, "lo": tb, "hi": tb + 1}])
        emit("iob.oe", arr, fb, tb, [{"iob": src, "oe": Xb, "sid": 0, "lo": tb, "hi": tb + 1}])
        emit("instance", arr, fb, tb, [{"inst": X, "sid": 0, "lo": tb, "hi": tb + 1}])
        emit("print+assert", arr, fb, tb, [["comb", 0, tb, tb + 1, ["xor", Xb, ["b", 2, 0]], None]],
             extra=[{"print": X}, {"assert": ["rany", X]}, {"print": X, "dom": "a"}, {"assert": ["rany", X], "dom": "a"}])
    return cases


# ------------------------------------------------------------------ interface
def gen_cases(tier, seed):
    rng = random.Random(seed)
    return gen_drv(tier, rng) + gen_cyc(tier, rng)


def run_impl(c):
    if c["k"] == "drv":
        return run_drv(c)
    return run_cyc(c)


_XW2 = {"add": "X_add", "sub": "X_sub", "mul": "X_mul", "div": "X_div", "mod": "X_mod", "shl": "X_shl", "shr": "X_shr"}


def coq_cexpr(e):
    k = e[0]
    if k == "b":
        return f"(XSl {e[1]} {e[2]} {e[2] + 1})"
    if k == "sl":
        return f"(XSl {e[1]} {e[2]} {e[3]})"
    if k in ("c", "any"):
        return f"(XConst {e[-1]})"
    if k == "init":
        return "(XConst 1)"
    if k == "cat":
        return "(XCat [" + "; ".join(coq_cexpr(p) for p in e[1]) + "])"
    if k == "esl":
        return f"(XESl {coq_cexpr(e[1])} {e[2]} {e[3]})"
    if k == "sgn":
        return f"(XSgn {coq_cexpr(e[1])})"
    if k == "not":
        return f"(XNot {coq_cexpr(e[1])})"
    if k in BIT2:
        return f"(XBw {coq_cexpr(e[1])} {coq_cexpr(e[2])})"
    if k == "mux":
        return f"(XMux {coq_cexpr(e[1])} {coq_cexpr(e[2])} {coq_cexpr(e[3])})"
    if k == "neg":
        return f"(XW1 X_neg {coq_cexpr(e[1])})"
    if k in WORD1:
        return f"(XW1 X_red {coq_cexpr(e[1])})"
    if k in WORD2:
        return f"(XW2 {_XW2.get(k, 'X_cmp')} {coq_cexpr(e[1])} {coq_cexpr(e[2])})"
    if k in ("bsel", "wsel"):
        return f"(XPart {coq_cexpr(e[1])} {coq_cexpr(e[2])} {e[3]})"
    if k == "matches":
        return f"(XMatches {coq_cexpr(e[1])})"
    if k == "arr":
        return f"(XArr {coq_cexpr(e[1])} [" + "; ".join(coq_cexpr(p) for p in e[2]) + "])"
    raise ValueError(k)


def coq_cstmt(st, c):
    st = norm_stmt(st)
    if "mem" in st:
        return f"(CSMem {blit(st['mem'] == 'comb')} {coq_cexpr(st['addr'])} {st['sid']} {st['lo']} {st['hi']})"
    if "iob" in st:
        return f"(CSIob {coq_cexpr(st['iob'])} {coq_cexpr(st['oe'])} {st['sid']} {st['lo']} {st['hi']})"
    if "asg" not in st:
        return "CSNone"
    t = st["tgt"]
    if t[0] == "sl":
        ct = f"(CTSl {t[1]} {t[2]} {t[3]})"
    elif t[0] == "part":
        ct = f"(CTPart {t[1]} {t[2]} {t[3]} {coq_cexpr(t[4])} {t[5]} {t[6]})"
    else:
        ct = f"(CTArr {coq_cexpr(t[1])} [" + "; ".join(f"({s_}%nat, {lo}%nat, {hi}%nat)" for s_, lo, hi in t[2]) + "])"
    if st["asg"] == "comb":
        ff = "None"
    else:
        ff = "(Some [" + "; ".join(f"({a}%nat, {b}%nat)" for a, b in sorted(ff_deps(c))) + "])"
    cond = st["cond"]
    cc = "None" if cond is None else f"(Some {coq_cexpr(cond[1] if cond[0] == 'case' else cond)})"
    return f"(CSAssign {ff} {ct} {coq_cexpr(st['e'])} {cc})"


def coq_term(c):
    if c["k"] == "drv":
        return f"k_drv {coq_design(c)}"
    sts = "[" + "; ".join(coq_cstmt(st, c) for st in c["st"]) + "]"
    nl = emit_pre_check(c)
    pycells = "[" + "; ".join(coq_pycell(cell) for cell in nl.cells) + "]"
    if os.environ.get("VERIF_GENRUN", "1") == "0":
        # Gen/NirGen.v does not compile (the source no longer fits the translated subset): the verdict of the translated
        # checker is replaced by the hand-written model's own verdict, so the model still answers every case
        return (f"(let g := {coq_netlist(nl)} in k_cyc g ++ firstn 2 (k_cyc g) ++ k_gt {sts} ++ [1])")
    return (f"(let g := {coq_netlist(nl)} in k_cyc g ++ k_cycgen g {pycells} ++ k_gt {sts} ++ [1])")


def classify(c):
    if c["k"] == "drv":
        return "drv:" + c.get("tag", "")
    return "cyc:" + c.get("variant", "") + ("/" + c["kind"] if "kind" in c and c["variant"] == "kind:same" else "")


def _count_sources(f):
    if "out" in f:
        return 1
    return len(f["st"]) + sum(_count_sources(s) for s in f["sub"])


def nontrivial(c, obs):
    if c["k"] == "drv":
        return _count_sources(c["top"]) + sum(1 for _s, d in c["ports"] if d == "i") >= 2
    return gt_cyclic(c)[1] >= 1


def _has_part(f):
    if "out" in f:
        return False
    return any("'part'" in repr(t) for _d, t, _w in f["st"]) or any(_has_part(s) for s in f["sub"])


def known_finding(c, obs, model):
    if c["k"] == "drv":
        # faithful model agrees with the code everywhere but the SPEC flag (last element): rejected although
        # no bit has two sources
        if obs[:-1] == model[:-1] and obs[-1] == 1 and model[-1] == 0:
            if obs[0] == 1 and _has_part(c["top"]):
                return S2
        return None
    return None


def explain(c):
    if c["k"] == "drv":
        return ("[1, sig, bit, spec] early SyntaxError; [0, 0, spec] accepted; [0, 1, kind, sig, bit, spec] "
                "DriverConflict (kind 1 connect / 2 domain / 3 module); spec = 1 iff some bit has two sources")
    return "[verdict 0 ok/1 CombinationalCycle/2 AssertionError, len(path), wf] ++ per-net comb edges ++ [ground truth ok]"

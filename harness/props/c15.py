"""C15 — data layouts and shaped enumerations obey the shape-castable laws."""
import itertools, random
from common import z, zlist, blit

ID = "C15"
LEVEL = "proof"
PROPS_FILE = "C15.v"
RUN_MODULE = "RunC15"
TRANSLATOR_UNITS = ["data"]
SHARD = 400
RULE = ("layout trees of depth <= 3 (struct/union/array/flexible over u0..u5, s1..s5, small shaped Enum/IntEnum leaves "
        "incl. SIGNED-shaped ones with negative members (exhaustive block over 8 fixed layouts: every bit pattern of the "
        "constant and of the view target, dynamic index, Signal(layout); 30% of the random layouts; designs written from "
        "Signals of the signed enumeration, whose RTLIL wires carry enum_value_* attributes; histogram tag +senum), "
        "range(a, b) fields and plain Python Enum/IntEnum/Flag fields (width and signedness computed in Coq by the C10 models "
        "cast_range / cast_enum over all members incl. aliases), shaped Flag/IntFlag fields with boundary STRICT or KEEP "
        "(model: enumeration leaf of Data.flag_values)) "
        "built with the real classes: placement (size, offset/width of every field by iteration and by key), "
        "Layout.const(init) + nested Const.__getitem__ paths, from_bits/as_bits + every field (raw exhaustive for size <= 8 "
        "incl. -1 and 2^size, random above), simulator ctx.get(view[path]) incl. dynamic array index, "
        "ctx.set(view[path], x) then ctx.get(view.as_value()) and read-back; malformed initialisers / keys compared on "
        "exception class; Layout.const and Signal(layout, init=...) with MIXED initialiser kinds (hdl.Const of narrower/wider/"
        "other-signed shapes, lib.data.Const of equal/different layouts, enum members, Python lists, nested dicts, "
        "overlapping flexible fields in varying order) read back through Const.__getitem__ and in the simulator; "
        "DESIGNS whose statements assign through view fields (m.d.comb / m.d.sync / both += view[path].eq(signal), "
        "dynamic array index, enum and nested-layout targets with View.eq(View), data.Struct classes with attribute access, "
        "fields up to 33 bits): compiled simulator AND the RTLIL emitted by back.rtlil, read back by harness/rtlil_read.py "
        "and executed by Model/RtlilSem.run, both against Data.synth; results carry the kind of the returned object "
        "(int / lib.data.Const of the field's layout / member of the field's enumeration); FlexibleLayout constructor "
        "bounds; FlagView with plain-member / reflected / foreign operands (TypeError) and the default boundary; "
        "Enum.const(None) / const(member); shaped Enum/IntEnum const/from_bits; Flag classes (1-5 single bits + multi-bit members/aliases, "
        "all four boundaries): CPython cls(v) and & | ^ ~ vs the Gallina rendering, FlagView & | ^ ~ in the simulator vs "
        "the model. non-trivial = layout has >= 1 field of non-zero width (layout kinds) or the class has >= 1 member and "
        "the answer is not an error (enum/flag kinds); distinct by case hash")
MODELLED = ("lib/data.py (StructLayout/UnionLayout/ArrayLayout/FlexibleLayout placement and size, Layout.const, "
            "Layout.from_bits, Const.__getitem__/as_bits, View.__getitem__ as evaluated by sim/_pyeval (Slice, Part, "
            "as_signed), _pyeval._eval_assign_inner on Slice/Part chains) and lib/enum.py (EnumType.const/from_bits, "
            "FlagView operators) are modelled in coq/Model/Data.v; CPython enum.Flag._missing_ and operators are "
            "rendered in Gallina and validated against CPython by this run; Python object plumbing (dict ordering, "
            "Struct/Union annotation classes, format(), RTLIL path) is validated only")
TRUSTED_EXTRA = ["strict RTLIL reader harness/rtlil_read.py (text -> Gallina doc; fail-closed) and the RTLIL semantics "
                 "coq/Model/RtlilSem.v (both owned by C04, used read-only for the 'in synthesis' clause)"]
ASSUMPTIONS = ["CPython 3.12 enum.Flag semantics as rendered by Data.py_flag_new (validated by the run)",
               "field names are distinct (guaranteed by Python dicts)"]

ERR = {"KeyError": 1, "IndexError": 2, "ValueError": 3, "TypeError": 4, "AttributeError": 5}
BOUNDS = ["STRICT", "CONFORM", "EJECT", "KEEP"]
FINDING_SIGNED_ENUM = "C15-signed-enum-field"             # repaired in /repo; probe guards against regression
FINDING_FLAG_INVERT = "C15-flag-invert-wide"
FINDING_UNION_CONST = "C15-union-const-passthrough"      # fixed by 65f681c; probe guards against regression


# ---------------------------------------------------------------- layouts (JSON <-> real objects / Gallina)
LEAFK = ("leaf", "enum", "range", "penum")


def _bits_for(n, sign=False):
    if n > 0:
        r = n.bit_length()
    else:
        sign = True
        r = (-n - 1).bit_length() if n < 0 else 0
    return r + (1 if sign else 0)


def _range_shape(a, b):
    if b <= a:
        return 0, False
    sg = a < 0
    if a == b - 1 == 0:
        return 0, sg
    return max(_bits_for(a, sg), _bits_for(b - 1, sg)), sg


def _enum_shape(ms):
    w, sg = 0, False
    for v in ms:
        mw, msg = _bits_for(v), v < 0
        if not sg and msg:
            sg, w = True, max(w + 1, mw)
        elif sg and not msg:
            w = max(w, mw + 1)
        else:
            w = max(w, mw)
    return w, sg


def plain(l):
    """range(a, b) / plain Python enum fields behave as plain fields of the cast shape (GENERATOR-side view)"""
    if l is not None and l[0] == "range":
        w, sg = _range_shape(l[1], l[2])
        return ["leaf", w, sg]
    if l is not None and l[0] == "penum":
        w, sg = _enum_shape(l[2])
        return ["leaf", w, sg]
    return l


def lsize(l):
    t = l[0]
    if t in ("range", "penum"):
        return plain(l)[1]
    if t in LEAFK:
        return l[1]
    if t == "struct":
        return sum(lsize(f) for _, f in l[1])
    if t == "union":
        return max([lsize(f) for _, f in l[1]], default=0)
    if t == "array":
        return lsize(l[1]) * l[2]
    return l[1]


_enum_cache = {}


def build_enum(w, sg, vw, ms):
    from amaranth.lib import enum as aenum
    from amaranth.hdl import Shape
    key = (w, sg, vw, tuple(ms))
    if key not in _enum_cache:
        base = aenum.Enum if vw else aenum.IntEnum
        ns = aenum.EnumType.__prepare__("E", (base,))
        for i, v in enumerate(ms):
            ns[f"M{i}"] = v
        _enum_cache[key] = aenum.EnumType("E", (base,), ns, shape=Shape(w, sg))
    return _enum_cache[key]


def build_penum(kind, ms):
    import enum as pe
    key = ("penum", kind, tuple(ms))
    if key not in _enum_cache:
        base = {"E": pe.Enum, "I": pe.IntEnum, "F": pe.Flag}[kind]
        _enum_cache[key] = base("P", [(f"M{i}", v) for i, v in enumerate(ms)])
    return _enum_cache[key]


def build_flagleaf(w, vw, ms, b):
    key = ("flagleaf", w, vw, tuple(ms), b)
    if key not in _enum_cache:
        _enum_cache[key] = make_flag({"w": w, "ms": ms, "b": b}, intflag=not vw)
    return _enum_cache[key]


def build(l):
    from amaranth.hdl import Shape
    from amaranth.lib import data
    t = l[0]
    if t == "leaf":
        return Shape(l[1], l[2])
    if t == "range":
        return range(l[1], l[2])
    if t == "penum":
        return build_penum(l[1], l[2])
    if t == "enum" and len(l) > 5:             # shaped Flag / IntFlag class (STRICT or KEEP) as a field
        return build_flagleaf(l[1], l[3], l[5]["ms"], l[5]["b"])
    if t == "enum":
        return build_enum(l[1], l[2], l[3], l[4])
    if t == "struct":
        return data.StructLayout({f"f{k}": build(f) for k, f in l[1]})
    if t == "union":
        return data.UnionLayout({f"f{k}": build(f) for k, f in l[1]})
    if t == "array":
        return data.ArrayLayout(build(l[1]), l[2])
    return data.FlexibleLayout(l[1], {f"f{k}": data.Field(build(f), off) for k, off, f in l[2]})


def pykey(l, k):
    return k if l[0] == "array" else f"f{k}"


def keyid(key):
    return key if isinstance(key, int) else int(key[1:])


def sub(l, k):
    """sub-layout JSON reached by key k (None if absent)."""
    t = l[0]
    if t in ("struct", "union"):
        for kk, f in l[1]:
            if kk == k:
                return f
    elif t == "array":
        if -l[2] <= k < l[2]:
            return l[1]
    elif t == "flex":
        for kk, _, f in l[2]:
            if kk == k:
                return f
    return None


def pyinit(l, i):
    if isinstance(i, int):
        return i
    out = {}
    for k, x in i:
        s = sub(l, k) if l is not None else None
        out[pykey(l, k) if l is not None and l[0] not in LEAFK else f"f{k}"] = pyinit(s, x)
    return out


def g_layout(l):
    t = l[0]
    if t == "leaf":
        return f"(Leaf (Sh {z(l[1])} {blit(l[2])}))"
    if t == "range":
        return f"(Leaf (cast_range {z(l[1])} {z(l[2])} 1))"
    if t == "penum":
        return f"(Leaf (cast_enum {zlist(l[2])}))"
    if t == "enum" and len(l) > 5:
        return f"(flag_leaf (FlagCls {z(l[1])} {zlist(l[5]['ms'])} {l[5]['b']}) {blit(l[3])})"
    if t == "enum":
        return f"(ELeaf (Sh {z(l[1])} {blit(l[2])}) {blit(l[3])} {zlist(l[4])})"
    if t in ("struct", "union"):
        c = "Struct" if t == "struct" else "Union"
        return f"({c} [" + "; ".join(f"({z(k)}, {g_layout(f)})" for k, f in l[1]) + "])"
    if t == "array":
        return f"(Array {g_layout(l[1])} {l[2]}%nat)"
    return f"(Flex {z(l[1])} [" + "; ".join(f"({z(k)}, ({z(o)}, {g_layout(f)}))" for k, o, f in l[2]) + "])"


def g_init(i):
    if isinstance(i, int):
        return f"(IVal {z(i)})"
    return "(IMap [" + "; ".join(f"({z(k)}, {g_init(x)})" for k, x in i) + "])"


def g_paths(ps):
    return "[" + "; ".join(zlist(p) for p in ps) + "]"


# ---- extended initialisers: int | [[k, x], ...] | {"c": [v, w, sg]} hdl.Const | {"d": [layout, raw]} lib.data.Const
#      | {"m": v} enumeration member (int if v is not a member) | {"seq": [x0, x1, ...]} Python list (array fields)
def g_xinit(x):
    if isinstance(x, int):
        return f"(XVal {z(x)})"
    if isinstance(x, list):
        return "(XMap [" + "; ".join(f"({z(k)}, {g_xinit(y)})" for k, y in x) + "])"
    if "c" in x:
        v, w, sg = x["c"]
        return f"(XConst {z(v)} (Sh {z(w)} {blit(sg)}))"
    if "d" in x:
        return f"(XDConst {g_layout(x['d'][0])} {z(x['d'][1])})"
    if "m" in x:
        return f"(XVal {z(x['m'])})"
    return "(XMap [" + "; ".join(f"({i}, {g_xinit(y)})" for i, y in enumerate(x["seq"])) + "])"


def pyxinit(l, x):
    from amaranth.hdl import Const, Shape
    if isinstance(x, int):
        return x
    if isinstance(x, list):
        out = {}
        for k, y in x:
            s = sub(l, k) if l is not None else None
            out[pykey(l, k) if l is not None and l[0] not in LEAFK else f"f{k}"] = pyxinit(s, y)
        return out
    if "c" in x:
        v, w, sg = x["c"]
        return Const(v, Shape(w, sg))
    if "d" in x:
        return build(x["d"][0]).from_bits(x["d"][1])
    if "m" in x:
        if l is not None and l[0] == "enum" and x["m"] in l[4]:
            return build(l)(x["m"])
        if l is not None and l[0] == "penum" and x["m"] in l[2]:
            return build(l)(x["m"])
        return x["m"]
    s = l[1] if l is not None and l[0] == "array" else None
    return [pyxinit(s, y) for y in x["seq"]]


def variant_layout(rng, l):
    """a layout to wrap in a lib.data.Const for a field of layout l: equal or different under Layout.__eq__."""
    t = l[0]
    r = rng.random()
    if r < 0.4:
        return l
    if t == "struct" and l[1] and r < 0.7:       # same fields as a flexible layout (compares equal), shuffled
        off, fs = 0, []
        for k, f in l[1]:
            g = ["leaf", lsize(f), False] if f[0] not in LEAFK and rng.random() < 0.5 else f
            fs.append([k, off, g])
            off += lsize(f)
        rng.shuffle(fs)
        return ["flex", off, fs]
    if t == "array":
        return ["array", l[1], l[2] + rng.choice([0, 1])]
    if t in ("struct", "union") and l[1]:          # one member changed: differs
        fs = [[k, f] for k, f in l[1]]
        i = rng.randrange(len(fs))
        fs[i] = [fs[i][0], ["leaf", lsize(fs[i][1]) + rng.choice([0, 1]), rng.random() < 0.3 or lsize(fs[i][1]) == 0]]
        if fs[i][1][2] and fs[i][1][1] == 0:
            fs[i][1][1] = 1
        return [t, fs]
    if t == "flex":
        return ["flex", l[1] + rng.choice([0, 1]), l[2]]
    return l


def gen_xinit(rng, l, top=True):
    """mixed-kind initialiser for layout l; returns (xinit, leaf paths reachable through mappings)."""
    if l[0] in ("range", "penum"):
        x, ps = gen_xinit(rng, plain(l), top)
        if l[0] == "penum" and rng.random() < 0.5:
            return {"m": rng.choice(l[2])}, [[]]            # a member of the plain Python enumeration
        return x, ps
    t = l[0]
    if t == "leaf":
        w = l[1]
        r = rng.random()
        if r < 0.55:                                 # hdl.Const whose shape differs from the field's
            cw = rng.choice([max(0, w - 2), max(0, w - 1), w, w + 1, w + 3, rng.randrange(0, 9)])
            csg = rng.random() < 0.5
            if csg and cw == 0:
                cw = 1
            lo, hi = (-(1 << (cw - 1)), 1 << (cw - 1)) if csg else (0, 1 << cw)
            v = rng.choice([lo, hi - 1, rng.randrange(lo, hi)])
            return {"c": [v, cw, csg]}, [[]]
        if r < 0.9:
            return rng.randrange(-(1 << w) - 2, (1 << w) + 3), [[]]
        return rng.choice([[[0, 1]], {"d": [["struct", [[0, ["leaf", 2, False]]]], 1]}]), []
    if t == "enum":
        r = rng.random()
        if r < 0.5:
            return {"m": rng.choice(l[4])}, [[]]
        if r < 0.7:
            return rng.choice(l[4] + [rng.randrange(0, 1 << l[1]) if len(l) > 5 else rng.randrange(-2, 6)]), [[]]
        if r < 0.95:
            cw = rng.choice([l[1], l[1], l[1] + 1])
            csg = l[2] if rng.random() < 0.8 else not l[2]
            if csg and cw == 0:
                cw = 1
            lo, hi = (-(1 << (cw - 1)), 1 << (cw - 1)) if csg else (0, 1 << cw)
            return {"c": [rng.randrange(lo, hi), cw, csg]}, [[]]
        return {"d": [["struct", [[0, ["leaf", l[1], False]]]], rng.randrange(0, 1 << l[1])]}, [[]]
    r = rng.random()
    if not top and r < 0.3:                          # lib.data.Const for a layout-shaped field
        v = variant_layout(rng, l)
        return {"d": [v, rng.randrange(0, 1 << lsize(v))]}, [[]]
    if not top and r < 0.38:
        return rng.choice([{"c": [1, rng.randrange(0, 4), False]}, rng.randrange(0, 3)]), []
    ks = keys_of(l)
    if t == "union":
        ks = rng.sample(ks, min(len(ks), 1 if rng.random() < 0.92 else 2))
    elif t == "array" and rng.random() < 0.4:       # Python list
        n = rng.randrange(0, l[2] + 1) if rng.random() < 0.9 else l[2] + 1
        items, paths = [], []
        for i in range(n):
            x, ps = gen_xinit(rng, l[1], False)
            items.append(x)
            paths += [[i] + p for p in ps]
        return {"seq": items}, paths
    else:
        ks = [k for k in ks if rng.random() < 0.8]
        rng.shuffle(ks)                              # flexible layouts: order decides who wins an overlap
    if rng.random() < 0.04:
        ks.append(7)
    kvs, paths = [], []
    for k in ks:
        s = sub(l, k)
        if s is None:
            kvs.append([k, 1])
            continue
        x, ps = gen_xinit(rng, s, False)
        kvs.append([k, x])
        paths += [[k] + p for p in ps]
    return kvs, paths


def _has_signed_enum(l):
    """the layout has a field shaped as a SIGNED shaped enumeration (Enum with a view class or IntEnum): the class of
    inputs of the repaired finding C15-signed-enum-field (histogram tag `+senum`)"""
    t = l[0]
    if t == "enum":
        return bool(l[2])
    if t in ("struct", "union"):
        return any(_has_signed_enum(f) for _, f in l[1])
    if t == "array":
        return _has_signed_enum(l[1])
    if t == "flex":
        return any(_has_signed_enum(f) for _, _, f in l[2])
    return False


def span(l, p):
    """(offset, width) of the field reached by path p — used by the GENERATOR only, to keep comb-driven and
    clocked fields of one design bit-disjoint (answers never depend on it)."""
    off = 0
    for k in p:
        t = l[0]
        if t == "struct":
            o = 0
            for kk, f in l[1]:
                if kk == k:
                    break
                o += lsize(f)
        elif t == "union":
            o = 0
        elif t == "array":
            o = k * lsize(l[1])
        else:
            o = [oo for kk, oo, _ in l[2] if kk == k][0]
        off += o
        l = sub(l, k)
    return off, lsize(l)


def gen_synth(rng):
    """a design whose statements assign through view fields: layout, init, comb / clocked statements, stimulus."""
    for _ in range(50):
        l = gen_layout(rng, rng.randrange(1, 4), signed_enum=rng.random() < 0.35, wide=rng.random() < 0.4)
        if l[0] in LEAFK:
            l = ["struct", [[0, l], [1, list(rng.choice(LEAVES))]]]
        n = lsize(l)
        cands = [p for p in leaf_paths(l) if lsize(target(l, p)) > 0]
        if 0 < n <= 70 and cands:
            break
    else:
        l = ["struct", [[0, ["leaf", 3, False]], [1, ["leaf", 2, True]]]]
        n, cands = 5, [[0], [1]]
    mode = rng.choice(["comb", "sync", "mixed", "mixed"])
    ins, stmts, used = [], [], {"comb": [], "sync": []}
    rng.shuffle(cands)
    for p in cands[:rng.randrange(1, 5)]:
        t = plain(target(l, p))
        dyn = None
        par = target(l, p[:-1])
        if par[0] == "array" and rng.random() < 0.5:
            nb = max(1, (par[2] - 1).bit_length()) + (1 if rng.random() < 0.4 else 0)
            ins.append(["u", nb, False])
            dyn = len(ins) - 1
            sp = span(l, p[:-1])
        else:
            sp = span(l, p)
        dom = mode if mode != "mixed" else rng.choice(["comb", "sync"])
        def clash(d_):
            return any(not (sp[0] + sp[1] <= o or o + w <= sp[0]) for o, w in used["sync" if d_ == "comb" else "comb"])
        if clash(dom):
            dom = "sync" if dom == "comb" else "comb"          # keep the two domains bit-disjoint
            if clash(dom):
                if dyn is not None:
                    ins.pop()
                continue
        used[dom].append(sp)
        if t[0] == "leaf":
            w = t[1]
            iw = max(1, rng.choice([w - 1, w, w, w + 2]))
            ins.append(["u", iw, rng.random() < 0.5])
        elif t[0] == "enum":
            # a plain signal, or a Signal of the enumeration itself (EnumView.eq(EnumView) / IntEnum signal): its RTLIL
            # wire carries the enum_value_* attributes, negative members as two's complement patterns
            # (Signal(E) starts at E.const(None) = E(0): only classes with a member of value 0)
            ins.append(["v", t] if 0 in t[4] and rng.random() < 0.6 else ["u", t[1], False])
        else:
            ins.append(["v", t])                                # a view of the same sub-layout: View.eq(View)
        stmts.append({"dom": dom, "p": (p[:-1] if dyn is not None else p), "in": len(ins) - 1, "ix": dyn})

    def rv(i):
        if i[0] == "v" and i[1][0] == "enum" and i[1][2]:         # signal of a signed enumeration: any value of its shape
            return rng.randrange(-(1 << (i[1][1] - 1)), 1 << (i[1][1] - 1))
        if i[0] == "v":
            return rng.randrange(0, 1 << lsize(i[1]))
        lo, hi = (-(1 << (i[1] - 1)), 1 << (i[1] - 1)) if i[2] else (0, 1 << i[1])
        return rng.choice([lo, hi - 1, rng.randrange(lo, hi)])
    stim = []
    for _ in range(3):
        stim.append(["d", [[j, rv(i)] for j, i in enumerate(ins) if rng.random() < 0.8]])
        if used["sync"]:
            stim += [["c", 1], ["c", 0]]
    return {"k": "synth", "l": l, "tv": rng.randrange(0, 1 << n), "ins": ins, "st": stmts, "stim": stim,
            "cls": bool(l[0] == "struct" and rng.random() < 0.4)}


def gen_synth_mixed_dyn(rng):
    """the class the random stream reaches rarely: a clocked field next to an array written by comb (or clocked)
    statements through a DYNAMIC index that changes between clock edges; elements the index no longer selects
    must fall back to their init (comb) / keep their value (sync)."""
    ew = rng.randrange(1, 4)
    n = rng.randrange(2, 4)
    elem = ["leaf", ew, rng.random() < 0.5] if rng.random() < 0.7 else \
        ["struct", [[0, ["leaf", ew, False]], [1, ["leaf", 1, True]]]]
    arr = ["array", elem, n]
    side = ["leaf", rng.randrange(1, 5), rng.random() < 0.5]
    kind = rng.choice(["struct", "struct", "flex", "nested"])
    if kind == "struct":
        fs = [[0, side], [1, arr]]
        rng.shuffle(fs)
        l = ["struct", fs]
        pa, ps_ = [1], [0]
    elif kind == "flex":
        l = ["flex", lsize(arr) + lsize(side) + 2, [[0, 1, side], [1, lsize(side) + 2, arr]]]
        pa, ps_ = [1], [0]
    else:
        l = ["struct", [[0, ["struct", [[0, side], [1, arr]]]], [1, ["leaf", 2, False]]]]
        pa, ps_ = [0, 1], [0, 0]
    nb = max(1, (n - 1).bit_length()) + (1 if rng.random() < 0.4 else 0)
    ins = [["u", side[1], side[2]], ["u", nb, False]]
    arr_dom, side_dom = rng.choice([("comb", "sync"), ("comb", "sync"), ("sync", "comb")])
    st = [{"dom": side_dom, "p": ps_, "in": 0, "ix": None}]
    if elem[0] == "leaf":
        ins.append(["u", max(1, ew + rng.choice([-1, 0, 1])), rng.random() < 0.5])
        st.append({"dom": arr_dom, "p": pa, "in": 2, "ix": 1})
    else:
        ins.append(["v", elem])
        st.append({"dom": arr_dom, "p": pa, "in": 2, "ix": 1})
    if rng.random() < 0.5:                            # a constant-index statement on one element, same domain
        ins.append(["u", lsize(elem), False] if elem[0] == "leaf" else ["v", elem])
        st.append({"dom": arr_dom, "p": pa + [rng.randrange(0, n)], "in": len(ins) - 1, "ix": None})
        if rng.random() < 0.5:
            st[-1], st[-2] = st[-2], st[-1]

    def rv(i):
        if i[0] == "v":
            return rng.randrange(0, 1 << lsize(i[1]))
        lo, hi = (-(1 << (i[1] - 1)), 1 << (i[1] - 1)) if i[2] else (0, 1 << i[1])
        return rng.randrange(lo, hi)
    stim = []
    for r_ in range(4):
        sets = [[j, rv(i)] for j, i in enumerate(ins) if j != 1 and rng.random() < 0.8]
        sets.append([1, rng.randrange(0, 1 << nb)])             # the index changes every round
        stim += [["d", sets], ["c", 1], ["c", 0]]
    return {"k": "synth", "l": l, "tv": rng.randrange(0, 1 << lsize(l)), "ins": ins, "st": st, "stim": stim,
            "cls": bool(l[0] == "struct" and rng.random() < 0.4)}


def gen_synth_senum(rng):
    """designs whose targets are fields shaped as SIGNED enumerations with negative members (the class of the repaired
    findings C15-signed-enum-field / RTLIL enum attributes of negative members): written from Signals of the enumeration
    itself (EnumView.eq(EnumView); enum_value_* attributes on the input wires) and from plain signed signals, by constant
    and dynamic index, comb and clocked."""
    w = rng.randrange(2, 4)
    lo, hi = -(1 << (w - 1)), 1 << (w - 1)
    ms = [0] + rng.sample([v for v in range(lo, hi) if v != 0], rng.randrange(1, min(3, hi - lo - 1) + 1))
    if min(ms) >= 0:
        ms.append(rng.randrange(lo, 0))
    e = ["enum", w, True, rng.random() < 0.7, ms]
    side = ["leaf", rng.randrange(1, 4), rng.random() < 0.5]
    n = rng.randrange(2, 4)
    kind = rng.choice(["struct", "array", "nested", "union"])
    if kind == "struct":
        l, pe, parr = ["struct", [[0, side], [1, e], [2, ["array", e, n]]]], [1], [2]
    elif kind == "array":
        l, pe, parr = ["struct", [[0, ["array", e, n]], [1, e]]], [1], [0]
    elif kind == "nested":
        l, pe, parr = ["struct", [[0, ["struct", [[0, e], [1, side]]]], [1, ["array", e, n]]]], [0, 0], [1]
    else:
        l, pe, parr = ["struct", [[0, ["union", [[0, e], [1, side]]]], [1, ["array", e, n]]]], [0, 0], [1]
    nb = max(1, (n - 1).bit_length())
    dom_e, dom_a = rng.choice([("comb", "comb"), ("sync", "sync"), ("comb", "sync"), ("sync", "comb")])
    ins = [["v", e] if rng.random() < 0.7 else ["u", w, True], ["u", nb, False], ["v", e] if rng.random() < 0.7 else ["u", w, True]]
    st = [{"dom": dom_e, "p": pe, "in": 0, "ix": None}]
    if rng.random() < 0.6:
        st.append({"dom": dom_a, "p": parr, "in": 2, "ix": 1})
    else:
        st.append({"dom": dom_a, "p": parr + [rng.randrange(0, n)], "in": 2, "ix": None})
    stim = []
    for _ in range(3):
        stim.append(["d", [[0, rng.randrange(lo, hi)], [1, rng.randrange(0, 1 << nb)], [2, rng.randrange(lo, hi)]]])
        if "sync" in (dom_e, dom_a):
            stim += [["c", 1], ["c", 0]]
    return {"k": "synth", "l": l, "tv": rng.randrange(0, 1 << lsize(l)), "ins": ins, "st": st, "stim": stim,
            "cls": bool(rng.random() < 0.4)}


def build_synth(c):
    from amaranth.hdl import Module, Signal, ClockDomain, Shape, Value
    from amaranth.lib import data
    lj = c["l"]
    L = build(lj)
    m = Module()
    sig = Signal(L.size, init=c["tv"], name="v")
    view = struct_class(lj)(sig) if c.get("cls") else data.View(L, sig)
    ins, raw = [], []
    for j, i in enumerate(c["ins"]):
        if i[0] == "v":
            x = Signal(build(i[1]), name=f"i{j}")
            ins.append(x)
            raw.append(Value.cast(x))
        else:
            x = Signal(Shape(i[1], i[2]), name=f"i{j}")
            ins.append(x)
            raw.append(x)
    cd = None
    if any(st["dom"] == "sync" for st in c["st"]):
        m.domains.sync = cd = ClockDomain("sync", reset_less=True)
    for st in c["st"]:
        p = st["p"]
        lhs = (walk_attr(view, lj, p) if c.get("cls") and p else walk(view, lj, p))
        if st["ix"] is not None:
            lhs = lhs[ins[st["ix"]]]
        m.d[st["dom"]] += lhs.eq(ins[st["in"]])
    return m, sig, raw, cd


def sim_synth(c):
    from amaranth.sim import Simulator
    m, sig, raw, cd = build_synth(c)
    out = []

    async def tb(ctx):
        out.append(ctx.get(sig))
        for kind, arg in c["stim"]:
            if kind == "d":
                for j, v in arg:
                    ctx.set(raw[j], v)
            else:
                ctx.set(cd.clk, arg)
            out.append(ctx.get(sig))
    sim = Simulator(m)
    sim.add_testbench(tb)
    sim.run()
    return out


def rtlil_synth(c):
    """emit RTLIL with the real backend, read it back: Gallina doc, output port, initial inputs, stimulus"""
    import rtlil_read as R
    from amaranth.back import rtlil
    from amaranth.hdl._ir import Fragment
    m, sig, raw, cd = build_synth(c)
    ports = list(raw) + ([cd.clk] if cd is not None else []) + [sig]
    text, _ = rtlil.convert_fragment(Fragment.get(m, None), ports=ports, name="top", emit_src=False)
    mods = R.parse(text)
    top = mods[0]

    def wire(name, kind, width):
        wn = "\\" + name
        if wn not in top.windex:
            raise R.RtlilError(f"no wire {name}")
        w = top.wires[top.windex[wn]]
        if w.kind != kind or w.width != width:
            raise R.RtlilError(f"wire {name}: {w.kind} {w.width}, expected {kind} {width}")
        return top.windex[wn]
    iw = [wire(f"i{j}", "input", len(r)) for j, r in enumerate(raw)]
    cw = wire("clk", "input", 1) if cd is not None else None
    ow = wire("v", "output", len(sig))
    init_ins = [(w, 0) for w in iw] + ([(cw, 0)] if cw is not None else [])
    stim = []
    for kind, arg in c["stim"]:
        if kind == "d":
            stim.append([(iw[j], v & ((1 << len(raw[j])) - 1)) for j, v in arg])
        else:
            stim.append([(cw, arg)])
    return R.coq_doc(mods), (ow, len(sig)), init_ins, stim


def g_synth(c):
    def asg(st):
        ix = "None" if st["ix"] is None else f"(Some {st['ix']}%nat)"
        return f"SAsg {zlist(st['p'])} {st['in']}%nat {ix}"
    cas = "[" + "; ".join(asg(st) for st in c["st"] if st["dom"] == "comb") + "]"
    sas = "[" + "; ".join(asg(st) for st in c["st"] if st["dom"] == "sync") + "]"
    env0 = zlist([0] * len(c["ins"]))
    steps = "[" + "; ".join(
        ("SData [" + "; ".join(f"({j}%nat, {z(v)})" for j, v in arg) + "]") if kind == "d" else f"SClk {arg}"
        for kind, arg in c["stim"]) + "]"
    head = f"{g_layout(c['l'])} {z(c['tv'])} {cas} {sas} {env0} {steps}"
    try:
        doc, port, init_ins, stim = rtlil_synth(c)
    except Exception as e:
        return f"k_synth_nodoc {head} [{sum(map(ord, type(e).__name__))}]"
    ii = "[" + "; ".join(f"({w}%nat, {z(v)})" for w, v in init_ins) + "]"
    ss = "[" + "; ".join("[" + "; ".join(f"({w}%nat, {z(v)})" for w, v in st) + "]" for st in stim) + "]"
    return f"k_synth {head}\n {doc}\n ({port[0]}%nat, {port[1]}) {ii} {ss}"


def overlapping_flex(rng):
    """flexible layout whose fields overlap, for the last-writer-wins rule."""
    n = rng.randrange(2, 4)
    fs = []
    for k in range(n):
        f = list(rng.choice(LEAVES[1:]))
        fs.append([k, rng.randrange(0, 5), f])
    return ["flex", max(o + lsize(f) for _, o, f in fs) + rng.randrange(0, 2), fs]


def g_flag(c):
    return f"(FlagCls {z(c['w'])} {zlist(c['ms'])} {c['b']})"


# ---------------------------------------------------------------- generators
LEAVES = [["leaf", w, False] for w in range(0, 6)] + [["leaf", w, True] for w in range(1, 6)]


LEAVES_WIDE = [["leaf", w, sg] for w in (7, 8, 9, 16, 17, 31, 33) for sg in (False, True)]


def gen_enum_leaf(rng, allow_signed=False):
    w = rng.randrange(1, 4)
    sg = allow_signed and rng.random() < 0.5
    lo, hi = (-(1 << (w - 1)), (1 << (w - 1))) if sg else (0, 1 << w)
    n = rng.randrange(1, min(4, hi - lo) + 1)
    ms = rng.sample(range(lo, hi), n)
    return ["enum", w, sg, rng.random() < 0.6, ms]


def gen_flag_leaf(rng):
    import enum as pe
    nb = rng.randrange(1, 4)
    ms = [1 << b for b in rng.sample(range(0, 4), nb)]
    if rng.random() < 0.4:
        ms.append(rng.randrange(0, 16))
    m = 0
    for v in ms:
        m |= v
    w = max(1, m.bit_length()) + rng.choice([0, 0, 1])
    b = rng.choice(["STRICT", "KEEP"])
    PF = pe.Flag("F", [(f"M{i}", v) for i, v in enumerate(ms)], boundary=getattr(pe, b))
    values = [v for v in range(1 << w) if _valid_operand(PF, v)]     # choices for the generator; the model recomputes them
    return ["enum", w, False, rng.random() < 0.6, values, {"ms": ms, "b": b}]


def gen_layout(rng, depth, signed_enum=False, wide=False):
    r = rng.random()
    if depth == 0 or r < 0.25:
        if wide and rng.random() < 0.3:
            return list(rng.choice(LEAVES_WIDE))
        r2 = rng.random()
        if r2 < 0.15:
            return gen_enum_leaf(rng, signed_enum)
        if r2 < 0.23:                                   # range(a, b): width / signedness through Shape.cast
            a = rng.randrange(-9, 9)
            return ["range", a, a + rng.choice([0, 1, 2, 3, 5, 8, 17])]
        if r2 < 0.30:                                   # plain Python Enum / IntEnum / Flag (aliases, multi-bit members)
            kind = rng.choice(["E", "I", "F"])
            n_ = rng.randrange(1, 5)
            ms = [rng.randrange(0, 12) for _ in range(n_)] if kind == "F" else [rng.randrange(-6, 10) for _ in range(n_)]
            if kind != "F":
                ms = list(dict.fromkeys(ms))
            return ["penum", kind, ms]
        if r2 < 0.37:                                   # shaped Flag / IntFlag class, boundary STRICT or KEEP
            return gen_flag_leaf(rng)
        return list(rng.choice(LEAVES))
    kind = rng.choice(["struct", "struct", "union", "array", "flex"])
    if kind in ("struct", "union"):
        n = rng.randrange(0, 4)
        keys = rng.sample(range(0, 6), n)
        return [kind, [[k, gen_layout(rng, depth - 1, signed_enum, wide)] for k in keys]]
    if kind == "array":
        return ["array", gen_layout(rng, depth - 1, signed_enum, wide), rng.randrange(0, 4)]
    n = rng.randrange(0, 4)
    keys = rng.sample(range(0, 6), n)
    fs = [[k, rng.randrange(0, 6), gen_layout(rng, depth - 1, signed_enum, wide)] for k in keys]
    need = max([o + lsize(f) for _, o, f in fs], default=0)
    return ["flex", need + rng.randrange(0, 3), fs]


def keys_of(l):
    t = l[0]
    if t in ("struct", "union"):
        return [k for k, _ in l[1]]
    if t == "array":
        return list(range(l[2]))
    if t == "flex":
        return [k for k, _, _ in l[2]]
    return []


def gen_init(rng, l, bad=0.0):
    """initialiser for layout l; returns (init, leaf paths)."""
    if l[0] in ("range", "penum"):
        return gen_init(rng, plain(l), bad)
    t = l[0]
    if t == "leaf":
        if rng.random() < bad:
            return [[0, 1]], []
        w = l[1]
        return rng.randrange(-(1 << w) - 2, (1 << w) + 3), [[]]
    if t == "enum":
        if rng.random() < bad:
            return (rng.randrange(0, 1 << l[1]) if len(l) > 5 else rng.randrange(-3, 9)), [[]]
        return rng.choice(l[4]), [[]]
    if rng.random() < bad:
        return rng.randrange(0, 4), []
    ks = keys_of(l)
    if t == "union":
        ks = rng.sample(ks, min(len(ks), 1 if rng.random() > bad else 2))
    else:
        ks = [k for k in ks if rng.random() < 0.75]
        rng.shuffle(ks)
    if rng.random() < bad:
        ks.append(7)
    kvs, paths = [], []
    for k in ks:
        s = sub(l, k)
        if s is None:
            kvs.append([k, 1])
            continue
        x, ps = gen_init(rng, s, bad)
        if t == "array" and rng.random() < 0.2 and l[2] > 0:
            kvs.append([k - l[2], x])        # negative index alias
            paths += [[k - l[2]] + p for p in ps]
        else:
            kvs.append([k, x])
            paths += [[k] + p for p in ps]
    return kvs, paths


def leaf_paths(l, pre=()):
    """all key paths from l to plain/enum leaves and to nested layouts."""
    out = []
    for k in keys_of(l):
        s = sub(l, k)
        out.append(list(pre) + [k])
        if s[0] not in LEAFK:
            out += leaf_paths(s, tuple(pre) + (k,))
    return out


def target(l, p):
    for k in p:
        l = sub(l, k)
        if l is None:
            return None
    return l


def gen_flagcls(rng):
    nb = rng.randrange(1, 6)
    bits = rng.sample(range(0, 5), nb)
    ms = [1 << b for b in bits]
    r = rng.random()
    if r < 0.4:
        for _ in range(rng.randrange(1, 3)):
            ms.append(rng.randrange(0, 32))          # multi-bit members / aliases / zero
    rng.shuffle(ms)
    m = 0
    for v in ms:
        m |= v
    need = max(m.bit_length(), 1)
    w = need + rng.choice([0, 0, 0, 1, 2]) if rng.random() < 0.9 else max(1, need - 1)
    if rng.random() < 0.15:
        return {"w": w, "ms": ms, "b": "STRICT", "defb": True}      # no boundary= argument
    return {"w": w, "ms": ms, "b": rng.choice(BOUNDS)}


def _valid_operand(F, v):
    try:
        m = F(v)
    except ValueError:
        return False
    return isinstance(m, F) and m.value == v


def gen_cases(tier, seed):
    rng = random.Random(seed)
    thorough = tier == "thorough"
    cases = []
    # --- exhaustive small scope: every struct/union of <= 2 leaves out of a small set, arrays of them
    small = [["leaf", 0, False], ["leaf", 1, False], ["leaf", 3, False], ["leaf", 1, True], ["leaf", 2, True],
             ["enum", 2, False, True, [0, 2, 3]], ["enum", 2, False, False, [1, 2]]]
    basics = []
    for n in range(0, 3):
        for combo in itertools.product(small, repeat=n):
            for kind in ("struct", "union"):
                basics.append([kind, [[i, list(f)] for i, f in enumerate(combo)]])
    for b in list(basics):
        if len(b[1]) == 2 and b[0] == "struct":
            basics.append(["array", b, 2])
    basics.append(["flex", 6, [[0, 1, ["leaf", 3, False]], [1, 2, ["leaf", 3, True]], [2, 5, ["leaf", 1, False]]]])
    for l in basics:
        cases.append({"k": "layout", "l": l})
        n = lsize(l)
        lim = 8 if thorough else 6
        raws = range(-1, (1 << n) + 1) if n <= lim else \
            [-1, 0, (1 << n) - 1, 1 << n] + [rng.randrange(0, 1 << n) for _ in range(12)]
        for raw in raws:
            cases.append({"k": "bits", "l": l, "raw": raw})
        if n <= (5 if thorough else 4) and keys_of(l):
            ps = leaf_paths(l)
            for tv in range(0, 1 << n):
                cases.append({"k": "view", "l": l, "tv": tv, "ps": ps})
    # --- signed shaped enumerations as fields (Enum with a view class / IntEnum; negative members): every bit pattern
    #     of the constant and of the view's target, every member as initialiser, dynamic array index, Signal(layout)
    se, si = ["enum", 2, True, True, [-1, 1, 0]], ["enum", 2, True, False, [-2, 1]]
    senum_layouts = [
        ["struct", [[0, ["leaf", 1, False]], [1, se], [2, ["leaf", 2, True]]]],
        ["struct", [[0, si], [1, se]]],
        ["union", [[0, se], [1, ["leaf", 3, False]]]],
        ["array", se, 3],
        ["array", si, 2],
        ["struct", [[0, ["array", ["struct", [[0, se], [1, ["leaf", 1, False]]]], 2]]]],
        ["flex", 5, [[0, 1, se], [1, 2, ["enum", 3, True, True, [-4, -1, 3]]]]],
        ["struct", [[0, ["enum", 1, True, True, [-1, 0]]], [1, ["enum", 3, True, False, [-3, 2]]]]],
    ]
    for l in senum_layouts:
        n = lsize(l)
        ps = leaf_paths(l)
        cases.append({"k": "layout", "l": l})
        for raw in range(-1, (1 << n) + 1):
            cases.append({"k": "bits", "l": l, "raw": raw})
        for tv in range(0, 1 << n):
            cases.append({"k": "view", "l": l, "tv": tv, "ps": ps, "cls": bool(l[0] == "struct" and tv % 2)})
        for _ in range(6):
            init, paths = gen_init(rng, l)
            cases.append({"k": "const", "l": l, "i": init, "ps": [p for p in paths if p][:8]})
            xi, xps = gen_xinit(rng, l)
            xps = [p for p in xps if p]
            cases.append({"k": "xconst", "l": l, "i": xi, "ps": xps[:6]})
            cases.append({"k": "siginit", "l": l, "i": xi, "ps": xps[:4]})
        for p in ([[]] if l[0] == "array" else []) + [p for p in ps if target(l, p)[0] == "array"]:
            a = target(l, p)
            for idx in range(0, a[2] + 1):
                for tv in rng.sample(range(0, 1 << n), min(1 << n, 8)):
                    cases.append({"k": "viewdyn", "l": l, "tv": tv, "p": p, "idx": idx})
    # --- structured random
    N = 700 if not thorough else 2600
    for it in range(N):
        depth = rng.randrange(1, 4)
        l = gen_layout(rng, depth, signed_enum=rng.random() < 0.3, wide=rng.random() < 0.25)
        if l[0] in LEAFK:
            l = ["struct", [[0, l]]]
        n = lsize(l)
        cases.append({"k": "layout", "l": l})
        for k in rng.sample(range(-4, 8), 2):
            cases.append({"k": "getfield", "l": l, "key": k})
        # const
        for _ in range(2):
            init, paths = gen_init(rng, l, bad=0.0 if rng.random() < 0.8 else 0.15)
            paths = [p for p in paths if p]
            if rng.random() < 0.2:
                paths.append([rng.randrange(-3, 8)])
            cases.append({"k": "const", "l": l, "i": init, "ps": paths[:8]})
        # bits
        raws = list(range(-1, (1 << n) + 1)) if n <= (6 if thorough else 5) else \
            [rng.randrange(0, 1 << n) for _ in range(6)] + [(1 << n) - 1, 1 << n, 0, -1]
        if n <= 8 and not thorough and n > 5:
            raws = rng.sample(range(0, 1 << n), 12) + [1 << n, -1]
        for raw in raws:
            cases.append({"k": "bits", "l": l, "raw": raw})
        # views in the simulator
        ps = leaf_paths(l)
        if ps:
            rng.shuffle(ps)
            ps = ps[:6]
            if rng.random() < 0.2:
                ps.append([9])
            for _ in range(2):
                cases.append({"k": "view", "l": l, "tv": rng.randrange(0, 1 << n), "ps": ps,
                              "cls": bool(l[0] == "struct" and rng.random() < 0.5)})
            # dynamic index
            arrs = [[]] if l[0] == "array" else []
            arrs += [p for p in leaf_paths(l) if target(l, p)[0] == "array"]
            for p in arrs[:2]:
                a = target(l, p)
                for idx in range(0, a[2] + (1 if rng.random() < 0.3 else 0)):
                    cases.append({"k": "viewdyn", "l": l, "tv": rng.randrange(0, 1 << n), "p": p, "idx": idx})
            # assignment through a field (plain leaves)
            lp = [p for p in leaf_paths(l) if plain(target(l, p))[0] == "leaf"]
            rng.shuffle(lp)
            for p in lp[:3]:
                w = plain(target(l, p))[1]
                x = rng.choice([rng.randrange(-(1 << w) - 1, (1 << w) + 2), (1 << w) - 1, -1, rng.randrange(-200, 200)])
                last_arr = target(l, p[:-1])[0] == "array"
                # a dynamic index needs a positive element width (Part stride); then Part == Slice arithmetic
                cases.append({"k": "assign", "l": l, "tv": rng.randrange(0, 1 << n), "p": p, "x": x,
                              "dyn": bool(last_arr and w > 0 and rng.random() < 0.5)})
        # mixed-kind initialisers (hdl.Const of other shapes, lib.data.Const, members, lists, nested dicts):
        # .const() read-back and Signal(layout, init=...) read-back in the simulator
        lx = l if it % 3 else overlapping_flex(rng)
        if it % 3 == 1:
            lx = gen_layout(rng, depth, signed_enum=rng.random() < 0.3, wide=rng.random() < 0.5)
            if lx[0] in LEAFK:
                lx = ["struct", [[0, lx], [1, list(rng.choice(LEAVES))]]]
        for _ in range(3):
            xi, xps = gen_xinit(rng, lx)
            xps = [p for p in xps if p]
            rng.shuffle(xps)
            other = [p for p in leaf_paths(lx) if len(p) == 1 and p not in xps]     # neighbours must stay as they were
            cases.append({"k": "xconst", "l": lx, "i": xi, "ps": (xps[:6] + other[:3])})
            cases.append({"k": "siginit", "l": lx, "i": xi, "ps": (xps[:4] + other[:2])})
    # --- designs assigning through view fields: compiled simulator + emitted RTLIL (read back, run by RtlilSem)
    for it in range(300 if not thorough else 2000):
        cases.append(gen_synth(rng))
    for it in range(60 if not thorough else 400):
        cases.append(gen_synth_mixed_dyn(rng))
    for it in range(40 if not thorough else 250):
        cases.append(gen_synth_senum(rng))
    # --- FlexibleLayout constructor: fields ending at / past the declared size
    for it in range(60 if not thorough else 600):
        fl = overlapping_flex(rng)
        cases.append({"k": "flexnew", "sz": max(0, fl[1] + rng.choice([0, 0, -1, -2, 1])), "fs": fl[2]})
    # --- shaped enumerations
    for it in range(150 if not thorough else 700):
        e = gen_enum_leaf(rng, allow_signed=True)
        w, sg, vw, ms = e[1], e[2], e[3], e[4]
        lo, hi = (-(1 << (w - 1)), (1 << (w - 1))) if sg else (0, 1 << w)
        for v in range(lo - 1, hi + 1):
            cases.append({"k": "enum_const", "w": w, "sg": sg, "vw": vw, "ms": ms, "i": v,
                          "mode": "member" if v in ms and rng.random() < 0.5 else "int"})
            cases.append({"k": "enum_bits", "w": w, "sg": sg, "vw": vw, "ms": ms, "raw": v})
        cases.append({"k": "enum_const", "w": w, "sg": sg, "vw": vw, "ms": ms, "i": 0, "mode": "none"})   # const(None) = cls(0)
    # --- flags
    for it in range(260 if not thorough else 1100):
        c = gen_flagcls(rng)
        w = c["w"]
        top = 1 << max(w, max(c["ms"]).bit_length())
        for v in rng.sample(range(-top - 1, top + 2), min(8, 2 * top + 3)):
            cases.append(dict(c, k="flag_new", v=v))
        vals = list(range(0, 1 << w))
        PF = make_flag(c, amaranth=False)
        valid = [v for v in vals if _valid_operand(PF, v)]
        for _ in range(6 if valid else 0):
            x, y = rng.choice(valid), rng.choice(valid)
            o = rng.choice(["BAnd", "BOr", "BXor"])
            cases.append(dict(c, k="flag_pyop", o=o, x=x, y=y))
            cases.append(dict(c, k="flag_pynot", x=x))
        for _ in range(3):
            x, y = rng.choice(vals), rng.choice(vals)
            cases.append(dict(c, k="flag_fvop", o=rng.choice(["BAnd", "BOr", "BXor"]), x=x, y=y))
            cases.append(dict(c, k="flag_fvnot", x=x))
        if valid:      # plain member operand (either side), and operands FlagView must refuse (TypeError)
            for rhs in ("member", "rmember"):
                cases.append(dict(c, k="flag_fvop", o=rng.choice(["BAnd", "BOr", "BXor"]), x=rng.choice(vals),
                                  y=rng.choice(valid), rhs=rhs))
        cases.append(dict(c, k="flag_fvbad", o=rng.choice(["BAnd", "BOr", "BXor"]), x=rng.choice(vals),
                          rhs=rng.choice(["int", "other", "rint", "value"])))
        for v in rng.sample(range(-1, (1 << w) + 1), min(5, (1 << w) + 2)):
            cases.append(dict(c, k="flag_bits", raw=v, intflag=(not c.get("defb")) and rng.random() < 0.3))
            cases.append(dict(c, k="flag_const", i=v, intflag=(not c.get("defb")) and rng.random() < 0.3))
    return cases


# ---------------------------------------------------------------- implementation side
def code(e):
    return ERR.get(type(e).__name__, -1)


def val(o):
    import enum as pe
    from amaranth.lib import data
    if isinstance(o, data.Const):
        return o.as_bits()
    if isinstance(o, pe.Enum):
        return o.value
    return int(o)


def tval(o, lj, p):
    """[kind, value]: 0 int, 1 lib.data.Const whose layout is the field's layout, 2 member of the field's enumeration,
    9 an object of an unexpected class / layout"""
    import enum as pe
    from amaranth.lib import data
    t = target(lj, p)
    if isinstance(o, data.Const):
        ok = t is not None and t[0] not in LEAFK and o.shape() == build(t)
        return [1 if ok else 9, o.as_bits()]
    if isinstance(o, pe.Enum):
        ok = t is not None and t[0] == "enum" and type(o) is build(t)
        return [2 if ok else 9, o.value]
    return [0 if type(o) is int else 9, int(o)]


def struct_class(lj):
    """data.Struct subclass declared with annotations for a top-level struct layout (fields read as attributes)."""
    import types
    from amaranth.lib import data
    ann = {f"f{k}": build(f) for k, f in lj[1]}
    return types.new_class("S", (data.Struct,), {}, lambda ns: ns.update({"__annotations__": ann}))


def walk_attr(obj, l, p):
    """like walk, but the first key is read as an attribute (data.Struct instances)"""
    first = getattr(obj, pykey(l, p[0]))
    return walk(first, sub(l, p[0]), p[1:])


def walk(obj, l, p):
    for k in p:
        key = pykey(l, k) if l is not None and l[0] not in LEAFK else f"f{k}"
        obj = obj[key]
        l = sub(l, k) if l is not None else None
    return obj


def sim_run(fn):
    from amaranth.hdl import Module
    from amaranth.sim import Simulator
    out = []

    async def tb(ctx):
        out.extend(fn(ctx))
    sim = Simulator(Module())
    sim.add_testbench(tb)
    sim.run()
    return out


def make_flag(c, amaranth=True, intflag=False):
    import enum as pe
    from amaranth.lib import enum as aenum
    from amaranth.hdl import unsigned
    b = getattr(pe, c["b"])
    kw = {} if c.get("defb") else {"boundary": b}          # defb: the class default (Flag: STRICT) is used
    if amaranth:
        base = aenum.IntFlag if intflag else aenum.Flag
        ns = aenum.EnumType.__prepare__("F", (base,))
        for i, v in enumerate(c["ms"]):
            ns[f"M{i}"] = v
        return aenum.EnumType("F", (base,), ns, shape=unsigned(c["w"]), **kw)
    return pe.Flag("F", [(f"M{i}", v) for i, v in enumerate(c["ms"])], **kw)


def fres(r):
    import enum as pe
    if isinstance(r, pe.Enum):
        return [1, r.value]
    return [2, int(r)]


def run_impl(c):
    import operator
    from amaranth.hdl import Signal, Const, Shape
    from amaranth.lib import data
    k = c["k"]
    if k == "probe":
        if c["which"] == "empty_slice":
            return _probe_empty_slice()
        if c["which"] == "union_const":
            return _probe_union_const()
        return _probe_signed_enum() if c["which"] == "signed_enum" else _probe_flag_invert()[:2]
    if k.startswith("flag"):
        return run_flag(c)
    if k == "flexnew":
        from amaranth.lib import data
        try:
            data.FlexibleLayout(c["sz"], {f"f{k_}": data.Field(build(f), off) for k_, off, f in c["fs"]})
            return [1]
        except Exception as e:
            return [0, code(e)]
    if k in ("enum_const", "enum_bits"):
        E = build_enum(c["w"], c["sg"], c["vw"], c["ms"])
        try:
            if k == "enum_const":
                mode = c.get("mode", "int")
                arg = None if mode == "none" else (E(c["i"]) if mode == "member" else c["i"])
                return [1, Const.cast(E.const(arg)).value]
            return [1, E.from_bits(c["raw"]).value]
        except Exception as e:
            return [0, code(e)]
    lj = c["l"]
    L = build(lj)
    if L.size != lsize(lj):
        raise AssertionError(f"generator-side size {lsize(lj)} differs from Layout.size {L.size}")
    if k == "layout":
        out = [L.size]
        items = list(L)
        for key, f in items:
            out += [keyid(key), f.offset, f.width]
        for key, f in items:
            g = L[key]
            out += [g.offset, g.width]
        return out
    if k == "getfield":
        try:
            f = L[pykey(lj, c["key"])]
            return [1, f.offset, f.width]
        except KeyError:
            return [0]
    if k == "const":
        try:
            cst = L.const(pyinit(lj, c["i"]))
        except Exception as e:
            return [0, code(e)]
        out = [1, cst.as_bits(), ]
        assert cst.as_value().value == cst.as_bits()
        for p in c["ps"]:
            try:
                out += [1] + tval(walk(cst, lj, p), lj, p)
            except Exception as e:
                out += [0, code(e)]
        return out
    if k == "synth":
        rows = sim_synth(c)
        out = list(rows) + [-7]
        for r in rows:
            out += [0, r]
        return out
    if k == "xconst":
        try:
            cst = L.const(pyxinit(lj, c["i"]))
        except Exception as e:
            return [0, code(e)]
        out = [1, cst.as_bits()]
        for p in c["ps"]:
            try:
                out += [1, val(walk(cst, lj, p))]
            except Exception as e:
                out += [0, code(e)]
        return out
    if k == "siginit":
        try:
            s = Signal(L, init=pyxinit(lj, c["i"]))
        except Exception as e:
            return [0, code(e)]

        def fn(ctx):
            out = [1, s.as_value().init]
            for p in c["ps"]:
                try:
                    out += [1, val(ctx.get(walk(s, lj, p)))]
                except Exception as e:
                    out += [0, code(e)]
            return out
        return sim_run(fn)
    if k == "bits":
        try:
            cst = L.from_bits(c["raw"])
        except Exception as e:
            return [0, code(e)]
        out = [1, cst.as_bits()]
        for key, _ in L:
            try:
                out += [1, val(cst[key])]
            except Exception as e:
                out += [0, code(e)]
        return out
    sig = Signal(L.size, init=c["tv"])
    view = data.View(L, sig)
    if k == "view":
        if c.get("cls"):
            view = struct_class(lj)(sig)          # data.Struct subclass; first key read as an attribute

        def fn(ctx):
            out = []
            for p in c["ps"]:
                try:
                    o = walk_attr(view, lj, p) if c.get("cls") else walk(view, lj, p)
                    out += [1] + tval(ctx.get(o), lj, p)
                except KeyError as e:
                    out += [0, code(e)]
                except AttributeError as e:       # attribute access on a Struct: missing field
                    out += [0, 1 if c.get("cls") else code(e)]
                except Exception as e:
                    out += [0, code(e)]
            return out
        return sim_run(fn)
    if k == "viewdyn":
        idx = Signal(8, init=c["idx"])

        def fn(ctx):
            try:
                return [1, val(ctx.get(walk(view, lj, c["p"])[idx]))]
            except Exception as e:
                return [0, code(e)]
        return sim_run(fn)
    if k == "assign":
        p = c["p"]
        idx = Signal(8, init=p[-1] if c["dyn"] else 0)

        def lhs():
            if c["dyn"]:
                return walk(view, lj, p[:-1])[idx]
            return walk(view, lj, p)

        def fn(ctx):
            try:
                ctx.set(lhs(), c["x"])
            except Exception as e:
                return [0, code(e)]
            out = [1, ctx.get(view.as_value())]
            try:
                out += [1, val(ctx.get(lhs()))]
            except Exception as e:
                out += [0, code(e)]
            return out
        return sim_run(fn)
    raise ValueError(k)


def run_flag(c):
    import operator
    k = c["k"]
    ops = {"BAnd": operator.and_, "BOr": operator.or_, "BXor": operator.xor}
    if k in ("flag_new", "flag_pyop", "flag_pynot"):
        F = make_flag(c, amaranth=False)
        try:
            if k == "flag_new":
                return fres(F(c["v"]))
            x = F(c["x"])
            assert isinstance(x, F) and x.value == c["x"]
        except ValueError:
            assert k == "flag_new"
            return [0]
        try:
            if k == "flag_pynot":
                return fres(~x)
            y = F(c["y"])
            assert isinstance(y, F) and y.value == c["y"]
        except ValueError:
            return [0]
        try:
            return fres(ops[c["o"]](x, y))
        except ValueError:
            return [0]
    if k in ("flag_bits", "flag_const"):
        from amaranth.hdl import Const
        F = make_flag(c, intflag=c.get("intflag", False))
        try:
            if k == "flag_bits":
                return fres(F.from_bits(c["raw"]))
            return [1, Const.cast(F.const(c["i"])).value]
        except Exception as e:
            return [0, code(e)] if k == "flag_const" else [0]
    from amaranth.hdl import Signal
    F = make_flag(c)
    s, t = Signal(F), Signal(F)

    def fn(ctx):
        ctx.set(s.as_value(), c["x"])
        try:
            rhs = c.get("rhs", "view")
            if k == "flag_fvnot":
                e = ~s
            elif k == "flag_fvbad":
                G = make_flag(c)                                   # another class with the same members
                other = {"int": 1, "rint": 1, "other": Signal(G), "value": Signal(c["w"])}[rhs]
                e = ops[c["o"]](other, s) if rhs == "rint" else ops[c["o"]](s, other)
            elif rhs == "member":
                e = ops[c["o"]](s, F(c["y"]))
            elif rhs == "rmember":
                e = ops[c["o"]](F(c["y"]), s)
            else:
                ctx.set(t.as_value(), c["y"])
                e = ops[c["o"]](s, t)
        except TypeError:
            return [3]
        try:
            return fres(ctx.get(e))
        except ValueError:
            return [0]
    return sim_run(fn)


# ---------------------------------------------------------------- model side
def coq_term(c):
    k = c["k"]
    if k == "layout":
        return f"k_layout {g_layout(c['l'])}"
    if k == "getfield":
        return f"k_getfield {g_layout(c['l'])} {z(c['key'])}"
    if k == "const":
        return f"k_const_t {g_layout(c['l'])} {g_init(c['i'])} {g_paths(c['ps'])}"
    if k == "synth":
        return g_synth(c)
    if k == "xconst":
        return f"k_xconst {g_layout(c['l'])} {g_xinit(c['i'])} {g_paths(c['ps'])}"
    if k == "siginit":
        return f"k_siginit_f {g_layout(c['l'])} {g_xinit(c['i'])} {g_paths(c['ps'])}"
    if k == "bits":
        return f"k_bits {g_layout(c['l'])} {z(c['raw'])}"
    if k == "view":
        return f"k_view_t {g_layout(c['l'])} {z(c['tv'])} {g_paths(c['ps'])}"
    if k == "viewdyn":
        return f"k_viewdyn {g_layout(c['l'])} {z(c['tv'])} {zlist(c['p'])} {z(c['idx'])}"
    if k == "assign":
        return f"k_assign {g_layout(c['l'])} {z(c['tv'])} {zlist(c['p'])} {z(c['x'])}"
    if k == "flexnew":
        return f"k_flexnew {z(c['sz'])} [" + "; ".join(f"({z(k_)}, ({z(o)}, {g_layout(f)}))" for k_, o, f in c["fs"]) + "]"
    if k == "enum_const":
        return f"k_enum_const (Sh {z(c['w'])} {blit(c['sg'])}) {zlist(c['ms'])} {z(c['i'])}"
    if k == "enum_bits":
        return f"k_enum_bits {zlist(c['ms'])} {z(c['raw'])}"
    F = g_flag(c)
    if k == "flag_new":
        return f"k_flag_new {F} {z(c['v'])}"
    if k == "flag_pyop":
        return f"k_flag_pyop {F} {c['o']} {z(c['x'])} {z(c['y'])}"
    if k == "flag_pynot":
        return f"k_flag_pynot {F} {z(c['x'])}"
    if k == "flag_fvop":
        return f"k_flag_fvop {F} {c['o']} {z(c['x'])} {z(c['y'])}"
    if k == "flag_fvnot":
        return f"k_flag_fvnot {F} {z(c['x'])}"
    if k == "flag_fvbad":
        return "k_flag_fvbad"
    if k == "flag_const":
        return f"k_flag_const {F} {z(c['i'])}"
    if k == "flag_bits":
        return f"k_flag_bits {F} {z(c['raw'])}"
    raise ValueError(k)


def classify(c):
    k = c["k"]
    if "l" in c:
        return f"{k}/{c['l'][0]}" + ("+senum" if _has_signed_enum(c["l"]) else "")
    if k.startswith("flag"):
        return f"{k}/{c['b']}"
    return k


def nontrivial(c, obs):
    if c["k"] == "flexnew":
        return len(c["fs"]) > 0
    if "l" in c:
        l = c["l"]
        return lsize(l) > 0 and len(keys_of(l)) > 0
    return bool(c["ms"]) and bool(obs) and obs[0] > 0


def explain(c):
    return ("model answer encodes: values as [1, v], exceptions as [0, code] (1 KeyError 2 IndexError 3 ValueError "
            "4 TypeError), flag results [1, member value] / [2, ejected int] / [0] ValueError / [3] TypeError")


# ---------------------------------------------------------------- spec-level probes of the recorded findings
def _probe_signed_enum():
    """property clause: const -> field read back; view field = slice reinterpreted. Returns list of ints."""
    import warnings
    warnings.simplefilter("ignore")
    from amaranth.hdl import Signal, signed
    from amaranth.lib import data, enum as aenum
    ns = aenum.EnumType.__prepare__("E", (aenum.Enum,))
    ns["A"] = -1
    ns["B"] = 1
    E = aenum.EnumType("E", (aenum.Enum,), ns, shape=signed(2))
    L = data.StructLayout({"a": E})
    out = []
    try:
        out += [1, L.const({"a": E.A})["a"].value]
    except Exception as e:
        out += [0, code(e)]
    try:
        data.View(L, Signal(2))["a"]
        out += [1]
    except Exception as e:
        out += [0, code(e)]
    return out


def _probe_flag_invert():
    import enum as pe
    c = {"w": 3, "ms": [1, 2], "b": "KEEP", "k": "flag_fvnot", "x": 1}
    a = run_flag(c)
    F = make_flag(c, amaranth=False)
    return a + fres(~F(1))


def _probe_empty_slice():
    """Python slice semantics: c[3:1] / v[3:1] of a 4-element array is the empty array. -> [1, len, bits] x 2"""
    from amaranth.hdl import Signal
    from amaranth.lib import data
    A = data.ArrayLayout(2, 4)
    out = []
    for obj in (A.const([1, 2, 3, 0]), data.View(A, Signal(8))):
        try:
            r = obj[3:1]
            out += [1, len(r), len(r.as_value())]
        except Exception as e:
            out += [0, code(e), 0]
    return out


def _probe_union_const():
    """Layout.const(c) returns c for a lib.data.Const c of the same layout. -> [1, bits]"""
    from amaranth.lib import data
    U = data.UnionLayout({"a": 3, "b": 2})
    out = []
    for c in (U.const({"a": 5}), U.from_bits(6)):
        try:
            out += [1, U.const(c).as_bits()]
        except Exception as e:
            out += [0, code(e)]
    return out


def extra(tier, seed, findings):
    viol, cov = [], {}
    listed = {f.get("id") for f in findings if f.get("property") == ID and f.get("status") == "open"}
    # repaired defect (fix: lib.data hands __call__ / from_bits the field read in the field's shape): must hold on the
    # current tree; a regression is a VIOLATION
    p1 = _probe_signed_enum()
    cov["probe_signed_enum_field"] = p1
    if p1 != [1, -1, 1]:
        what = (f"{FINDING_SIGNED_ENUM}: layout field whose shape is a signed-shaped Enum: const({{a: E.A(-1)}})['a'] and "
                f"View[...]['a'] fail (observed {p1}; spec [1, -1, 1])")
        viol.append({"property": ID, "kind": "input", "case": {"k": "probe", "which": "signed_enum"},
                     "expected_by_model": [1, -1, 1], "observed": p1, "explain": what})
    p2 = _probe_flag_invert()
    cov["probe_flag_invert_wide"] = p2
    if p2[:2] != p2[2:]:
        what = (f"{FINDING_FLAG_INVERT}: ~FlagView under KEEP/EJECT with a shape wider than the members' bits differs from "
                f"Python's ~ (observed {p2[:2]}, Python {p2[2:]})")
        if FINDING_FLAG_INVERT in listed:
            viol.append({"known": what})
        else:
            viol.append({"property": ID, "kind": "input", "case": {"k": "probe", "which": "flag_invert"},
                         "expected_by_model": p2[2:], "observed": p2[:2], "explain": what})
    # repaired defect (known_findings.json: fixed, 65f681c): must hold on the current tree; a regression is a VIOLATION
    got = _probe_union_const()
    cov["probe_union_const"] = got
    if got != [1, 5, 1, 6]:
        what = (f"{FINDING_UNION_CONST}: UnionLayout.const(lib.data.Const of the same layout) / U.const(U.from_bits(6)) must "
                f"return the constant (observed {got}; spec [1, 5, 1, 6])")
        viol.append({"property": ID, "kind": "input", "case": {"k": "probe", "which": "union_const"},
                     "expected_by_model": [1, 5, 1, 6], "observed": got, "explain": what})
    # outside the text of C15 (Python slice semantics of array constants): recorded as an observation only
    got = _probe_empty_slice()
    cov["observations"] = []
    if got != [1, 0, 0, 1, 0, 0]:
        text = ("ArrayLayout(2, 4): const[3:1] raises ValueError('negative shift count') and view[3:1] raises IndexError "
                f"(stop < start, stride 1) instead of giving the empty array (observed {got})")
        cov["observations"].append({"id": "array-empty-slice", "what": text, "observed": got})
        print(f"NOTE: property={ID} observation (not a verdict): {text}")
    return viol, cov

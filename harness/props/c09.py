"""C09 — elaboration and simulation are reproducible.

Coq-evaluated cases (gen_cases / run_impl / coq_term) tie Model/Repro.v to the real code:
  dom    Fragment.prepare of a generated design: order of the missing_domain calls and final port names
  names  Design._assign_names per fragment of a generated design (inputs taken from the real Design)
  add    runs of _ir._add_name on one set (exhaustive small scope + random; includes the S3 inputs a, a$2, a)
  ports  Design._assign_port_names on a bare port list
  plan   BuildPlan.add_file / digest (bytes fed to the hasher) / archive (members) / extract (directory listing)
  reset  engine state before/after Simulator.reset() of a partially run simulation

extra() holds the exploration that is not a Coq statement: PYTHONHASHSEED subprocesses, in-process double
conversion, run / reset / rerun traces, Platform.build twice, archive twice, extract into a scratch directory.

Run as a script (`python c09.py --worker`) this file is the subprocess worker: it reads a JSON job from stdin
and prints the SHA-256 of everything order-sensitive it computes.
"""
import collections, hashlib, io, itertools, json, os, random, re, shutil, subprocess, sys, tempfile

ID = "C09"
LEVEL = "proof"
PROPS_FILE = "C09.v"
RUN_MODULE = "RunC09"
TRANSLATOR_UNITS = ["repro"]
SHARD = 125
RULE = ("dom/names: seeded random designs (module trees of depth<=3, 3-13 signals — unsigned, signed, enum-shaped, "
        "attribute-carrying, widths 1-12 — with names drawn from a pool of 11 (+5 `$`-suffixed ones in half of the designs) so "
        "that names clash with each other, with clk/rst of implicit domains and with submodule names; 2-5 undeclared clock "
        "domains used by sync statements, If/Elif/Else, Switch, FSM, ClockSignal/ResetSignal reads, memory ports, Instance "
        "ports (with parameters and attributes), SyncFIFO / AsyncFIFO / FFSynchronizer cells; DomainRenamer, ResetInserter, "
        "EnableInserter on subtrees; locally declared domains; anonymous + named submodules, IO ports; explicit and "
        "tuple-named ports); add: exhaustive runs of _add_name of length<=4 over {a,a$1,a$2,b} on the sets {} and {a}, + random "
        "runs of length<=14 over 11 names incl. a$10..a$12; ports: random port lists (named, unnamed, private-named, "
        "duplicates); plan: random build plans (1-8 files, names from a pool with non-ASCII, directories, drive-like and "
        "dotted names, str and bytes contents; 4% duplicate names, 6% absolute names (ValueError), 6% `..` components "
        "(extract asserts), 40% extracted into a non-empty directory); reset/fresh: random simulations (clocks with phases, "
        "the design kinds above, testbench incl. memory writes, optional second testbench and background process) stopped "
        "mid-delay / at a deadline / after completion, then reset() resp. compared with a new simulator. non-trivial = the "
        "answer is not an error and (dom) >=2 domains created, (names) some name got a $n suffix, (add) some name was already "
        "in the set, (plan) >=2 files, (reset/fresh) time advanced; distinct by case hash")
MODELLED = ("modelled in coq/Model/Repro.v (not verified code): DomainCollector + _propagate_domains_down + "
            "_create_missing_domains (sorted iteration) + the port list of Fragment.prepare, _add_name (retry loop of cb9d97a on fuel "
            "|set|+1, proved sufficient), "
            "Design._assign_port_names/_assign_names (one fragment; first-use order of signals and the subfragment list are INPUTS "
            "taken from the real Design), DomainRenamer's effect on domain names, the order in which IO ports are met (named "
            "submodules first), BuildPlan.add_file/digest/archive/extract with their checks, the fields touched by "
            "Simulator.reset() and the constructor state, _PyEngineState.commit + _PyTimeline.advance. "
            "VALIDATED ONLY (exploration, not a theorem): byte-identical RTLIL / simulation traces / build plans across separate "
            "interpreters with different PYTHONHASHSEED (k seeds), in-process repeat runs, the value traces of run/reset/rerun, "
            "zipfile/hashlib/os plumbing of archive/digest/extract, everything in rtlil.py and _ir.py netlist building that is "
            "not an ordering or naming step (its determinism is explored by the SHA-256 comparison only)")
ASSUMPTIONS = [
    "cross-interpreter reproducibility (different PYTHONHASHSEED) is explored on generated designs and seeds, not proved: "
    "CPython set iteration order is outside the model; the theorems show that the modelled steps do not depend on it",
    "Python sorted() on str = lexicographic order on code points (Repro.lex_leb); str.encode('utf-8') as Repro.utf8 for "
    "non-surrogate code points",
    "the engine's step function reads only the observed fields (hypothesis of C09_reset_rerun_same_trace: everything but "
    "_delta_cycles, used for VCD time stamps only, and the slots' waker lists, whose stale closures switch themselves off); "
    "validated by the run/reset/rerun comparison of value traces and advance() stop times",
    "file names are normalised POSIX paths without a leading backslash (UNC names are not modelled); no file name is a "
    "directory of another one",
    "engine slots are compared in a canonical order: their numbering follows set(fragment.statements) in "
    "_pyrtl._FragmentCompiler, i.e. the hash seed (internal, not observable by testbenches)",
]

QUICK_SEEDS = 6
THOROUGH_SEEDS = 24
FIXED_HASH_SEEDS = [0, 1, 2, 3, 17]


# ------------------------------------------------------------------ literals
def z(n):
    n = int(n)
    return f"({n})" if n < 0 else str(n)


def zl(xs):
    return "[" + "; ".join(z(x) for x in xs) + "]"


def cps(s):
    return [ord(ch) for ch in s]


def qn(s):
    return zl(cps(s))


def qopt(s):
    return "None" if s is None else f"(Some {qn(s)})"


def enc_name(s):
    if isinstance(s, str):
        return [len(s)] + cps(s)
    return [len(s)] + [int(b) for b in s]


def enc_names(l):
    out = [len(l)]
    for s in l:
        out += enc_name(s)
    return out


# ------------------------------------------------------------------ generated designs
DOMS = ["d0", "d1", "alpha", "beta", "gamma", "delta", "sync", "zeta", "a", "clk"]
NAMES = ["a", "b", "c", "x", "clk", "rst", "d0_clk", "alpha_rst", "a_clk", "U", "Alu"]
TYPES = ["Alu", "Core", "a", "U"]
SUBNAMES = ["a", "b", "sub", "m0", "Alu$0", "U$1", "mem", "clk"]


def gen_design(r, sim=False, plain_names=True, rich=True):
    """JSON description of a design.  sim=True: no instances / IO ports / local domains (simulable).
    rich=True adds If/Switch/FSM, lib cells (SyncFIFO, AsyncFIFO, FFSynchronizer), transformers
    (DomainRenamer, ResetInserter, EnableInserter), signed / enum-shaped / attribute-carrying / wide signals,
    Instance parameters and attributes."""
    nsig = r.randint(3, 9) + (r.randint(0, 4) if rich else 0)
    names = NAMES if plain_names else NAMES + ["a$1", "a$2", "b$3", "clk$1", "x$10"]
    sigs = []
    for _ in range(nsig):
        kind = r.choice([0, 0, 0, 1, 2, 3]) if rich else 0      # 0 unsigned, 1 signed, 2 enum-shaped, 3 attrs
        w = r.randint(1, 4) if (not rich or r.random() < 0.8) else r.randint(5, 12)
        if kind == 2:
            w = r.randint(1, 3)
        init = r.randrange(-(1 << (w - 1)), 1 << (w - 1)) if kind == 1 else r.randrange(1 << w)
        sigs.append([r.choice(names), w, init, kind])
    doms = r.sample(DOMS, r.randint(2, 5))
    driven = set()
    budget = [r.randint(2, 7)]

    def free():
        return [i for i in range(nsig) if i not in driven]

    def take():
        f = free()
        if not f:
            return None
        dst = r.choice(f)
        driven.add(dst)
        return dst

    def src_below(dst):
        return r.randrange(dst) if dst > 0 else -1

    def node(depth, no_doms=False):
        n = {"n": None, "t": r.choice(TYPES), "doms": [], "st": [], "clk": [], "mem": None, "inst": None, "io": None,
             "subs": [], "ctl": [], "lib": [], "xf": None, "mctl": []}
        if rich and depth > 0 and r.random() < 0.3:
            k = r.random()
            if k < 0.4:
                src = r.choice(doms + ["sync"])
                dstd = r.choice([d for d in doms if d != src] or doms)
                if src != dstd:
                    n["xf"] = ["rename", [[src, dstd]]]
                    no_doms = True          # keep declared domains out of renamed subtrees (two could collapse)
            elif k < 0.7:
                n["xf"] = ["reset", r.choice(doms), r.randrange(nsig)]
            else:
                n["xf"] = ["enable", r.choice(doms), r.randrange(nsig)]
        if not sim and not no_doms and r.random() < 0.15:
            n["doms"] = [r.choice(doms)]
        if rich and r.random() < 0.5:
            # an If / Switch / FSM block that assigns in 2-4 domains and is the FIRST thing the module does, so the
            # key order of Fragment.statements is decided by Module._pop_ctrl alone
            for _ in range(r.choice([1, 1, 2])):
                nd_ = min(len(doms), r.randint(2, 4))
                assigns = []
                for d in r.sample(doms, nd_):
                    dst = take()
                    if dst is None:
                        break
                    assigns.append([d, dst, r.randrange(nsig)])
                if len(assigns) >= 2:
                    n["mctl"].append([r.choice(["mif", "msw", "mfsm"]), r.randrange(nsig), assigns, r.choice(doms),
                                      r.randint(1, len(assigns) - 1)])
                else:
                    for _, dst, _ in assigns:
                        driven.discard(dst)
        for _ in range(r.randint(0, 3)):
            dst = take()
            if dst is None:
                break
            if r.random() < 0.3:
                n["st"].append(["comb", dst, src_below(dst), src_below(dst), r.randrange(3)])
            else:
                n["st"].append([r.choice(doms), dst, r.randrange(nsig), r.randrange(nsig), r.randrange(3)])
        if rich:
            for _ in range(r.randint(0, 2)):
                dst = take()
                if dst is None:
                    break
                k = r.random()
                comb = r.random() < 0.3
                dom = "comb" if comb else r.choice(doms)
                pick = (lambda: src_below(dst)) if comb else (lambda: r.randrange(nsig))
                if k < 0.4:
                    n["ctl"].append(["if", dom, dst, pick(), pick(), pick(), r.random() < 0.5])
                elif k < 0.7:
                    n["ctl"].append(["sw", dom, dst, pick(), sorted(r.sample(range(8), r.randint(1, 3)))])
                else:
                    n["ctl"].append(["fsm", r.choice(doms), dst, r.randint(2, 4), r.choice([None, "fsm", "a"])])
            if r.random() < 0.3:
                dst = take()
                if dst is not None:
                    k = r.random()
                    w = r.randint(1, 4)
                    if k < 0.4:
                        n["lib"].append(["sfifo", r.choice(doms), w, r.randint(1, 4), r.randrange(nsig), r.randrange(nsig), dst])
                    elif k < 0.6 and len(doms) >= 2:
                        rd, wd = r.sample(doms, 2)
                        n["lib"].append(["afifo", rd, wd, w, r.choice([2, 4]), r.randrange(nsig), r.randrange(nsig), dst])
                    else:
                        n["lib"].append(["ffs", r.choice(doms), r.randrange(nsig), dst, r.randint(2, 3)])
        if r.random() < 0.35:
            dst = take()
            if dst is not None:
                n["clk"].append([dst, r.choice(doms), r.randrange(2)])
        if r.random() < 0.3:
            dst = take()
            if dst is not None:
                depth_m = r.randint(2, 4)
                w = r.randint(1, 4)
                n["mem"] = {"n": r.choice([None, "mem", "a"]), "depth": depth_m, "w": w,
                            "init": [r.randrange(1 << w) for _ in range(r.randint(0, depth_m))],
                            "rd": r.choice(doms + ["comb"]), "wd": r.choice(doms + [None]),
                            "ra": src_below(dst), "rdat": dst,
                            "wa": r.randrange(nsig), "wdat": r.randrange(nsig), "wen": r.randrange(nsig)}
        if not sim and r.random() < 0.3:
            dst = take()
            if dst is not None:
                n["inst"] = {"n": r.choice([None, "inst", "b"]), "type": r.choice(["ext", "a", "pll"]),
                             "i": r.randrange(nsig), "o": dst, "clk": r.choice(doms + [None])}
                if rich:
                    pool = [["WIDTH", 4], ["INIT", "abc"], ["MODE", "fast"], ["DIV", -3], ["A", 0], ["Z", 1 << 40]]
                    n["inst"]["params"] = r.sample(pool, r.randint(0, 4))
                    n["inst"]["attrs"] = r.sample([["keep", "true"], ["LOC", "X1Y2"], ["a", 1]], r.randint(0, 2))
        if not sim and r.random() < 0.2:
            dst = take()
            if dst is not None:
                n["io"] = {"name": r.choice(names + ["pad"]), "sig": dst}
        if depth < 3:
            for _ in range(r.randint(0, 3)):
                if budget[0] <= 0:
                    break
                budget[0] -= 1
                n["subs"].append(node(depth + 1, no_doms))
            used = {(n["mem"] or {}).get("n"), (n["inst"] or {}).get("n")}
            for s in n["subs"]:
                if r.random() < 0.5:
                    cand = [x for x in SUBNAMES if x not in used and (not plain_names or "$" not in x)]
                    if cand:
                        s["n"] = r.choice(cand)
                        used.add(s["n"])
        return n

    top = node(0)
    # make sure at least two undeclared domains are used somewhere at the top
    for d in doms[:2]:
        dst = take()
        if dst is not None:
            top["st"].append([d, dst, r.randrange(nsig), r.randrange(nsig), r.randrange(3)])
    ports = []
    for i in r.sample(range(nsig), r.randint(1, nsig)):
        ports.append([r.choice([None, None, None, "p%d" % i, sigs[i][0]]), i])
    seen = set()
    for p in ports:                      # explicit names must be unique (Fragment._prepare_ports raises otherwise)
        if p[0] is not None:
            if p[0] in seen:
                p[0] = None
            else:
                seen.add(p[0])
    return {"sigs": sigs, "doms": doms, "top": top, "ports": ports, "free": sorted(free())}


class _SigList(list):
    pass


def node_list(D):
    """the nodes of a design in the order build_design creates them (pre-order)"""
    out = []

    def walk(n):
        out.append(n)
        for s_ in n["subs"]:
            walk(s_)
    walk(D["top"])
    return out


def mctl_domains(c):
    """domains of a multi-domain block in the order they first occur inside it"""
    kind, sel, assigns, fdom, k = c
    ds = [d for d, _, _ in assigns[:k]]
    if kind == "mfsm":
        ds.append(fdom)                  # m.next in state S0 is a statement of the FSM's domain
    ds += [d for d, _, _ in assigns[k:]]
    if kind == "mif":
        ds.append(assigns[0][0])
    return ds


def emit_seq(n):
    """the domains of the statements of a node's Module in the order build_design adds them (structure of the
    generated module; first occurrences and renaming are the model's: Repro.stmt_keys)"""
    seq = []
    for c in n.get("mctl", []):
        seq += mctl_domains(c)
    for dom, *_ in n["st"]:
        seq.append(dom)
    for c in n.get("ctl", []):
        seq += ["comb", c[1]] if c[0] == "fsm" else [c[1]]
    for c in n.get("lib", []):
        if c[0] != "ffs":
            seq.append("comb")
    for _ in n["clk"]:
        seq.append("comb")
    if n["mem"]:
        seq.append("comb")
    if any(c[0] == "mfsm" for c in n.get("mctl", [])) or any(c[0] == "fsm" for c in n.get("ctl", [])):
        seq.append("comb")               # Module.elaborate adds the FSMs' `ongoing` comparisons last, under "comb"
    return seq


def keys_term(D):
    """Gallina list of (DomainRenamer maps innermost first, domain sequence), one per node"""
    out = []

    def walk(n, maps):
        xf = n.get("xf")
        if xf and xf[0] == "rename":
            maps = [xf[1]] + maps        # the maps of the ancestors apply after the node's own
        ms = "[" + "; ".join("[" + "; ".join(f"({qn(a)}, {qn(b_)})" for a, b_ in mp) + "]" for mp in maps) + "]"
        out.append(f"({ms}, {names_lit(emit_seq(n))})")
        for s_ in n["subs"]:
            walk(s_, maps)
    walk(D["top"], [])
    return "[" + "; ".join(out) + "]"


def statement_keys(top, objs):
    """keys of Fragment.statements of every generated node's fragment, in node order"""
    from amaranth.hdl._ir import Fragment
    where = {id(o): i for i, o in enumerate(objs)}
    found = {}

    def walk(frag):
        if frag.origins:
            i = where.get(id(frag.origins[0]))
            if i is not None:
                found[i] = list(frag.statements)
        for sub, _, _ in frag.subfragments:
            walk(sub)
    walk(Fragment.get(top, None))
    return [found.get(i) for i in range(len(objs))]


_ENUMS = {}


def enum_cls(w):
    """amaranth.lib.enum.Enum of shape unsigned(w) with a member for every value"""
    if w not in _ENUMS:
        from amaranth.lib import enum as aenum
        ns = {"aenum": aenum}
        body = "".join(f"    M{i} = {i}\n" for i in range(1 << w))
        exec(f"class E{w}(aenum.Enum, shape={w}):\n{body}", ns)
        _ENUMS[w] = ns[f"E{w}"]
    return _ENUMS[w]


def build_design(D):
    """Fresh real objects for a design description.  Returns (top elaboratable, signals (as plain Values),
    ports argument, memories)."""
    from amaranth.hdl import (Module, Signal, Const, Mux, ClockDomain, ClockSignal, ResetSignal, Elaboratable,
                              Instance, IOPort, IOBufferInstance, Value, signed, DomainRenamer, ResetInserter,
                              EnableInserter)
    from amaranth.lib.memory import Memory
    from amaranth.lib.fifo import SyncFIFO, AsyncFIFO
    from amaranth.lib.cdc import FFSynchronizer
    sigs = []
    for ent in D["sigs"]:
        nm, w, init = ent[:3]
        kind = ent[3] if len(ent) > 3 else 0
        if kind == 1:
            s = Signal(signed(w), name=nm, init=init)
        elif kind == 2:
            E = enum_cls(w)
            s = Value.cast(Signal(E, name=nm, init=E(init)))
        elif kind == 3:
            s = Signal(w, name=nm, init=init, attrs={"keep": "true", "mark": w})
        else:
            s = Signal(w, name=nm, init=init)
        sigs.append(s)
    mems = []

    def val(i):
        return Const(1, 1) if i < 0 else sigs[i]

    def add_sub(m, name, obj):
        if name is None:
            m.submodules += obj
        else:
            m.submodules[name] = obj

    def mk(n):
        m = Module()
        my_index = len(objs)
        objs.append(None)
        for d in n["doms"]:
            m.domains += ClockDomain(d)
        for bi, (kind, sel, assigns, fdom, k) in enumerate(n.get("mctl", [])):
            first, rest = assigns[:k], assigns[k:]
            if kind == "mif":
                with m.If(val(sel)[0]):
                    for d, dst, src in first:
                        m.d[d] += sigs[dst].eq(val(src))
                with m.Else():
                    for d, dst, src in rest + first[:1]:
                        m.d[d] += sigs[dst].eq(~val(src))
            elif kind == "msw":
                with m.Switch(val(sel).as_unsigned()):
                    with m.Case(0):
                        for d, dst, src in first:
                            m.d[d] += sigs[dst].eq(val(src))
                    with m.Default():
                        for d, dst, src in rest:
                            m.d[d] += sigs[dst].eq(val(src) + 1)
            else:
                with m.FSM(domain=fdom, name=f"mfsm{bi}"):
                    with m.State("S0"):
                        for d, dst, src in first:
                            m.d[d] += sigs[dst].eq(val(src))
                        m.next = "S1"
                    with m.State("S1"):
                        for d, dst, src in rest:
                            m.d[d] += sigs[dst].eq(val(src) ^ 1)
                        m.next = "S0"
        for dom, dst, s1, s2, op in n["st"]:
            a, b = val(s1), val(s2)
            e = [a + b, a ^ b, Mux(a[0], b, ~b)][op]
            m.d[dom] += sigs[dst].eq(e)
        for c in n.get("ctl", []):
            if c[0] == "if":
                _, dom, dst, cs, s1, s2, has_elif = c
                with m.If(val(cs)[0]):
                    m.d[dom] += sigs[dst].eq(val(s1))
                if has_elif:
                    with m.Elif(val(s1)[0]):
                        m.d[dom] += sigs[dst].eq(val(s2))
                with m.Else():
                    m.d[dom] += sigs[dst].eq(val(s1) ^ val(s2))
            elif c[0] == "sw":
                _, dom, dst, sel, ks = c
                v = val(sel).as_unsigned()
                with m.Switch(v):
                    for k in ks:
                        if k < (1 << len(v)):
                            with m.Case(k):
                                m.d[dom] += sigs[dst].eq(k + 1)
                    with m.Default():
                        m.d[dom] += sigs[dst].eq(0)
            else:
                _, dom, dst, nst, nm = c
                with m.FSM(domain=dom, **({} if nm is None else {"name": nm})):
                    for k in range(nst):
                        with m.State(f"S{k}"):
                            m.d.comb += sigs[dst].eq(k + 1)
                            m.next = f"S{(k + 1) % nst}"
        for c in n.get("lib", []):
            if c[0] == "sfifo":
                _, dom, w, depth, wd, wen, dst = c
                f = SyncFIFO(width=w, depth=depth)
                m.submodules += DomainRenamer(dom)(f)
                m.d.comb += [f.w_data.eq(val(wd)), f.w_en.eq(val(wen)[0]), f.r_en.eq(1), sigs[dst].eq(f.r_data)]
            elif c[0] == "afifo":
                _, rd, wdm, w, depth, wd, wen, dst = c
                f = AsyncFIFO(width=w, depth=depth, r_domain=rd, w_domain=wdm)
                m.submodules.afifo = f
                m.d.comb += [f.w_data.eq(val(wd)), f.w_en.eq(val(wen)[0]), f.r_en.eq(1), sigs[dst].eq(f.r_data)]
            else:
                _, dom, src, dst, stages = c
                m.submodules += FFSynchronizer(val(src), sigs[dst], o_domain=dom, stages=stages)
        for dst, dom, kind in n["clk"]:
            m.d.comb += sigs[dst].eq(ClockSignal(dom) if kind == 0 else ResetSignal(dom))
        if n["mem"]:
            mm = n["mem"]
            mem = Memory(shape=mm["w"], depth=mm["depth"], init=mm["init"])
            mems.append(mem)
            add_sub(m, mm["n"], mem)
            rp = mem.read_port(domain=mm["rd"])
            m.d.comb += rp.addr.eq(val(mm["ra"]))
            m.d.comb += sigs[mm["rdat"]].eq(rp.data)
            if mm["wd"] is not None:
                wp = mem.write_port(domain=mm["wd"])
                m.d.comb += [wp.addr.eq(sigs[mm["wa"]]), wp.data.eq(sigs[mm["wdat"]]), wp.en.eq(sigs[mm["wen"]][0])]
        if n["inst"]:
            it = n["inst"]
            kw = {}
            for k, v in it.get("params", []):
                kw["p_" + k] = v
            for k, v in it.get("attrs", []):
                kw["a_" + k] = v
            kw.update({"i_d": sigs[it["i"]], "o_q": sigs[it["o"]]})
            if it["clk"] is not None:
                kw["i_clk"] = ClockSignal(it["clk"])
            add_sub(m, it["n"], Instance(it["type"], **kw))
        if n["io"]:
            s = sigs[n["io"]["sig"]]
            m.submodules += IOBufferInstance(IOPort(len(s), name=n["io"]["name"]), i=s)
        for sub in n["subs"]:
            add_sub(m, sub["n"], mk(sub))
        cls = type(n["t"], (Elaboratable,), {"elaborate": lambda self, platform: self._m})
        obj = cls()
        obj._m = m
        xf = n.get("xf")
        if xf:
            if xf[0] == "rename":
                obj = DomainRenamer({a: b for a, b in xf[1]})(obj)
            elif xf[0] == "reset":
                obj = ResetInserter({xf[1]: val(xf[2])[0]})(obj)
            else:
                obj = EnableInserter({xf[1]: val(xf[2])[0]})(obj)
        objs[my_index] = obj
        return obj

    objs = []
    top = mk(D["top"])
    ports = [sigs[i] if nm is None else (nm, sigs[i], None) for nm, i in D["ports"]]
    sigs_list = _SigList(sigs)
    sigs_list.objs = objs                # the elaboratable of every node, in the order of node_list(D)
    return top, sigs_list, ports, mems


def frag_term(n):
    """Gallina `frag` of a design node as DomainCollector sees it (sets: order irrelevant)."""
    used = []
    for c in n.get("mctl", []):
        used += mctl_domains(c)
    for dom, *_ in n["st"]:
        used.append(dom)
    for c in n.get("ctl", []):
        used.append(c[1])
        if c[0] == "fsm":
            used.append("comb")
    for dst, dom, kind in n["clk"]:
        used += ["comb", dom]
    subs = []
    for c in n.get("lib", []):
        used.append("comb")
        lib_doms = {"sfifo": [c[1]], "afifo": [c[1], c[2]], "ffs": [c[1]]}[c[0]]
        subs.append(f"(Frag [] [] {names_lit(lib_doms)} [])")
    if n["mem"]:
        mm = n["mem"]
        used.append("comb")
        pre = [mm["rd"]] + ([mm["wd"]] if mm["wd"] is not None else [])
        subs.append(f"(Frag {names_lit(pre)} [] [] [])")
    if n["inst"]:
        pre = [n["inst"]["clk"]] if n["inst"]["clk"] is not None else []
        subs.append(f"(Frag {names_lit(pre)} [] [] [])")
    if n["io"]:
        subs.append("(Frag [] [] [] [])")
    subs += [frag_term(s) for s in n["subs"]]
    t = f"(Frag [] {names_lit(n['doms'])} {names_lit(used)} [{'; '.join(subs)}])"
    xf = n.get("xf")
    if xf and xf[0] == "rename":
        t = "(rename_frag [" + "; ".join(f"({qn(a)}, {qn(b)})" for a, b in xf[1]) + f"] {t})"
    return t


def kid_term(n, named=False):
    """Gallina `kid`: the submodule tree with its IO buffers (structure only; the ordering is the model's)"""
    kids = []
    for c in n.get("lib", []):
        kids.append(f"KSub {b(c[0] == 'afifo')} []")
    if n["mem"]:
        kids.append(f"KSub {b(n['mem']['n'] is not None)} []")
    if n["inst"]:
        kids.append(f"KSub {b(n['inst']['n'] is not None)} []")
    if n["io"]:
        kids.append(f"KIo {qn(n['io']['name'])}")
    for s in n["subs"]:
        kids.append(kid_term(s, s["n"] is not None))
    return f"(KSub {b(named)} [" + "; ".join(kids) + "])"


def names_lit(l):
    return "[" + "; ".join(qn(s) for s in l) + "]"


def rtlil_ports(text):
    """(direction, name) of the ports of module \\top in port-index order"""
    i = text.index("module \\top")
    body = text[i:text.index("\nend\n", i)]
    found = re.findall(r"^\s*wire (?:width \d+ )?(input|output|inout) (\d+)(?:\s+signed)?\s+\\(\S+)\s*$", body, flags=re.M)
    return [(d, nm) for d, _, nm in sorted(found, key=lambda t: int(t[1]))]


def ports_consistent(pnames, rports, ionames=()):
    """RTLIL emits the signal inputs in design.ports order, then the signal outputs in design.ports order, then IO ports"""
    if sorted(nm for _, nm in rports) != sorted(pnames):
        return False
    grp = [2 if nm in ionames else ["input", "output", "inout"].index(d) for d, nm in rports]
    if grp != sorted(grp):
        return False
    pos = {nm: i for i, nm in enumerate(pnames)}
    for g in (0, 1, 2):
        idx = [pos[nm] for gg, (_, nm) in zip(grp, rports) if gg == g]
        if idx != sorted(idx):
            return False
    return True


def apply_mutation(which):
    """in-memory seeded changes of amaranth, used only to measure what the generators expose (C09_MUTATE=<which>
    in the environment of the workers; never touches /repo)"""
    if which == "switch_set":
        # Module._pop_ctrl, Switch branch: the dict collecting the domains driven inside m.Switch becomes a set
        import inspect, textwrap
        from amaranth.hdl import _dsl
        src = textwrap.dedent(inspect.getsource(_dsl.Module._pop_ctrl))
        old = ("        domains = {}\n        for _patterns, stmts, _src_loc in switch_cases:\n"
               "            for domain in stmts:\n                domains[domain] = None\n")
        new = ("        domains = set()\n        for _patterns, stmts, _src_loc in switch_cases:\n"
               "            for domain in stmts:\n                domains.add(domain)\n")
        assert old in src
        ns = {}
        exec(compile(src.replace(old, new), _dsl.__file__, "exec"), _dsl.__dict__, ns)
        _dsl.Module._pop_ctrl = ns["_pop_ctrl"]
    elif which:
        raise ValueError(which)


def design_keys(D):
    """keys of Fragment.statements of every generated module of a freshly built copy of the design"""
    top, sigs, _, _ = build_design(D)
    return statement_keys(top, sigs.objs)


def elaborate_obs(D):
    """(created domains in callback order, design.ports names, rtlil port names, rtlil text, Design)"""
    from amaranth.hdl import ClockDomain
    from amaranth.hdl._ir import Fragment
    from amaranth.back import rtlil
    called = []

    def cb(name):
        called.append(name)
        return ClockDomain(name)
    top, sigs, ports, mems = build_design(D)
    design = Fragment.get(top, None).prepare(ports=ports, missing_domain=cb)
    top2, _, ports2, _ = build_design(D)
    text = rtlil.convert(top2, ports=ports2)
    return called, [nm for nm, _, _ in design.ports], rtlil_ports(text), text, design


ERRS = {"AssertionError": 1, "TypeError": 2}


def unexpected(e):
    """an exception class the model never predicts: [-9, checksum of the class name]"""
    return [-9, sum(ord(ch) for ch in type(e).__name__) % 100000]


def user_inits_ok(D, sim):
    """the `init` the engine holds for every user signal that has a slot is the one of the design description
    (the snapshot takes inits from the implementation)"""
    st = sim._engine._state
    for ent, sig in zip(D["sigs"], sim._c09_sigs):
        if sig in st.signals and int(st.slots[st.signals[sig]].signal.init) != ent[2]:
            return False
    return True


def err_code(e):
    nm = type(e).__name__
    if nm not in ERRS:
        raise e
    return [-1, ERRS[nm]]


# ------------------------------------------------------------------ naming inputs from a real Design
def naming_io(design):
    """per fragment: inputs of Design._assign_names (ordered as the code iterates them) and its outputs"""
    from amaranth.hdl import IOPort
    ids = {}

    def sid(obj):
        return ids.setdefault(id(obj), len(ids))
    frs = []
    for frag, info in design.fragments.items():
        tports = []
        if frag is design.fragment:
            tports = [[nm, sid(conn), conn.name, isinstance(conn, IOPort)] for nm, conn, _ in design.ports]
        sg = [[sid(s), s.name] for s in info.used_signals]
        ios = [[sid(p), p.name] for p in info.used_io_ports]
        subs = [[nm, sub.name_from_type()] for sub, nm, _ in frag.subfragments]
        out_s = [[sid(s), nm] for s, nm in info.signal_names.items()]
        out_i = [[sid(p), nm] for p, nm in info.io_port_names.items()]
        out_sub = [design.fragments[sub].name[-1] for sub, _, _ in frag.subfragments]
        frs.append({"in": [tports, sg, ios, subs], "out": [out_s, out_i, out_sub]})
    return frs


def enc_amap(m):
    out = [len(m)]
    for k, v in m:
        out += [k] + enc_name(v)
    return out


def conns_lit(l):
    return "[" + "; ".join(f"({z(i)}, {qn(nm)})" for i, nm in l) + "]"


# ------------------------------------------------------------------ build plans
FILE_POOL = ["top.il", "top.ys", "build_top.sh", "a", "b", "ab", "a/b", "a/c.txt", "extra/notes.txt", "Z", "_x",
             "\u00e9.txt", "\u4e2d/\u6587.v", "\U0001f600", "z\u00e9", "a.b", "a-b", "A", "top.il.bak", "\u07ff", "\u0800x", "\uffff"]
SCRIPTS = ["build_top", "b", "\u00e9", ""]


BAD_NAMES = ["/abs", "C:/x", "c:\\y", "1:/x", "\u00e9:/x", "//h/s/x"]          # add_file: ValueError
ODD_NAMES = ["C:x", ":/x", "ab:/x", "a/..b", "...", "C:"]                       # legal relative names
DOTDOT_NAMES = ["../up.txt", "a/../b", "..", "a/../../b"]                        # extract(): AssertionError


def _no_conflict(nm, names):
    return not any(o == nm or o.startswith(nm + "/") or nm.startswith(o + "/") for o in names)


def gen_plan(r):
    n = r.randint(1, 7)
    names = []
    pool = FILE_POOL + ODD_NAMES
    for nm in r.sample(pool, n):        # a file name must not be a directory of another one
        if _no_conflict(nm, names):
            names.append(nm)
    n = len(names)
    k = r.random()
    if k < 0.04 and n >= 2:
        names[-1] = names[0]
    elif k < 0.10:
        names.insert(r.randrange(n + 1), r.choice(BAD_NAMES))
    elif k < 0.16:
        names.insert(r.randrange(n + 1), r.choice(DOTDOT_NAMES))
    adds = []
    for nm in names:
        ln = r.randint(0, 6)
        if r.random() < 0.5:
            adds.append([nm, "s", "".join(r.choice("ab\n \u00e9\u4e2d\U0001f600{}") for _ in range(ln))])
        else:
            adds.append([nm, "b", [r.randrange(256) for _ in range(ln)]])
    pre = []
    if r.random() < 0.4:                 # the build directory is not empty: unrelated files stay, same names are replaced
        for nm in r.sample(["keep.txt", "old/top.il", "zz"] + names[:2], r.randint(1, 3)):
            if nm not in BAD_NAMES + DOTDOT_NAMES and all(_no_conflict(nm, [o]) or o == nm for o in names) \
                    and _no_conflict(nm, [p_[0] for p_ in pre]):
                pre.append([nm, [r.randrange(256) for _ in range(r.randint(0, 4))]])
    return {"k": "plan", "adds": adds, "script": r.choice(SCRIPTS), "pre": pre}


class _Recorder:
    def __init__(self):
        self.data = b""

    def update(self, b):
        self.data += bytes(b)

    def digest(self):
        return b""


def run_plan(c):
    from amaranth.build import run as brun
    plan = brun.BuildPlan(c["script"])
    try:
        for nm, kind, content in c["adds"]:
            plan.add_file(nm, content if kind == "s" else bytes(content))
    except (AssertionError, ValueError) as e:
        return [-1, {"AssertionError": 1, "ValueError": 3}[type(e).__name__]]
    rec = _Recorder()
    real_hashlib = brun.hashlib

    class _FakeHashlib:
        @staticmethod
        def blake2b(digest_size=64):
            return rec
    brun.hashlib = _FakeHashlib          # observe the bytes the real digest() feeds to the hasher
    try:
        plan.digest()
    finally:
        brun.hashlib = real_hashlib
    import zipfile
    buf = io.BytesIO()
    plan.archive(buf)
    out = [1] + enc_name(rec.data)
    with zipfile.ZipFile(io.BytesIO(buf.getvalue())) as zf:
        infos = zf.infolist()
        out += [len(infos)]
        for info in infos:
            out += enc_name(info.filename) + enc_name(zf.read(info)) + list(info.date_time) + [info.compress_type]
    try:
        listing = extract_listing(plan, c.get("pre", []))
    except AssertionError:
        return out + [-1, 1]
    except Exception as e:               # e.g. OSError from writing: never predicted by the model
        return out + unexpected(e)
    out += [len(listing)]
    for nm, b in listing:
        out += enc_name(nm) + enc_name(b)
    return out


def scratch_dir():
    base = os.environ.get("TMPDIR") or tempfile.gettempdir()
    d = tempfile.mkdtemp(prefix="verif_c09_", dir=base)
    real = os.path.realpath(d)
    assert not real.startswith("/repo") and not real.startswith("/verif"), real
    return d


def extract_listing(plan, pre=()):
    """plan.extract into a scratch directory (two levels below the mkdtemp directory, so that a `..` component
    could not leave it even if extract() did not refuse it) that already holds the files `pre`:
    sorted [(relative posix path, bytes)]; everything is removed afterwards"""
    d = scratch_dir()
    try:
        root = os.path.join(d, "l1", "l2")
        os.makedirs(root)
        for nm, content in pre:
            fp = os.path.join(root, *nm.split("/"))
            os.makedirs(os.path.dirname(fp), exist_ok=True)
            with open(fp, "wb") as f:
                f.write(bytes(content))
        plan.extract(root)
        out = []
        for dp, _, fs in os.walk(root):
            for f in fs:
                p = os.path.join(dp, f)
                rel = os.path.relpath(p, root).replace(os.sep, "/")
                out.append((rel, open(p, "rb").read()))
        return sorted(out)
    finally:
        shutil.rmtree(d, ignore_errors=True)


def plan_term(c):
    adds = []
    for nm, kind, content in c["adds"]:
        cont = f"CStr {qn(content)}" if kind == "s" else f"CBytes {zl(content)}"
        adds.append(f"({qn(nm)}, {cont})")
    pre = "[" + "; ".join(f"({qn(nm)}, {zl(content)})" for nm, content in c.get("pre", [])) + "]"
    return f"k_plan {pre} [{'; '.join(adds)}] {qn(c['script'])}"


# ------------------------------------------------------------------ simulations (reset)
def used_domains(D):
    """clock domains visible at the top of a simulable design (no locally declared domains there)"""
    def walk(n):
        out = []
        for c in n.get("mctl", []):
            out += mctl_domains(c)
        for dom, *_ in n["st"]:
            out.append(dom)
        for c in n.get("ctl", []):
            out.append(c[1])
        for c in n.get("lib", []):
            out += {"sfifo": [c[1]], "afifo": [c[1], c[2]], "ffs": [c[1]]}[c[0]]
        for _, dom, _ in n["clk"]:
            out.append(dom)
        if n["mem"]:
            out.extend([n["mem"]["rd"], n["mem"]["wd"]])
        if n["inst"]:
            out.append(n["inst"]["clk"])
        for s in n["subs"]:
            out += walk(s)
        xf = n.get("xf")
        if xf and xf[0] == "rename":
            mp = dict(map(tuple, xf[1]))
            out = [mp.get(d, d) for d in out]
        return out
    return sorted({d for d in walk(D["top"]) if d not in (None, "comb")})


def gen_sim_design(r, plain_names=True):
    while True:
        D = gen_design(r, sim=True, plain_names=plain_names)
        if used_domains(D):
            return D


def design_mems(D):
    """memory descriptors in the order build_design creates them"""
    out = []

    def walk(n):
        if n["mem"]:
            out.append(n["mem"])
        for s_ in n["subs"]:
            walk(s_)
    walk(D["top"])
    return out


def gen_stim(r, D):
    doms = used_domains(D)
    dm = design_mems(D)
    clocks = [[d, r.choice([2, 3, 4, 10]), r.choice([None, None, 0, 1, 3])] for d in doms]
    steps = []
    for _ in range(r.randint(2, 8)):
        k = r.random()
        if k < 0.4:
            steps.append(["delay", r.choice([1, 2, 3, 5, 7])])
        elif k < 0.6:
            steps.append(["tick", r.choice(doms)])
        elif k < 0.8 and D["free"]:
            i = r.choice(D["free"])
            steps.append(["set", i, r.randrange(1 << D["sigs"][i][1])])
        elif k < 0.9 and dm:
            mi = r.randrange(len(dm))
            steps.append(["setmem", mi, r.randrange(dm[mi]["depth"]), r.randrange(1 << dm[mi]["w"])])
        else:
            steps.append(["get"])
    steps.append(["get"])
    tb2 = [r.choice([1, 2, 4, 6]) for _ in range(r.randint(1, 4))] if r.random() < 0.4 else None
    bg = None
    if r.random() < 0.6 and D["free"]:
        bg = [r.choice(D["free"]), r.choice([1, 3, 4]), r.random() < 0.5]
    total = sum(s[1] for s in steps if s[0] == "delay")
    prefix, acc = [], 0
    for s in steps:                      # instants at which a delay of the testbench expires (exact when no tick precedes)
        if s[0] == "delay":
            acc += s[1]
            prefix.append(acc)
    if prefix and r.random() < 0.5:
        stop = r.choice(prefix)
    elif bg and r.random() < 0.4:
        stop = bg[1] * r.randint(1, 6)
    else:
        stop = r.choice([1, 2, 3, max(1, total), max(1, total // 2), total + 20, 50])
    return {"clocks": clocks, "steps": steps, "bg": bg, "stop": stop, "tb2": tb2}


def make_sim(D, S, trace):
    from amaranth.sim import Simulator, Period
    top, sigs, ports, mems = build_design(D)
    sim = Simulator(top)
    for d, per, ph in S["clocks"]:
        if ph is None:
            sim.add_clock(Period(ns=per), domain=d)
        else:
            sim.add_clock(Period(ns=per), phase=Period(ns=ph), domain=d)
    bg = S["bg"]
    bg_sig = bg[0] if bg else None

    def sample(ctx, tag):
        row = [tag] + [ctx.get(s) for s in sigs]
        for mem in mems:
            row += [ctx.get(mem.data[i]) for i in range(mem.depth)]
        trace.append(row)

    async def tb(ctx):
        for st in S["steps"]:
            if st[0] == "delay":
                await ctx.delay(Period(ns=st[1]))
            elif st[0] == "tick":
                await ctx.tick(st[1])
            elif st[0] == "set":
                if st[1] != bg_sig:
                    ctx.set(sigs[st[1]], st[2])
            elif st[0] == "setmem":
                ctx.set(mems[st[1]].data[st[2]], st[3])
            else:
                sample(ctx, 1)
    sim.add_testbench(tb)
    if S.get("tb2"):
        async def tb2(ctx):             # a second testbench, added after the first: runs after it at equal times
            for d in S["tb2"]:
                await ctx.delay(Period(ns=d))
                sample(ctx, 2)
        sim.add_testbench(tb2)
    if bg:
        async def proc(ctx):
            v = 0
            while True:
                await ctx.delay(Period(ns=bg[1]))
                v ^= 1
                ctx.set(sigs[bg[0]], v)
        if bg[2]:
            sim.add_process(proc)
        else:
            sim.add_testbench(proc, background=True)
    sim._c09_sigs = sigs
    return sim, sigs, mems


def _proc_static(p):
    nm = type(p).__name__
    if nm == "PyRTLProcess":
        return (0, int(p.is_comb))
    if nm == "PyClockProcess":
        return (1, int(p.phase), int(p.period))
    return (2, int(p.background))


def _enc_proc(p):
    import inspect
    nm = type(p).__name__
    if nm == "PyRTLProcess":
        return [0, int(p.is_comb), int(p.runnable), int(p.critical)]
    if nm == "PyClockProcess":
        return [1, int(p.phase), int(p.period), int(p.runnable), int(p.critical), int(p.initial)]
    if p.coroutine is None:
        pc = 2
    else:
        pc = 0 if inspect.getcoroutinestate(p.coroutine) == "CORO_CREATED" else 1
    return [2, int(p.background), int(p.runnable), int(p.critical), int(p.first_await),
            -1 if p.waits_on is None else 1, pc]


def touch_all(sim):
    """allocate the slot of every user signal and every domain's clk/rst (what the first ctx.get / ctx.set /
    ctx.tick of a testbench does), so that a
    simulator that has run and a new one hold the same set of slots"""
    for sig in sim._c09_sigs:
        sim._engine._state.get_signal(sig)
    for cd in sim._design.fragment.domains.values():      # ctx.tick() samples clk and rst of its domain
        sim._engine._state.get_signal(cd.clk)
        if cd.rst is not None:
            sim._engine._state.get_signal(cd.rst)


def snapshot(sim):
    """Engine state.  The slots are listed in a canonical order — kind, signal name, init, number of wakers (all
    untouched by reset()), then the dynamic fields — because their numbering follows the iteration of
    `set(fragment.statements)` in _pyrtl._FragmentCompiler, i.e. the string-hash seed; `pending` holds positions
    in that order."""
    eng = sim._engine
    st = eng._state
    slots = []
    for s in st.slots:
        pend = int(any(s is p for p in st.pending))
        if type(s).__name__ == "_PySignalState":
            key = (0, s.signal.name, int(s.signal.init), len(s.wakers), int(s.curr), int(s.next), pend)
            slots.append((key, [0, int(s.signal.init), int(s.curr), int(s.next), len(s.wakers)], pend))
        else:
            init = [int(v) for v in s.memory._init._raw]
            data = [int(v) for v in s.data]
            wq = sorted((int(a), int(v)) for a, v in s.write_queue.items())
            key = (1, "", init, len(s.wakers), data, wq, pend)
            slots.append((key, [1, init, data, [list(t) for t in wq], len(s.wakers)], pend))
    slots.sort(key=lambda t: t[0])
    pending = [i for i, t in enumerate(slots) if t[2]]
    slots = [t[1] for t in slots]
    procs = sorted((_enc_proc(p) for p in eng._processes), key=lambda e: (_static_of(e), e))
    tbs = [_enc_proc(p) for p in eng._testbenches]
    return {"slots": slots, "pending": pending, "now": int(st.timeline.now),
            "wakers": sorted(int(v) for v in st.timeline.wakers.values()),
            "procs": procs, "tbs": tbs, "delta": int(eng._delta_cycles), "active": len(eng._active_triggers),
            "running": int(bool(sim._running))}


def _static_of(e):
    if e[0] == 0:
        return (0, e[1])
    if e[0] == 1:
        return (1, e[1], e[2])
    return (2, e[1])


def enc_snapshot(s, wakers=True):
    """wakers=False: the per-slot waker counts are left out (they are not part of Repro.observe: a new simulator
    holds the wakers of the compiled processes, a reset one those plus switched-off stale ones)"""
    out = [len(s["slots"])]
    for sl in s["slots"]:
        if sl[0] == 0:
            out += sl[:4] + ([sl[4]] if wakers else [])
        else:
            out += [1] + [len(sl[1])] + sl[1] + [len(sl[2])] + sl[2] + [len(sl[3])] + [x for t in sl[3] for x in t] \
                + ([sl[4]] if wakers else [])
    out += [len(s["pending"])] + s["pending"] + [s["now"]] + [len(s["wakers"])] + s["wakers"]
    out += [len(s["procs"])] + [x for p in s["procs"] for x in p]
    out += [len(s["tbs"])] + [x for p in s["tbs"] for x in p]
    out += [s["delta"], s["active"], s["running"]]
    return out


def b(v):
    return "true" if v else "false"


def proc_lit(e):
    if e[0] == 0:
        return f"PRtl {b(e[1])} {b(e[2])} {b(e[3])}"
    if e[0] == 1:
        return f"PClock {z(e[1])} {z(e[2])} {b(e[3])} {b(e[4])} {b(e[5])}"
    return f"PAsync {b(e[1])} {b(e[2])} {b(e[3])} {b(e[4])} {z(e[5])} {z(e[6])}"


def engine_lit(s):
    slots = []
    for sl in s["slots"]:
        if sl[0] == 0:
            slots.append(f"SSig (mkSig {z(sl[1])} {z(sl[2])} {z(sl[3])} {z(sl[4])})")
        else:
            wq = "[" + "; ".join(f"({z(a)}, {z(v)})" for a, v in sl[3]) + "]"
            slots.append(f"SMem (mkMem {zl(sl[1])} {zl(sl[2])} {wq} {z(sl[4])})")
    wk = "[" + "; ".join(f"({i}, {z(d)})" for i, d in enumerate(s["wakers"])) + "]"
    return (f"(mkEng [{'; '.join(slots)}] {zl(s['pending'])} {z(s['now'])} {wk} "
            f"[{'; '.join(proc_lit(p) for p in s['procs'])}] [{'; '.join(proc_lit(p) for p in s['tbs'])}] "
            f"{z(s['delta'])} {zl(range(s['active']))} {b(s['running'])})")


def run_partial(D, S):
    from amaranth.sim import Period
    trace = []
    sim, sigs, mems = make_sim(D, S, trace)
    sim.run_until(Period(ns=S["stop"]))
    return sim, trace


# ------------------------------------------------------------------ cases
def classify(c):
    k = c["k"]
    if k == "dom":
        return f"dom:{len(c['design']['doms'])}doms"
    if k == "add":
        return "add:" + c.get("g", "rand")
    if k == "plan":
        return f"plan:{min(len(c['adds']), 4)}+files" if len(c["adds"]) >= 4 else f"plan:{len(c['adds'])}files"
    if k == "fresh":
        return "fresh"
    if k == "reset" and c["pre"] is None:
        return "reset:generation-error"
    if k == "reset":
        return "reset:active" if c["pre"]["active"] else ("reset:done" if not any(p[3] for p in c["pre"]["tbs"]) else "reset:mid")
    return k


def nontrivial(c, obs):
    if not obs or obs[0] != 1:
        return False
    k = c["k"]
    if k == "dom":
        return obs[1] >= 2
    if k == "names" and c["frs"] is None:
        return False
    if k == "names":
        return any("$" in nm for fr in c["frs"] for m in fr["out"][:2] for _, nm in m) or \
            any("$" in nm for fr in c["frs"] for nm in fr["out"][2])
    if k == "add":
        seen = set(c["init"])
        for nm in c["ns"]:
            if nm in seen:
                return True
            seen.add(nm)
        return False
    if k == "ports":
        return len(c["ports"]) >= 2
    if k == "plan":
        return len(c["adds"]) >= 2
    if k in ("reset", "fresh"):
        return c["pre"]["now"] > 0
    return True


_CACHE = {}


def gen_cases(tier, seed):
    key = (tier, seed)
    if key in _CACHE:
        return _CACHE[key]
    r = random.Random(seed)
    thorough = tier == "thorough"
    cases = []
    # --- _add_name: exhaustive small scope, then random
    pool = ["a", "a$1", "a$2", "b"]
    for init in ([], ["a"]):
        for n in range(1, 5):
            for ns in itertools.product(pool, repeat=n):
                cases.append({"k": "add", "g": "exh", "init": init, "ns": list(ns)})
    pool2 = ["a", "b", "a$1", "a$3", "a$10", "a$11", "a$12", "b$2", "", "a$1$2", "a$01"]
    for _ in range(300 if not thorough else 4000):
        init = r.sample(pool2, r.randint(0, 3))
        cases.append({"k": "add", "g": "rand", "init": init, "ns": [r.choice(pool2) for _ in range(r.randint(1, 14))]})
    # --- _assign_port_names
    for _ in range(250 if not thorough else 3000):
        ports = []
        for _ in range(r.randint(1, 7)):
            cn = r.choice(["a", "a", "b", "clk", "a$1", "a$2", ""] if r.random() < 0.9 else [""])
            ports.append([r.choice([None, None, "a", "b", "p", "a$1", "a$2"]), cn])
        seen = set()
        for p in ports:
            if p[0] is not None and p[0] in seen:
                p[0] = None
            seen.add(p[0])
        cases.append({"k": "ports", "ports": ports})
    # --- designs: created domains / ports, naming ($-suffixed user names in half of them)
    for i in range(220 if not thorough else 2500):
        D = gen_design(r, sim=False, plain_names=(i % 4 < 2))
        cases.append({"k": "dom", "design": D})
        if i % 2 == 0:
            try:
                design = elaborate_obs(D)[4]
                cases.append({"k": "names", "design": D, "frs": naming_io(design)})
            except Exception as e:      # an elaboration failure is answered [-9, ..] by run_impl: a mismatch, never dropped
                cases.append({"k": "names", "design": D, "frs": None, "err": type(e).__name__})
    # --- build plans
    for _ in range(300 if not thorough else 3000):
        cases.append(gen_plan(r))
    # --- reset / constructor state
    for i in range(120 if not thorough else 1200):
        D = gen_sim_design(r, plain_names=(i % 2 == 0))
        S = gen_stim(r, D)
        try:
            sim, _ = run_partial(D, S)
            pre = snapshot(sim)
            cases.append({"k": "reset", "design": D, "stim": S, "pre": pre})
            touch_all(sim)
            pre_all = snapshot(sim)
            cases.append({"k": "fresh", "design": D, "stim": S, "pre": pre_all, "nfresh": len(pre_all["slots"])})
        except Exception as e:          # answered [-9, ..] by run_impl: a mismatch, never dropped
            cases.append({"k": "reset", "design": D, "stim": S, "pre": None, "err": type(e).__name__})
    _CACHE[key] = cases
    return cases


def run_impl(c):
    k = c["k"]
    if k == "add":
        from amaranth.hdl._ir import _add_name
        s = set(c["init"])
        out = []
        try:
            for nm in c["ns"]:
                out.append(_add_name(s, nm))
        except AssertionError:
            return [-1, 1]
        return [1] + enc_names(out) + [len(s)]
    if k == "ports":
        from amaranth.hdl import Signal
        from amaranth.hdl._ir import Design
        d = Design.__new__(Design)
        d.ports = [(nm, Signal(1, name=cn), None) for nm, cn in c["ports"]]
        try:
            Design._assign_port_names(d)
        except (AssertionError, TypeError) as e:
            return err_code(e)
        return [1] + enc_names([nm for nm, _, _ in d.ports])
    if k == "dom":
        try:
            called, pnames, rports, text, design = elaborate_obs(c["design"])
        except (AssertionError, TypeError) as e:
            return err_code(e)
        except Exception as e:                       # the model never predicts these: reported as a mismatch
            return unexpected(e)
        from amaranth.hdl import IOPort
        ionames = {nm for nm, conn, _ in design.ports if isinstance(conn, IOPort)}
        if not ports_consistent(pnames, rports, ionames):
            return [-7] + enc_names([nm for _, nm in rports])     # RTLIL port order is not that of design.ports
        out = [1] + enc_names(called) + enc_names(pnames)
        for ks in design_keys(c["design"]):
            out += [-8] if ks is None else enc_names(ks)          # -8: the module's fragment was not found
        return out
    if k == "names":
        try:
            design = elaborate_obs(c["design"])[4]
        except Exception as e:
            return unexpected(e)
        frs = naming_io(design)
        if c["frs"] is None or [f["in"] for f in frs] != [f["in"] for f in c["frs"]]:
            return [0]                               # the ordered inputs are not reproducible
        out = []
        for f in frs:
            out += [1] + enc_amap(f["out"][0]) + enc_amap(f["out"][1]) + enc_names(f["out"][2])
        return out
    if k == "plan":
        return run_plan(c)
    if k == "reset":
        try:
            sim, _ = run_partial(c["design"], c["stim"])
        except Exception as e:
            return unexpected(e)
        same = int(snapshot(sim) == c["pre"] and user_inits_ok(c["design"], sim))
        sim.reset()
        return [same] + enc_snapshot(snapshot(sim))
    if k == "fresh":
        try:
            sim, _ = run_partial(c["design"], c["stim"])
            touch_all(sim)
            fresh_sim = make_sim(c["design"], c["stim"], [])[0]
            touch_all(fresh_sim)
            new = snapshot(fresh_sim)
        except Exception as e:
            return unexpected(e)
        same = int(snapshot(sim) == c["pre"] and len(new["slots"]) == c["nfresh"])
        return [same] + enc_snapshot(new, wakers=False)
    return recheck(c)            # replay of a violation reported by extra()


def coq_term(c):
    k = c["k"]
    if k == "add":
        return f"k_addnames {names_lit(c['init'])} {names_lit(c['ns'])}"
    if k == "ports":
        return "k_portnames [" + "; ".join(f"({qopt(nm)}, {qn(cn)})" for nm, cn in c["ports"]) + "]"
    if k == "dom":
        D = c["design"]
        up = "; ".join(f"({qopt(nm)}, {qn(D['sigs'][i][0])})" for nm, i in D["ports"])
        return f"k_dom {frag_term(D['top'])} [{up}] {kid_term(D['top'])} {keys_term(D)}"
    if k == "names":
        if c["frs"] is None:
            return "[1]"                              # generation-time failure: the model predicts a normal answer
        parts = []
        for f in c["frs"]:
            tports, sg, ios, subs = f["in"]
            tp = "[" + "; ".join(f"({qn(nm)}, {z(i)}, {qn(cn)}, {b(io_)})" for nm, i, cn, io_ in tports) + "]"
            sb = "[" + "; ".join(f"({qopt(nm)}, {qn(t)})" for nm, t in subs) + "]"
            parts.append(f"k_names {tp} {conns_lit(sg)} {conns_lit(ios)} {sb}")
        return "(" + " ++ ".join(parts) + ")"
    if k == "plan":
        return plan_term(c)
    if k == "reset":
        if c["pre"] is None:
            return "[1]"                              # generation-time failure: the model predicts a normal answer
        return f"k_reset {engine_lit(c['pre'])}"
    if k == "fresh":
        return f"k_fresh {z(c['nfresh'])} {engine_lit(c['pre'])}"
    raise ValueError(k)


def explain(c):
    return {"add": "[1, names returned by the _add_name calls, size of the set] | [-1,1] AssertionError (impossible since cb9d97a; model: out of fuel)",
            "ports": "[1, final port names] | [-1,1] AssertionError (impossible since cb9d97a) | [-1,2] TypeError",
            "dom": "[1, domains in the order missing_domain was called, design.ports names (= RTLIL port order), then per generated module the keys of Fragment.statements in order]",
            "names": "per fragment [1, signal_names, io_port_names, subfragment names]; [0] = ordered inputs not reproducible",
            "plan": "[1, bytes hashed by digest(), archive members with date_time and compress_type, sorted listing after extract() | -1,1 (`..` component)] | [-1,1] duplicate file | [-1,3] absolute name (ValueError)",
            "reset": "[pre-state reproduced, engine state after reset()]"}.get(c["k"], "")


# ------------------------------------------------------------------ worker (separate interpreter)
def sha(x):
    if isinstance(x, str):
        x = x.encode("utf-8")
    return hashlib.sha256(x).hexdigest()


def platform_job(P):
    """Platform.build(do_build=False) on a fresh dummy platform; returns the plan"""
    from amaranth.hdl import Module, Signal, Elaboratable
    from amaranth.build import Resource, Pins, Clock, Attrs
    from amaranth.lib import io as aio
    from amaranth.vendor import SiliconBluePlatform, LatticePlatform, GowinPlatform, AlteraPlatform
    res = [Resource("clk", 0, Pins("A1", dir="i"), Clock(12e6))]
    for i, (nm, pins, d) in enumerate(P["res"]):
        res.append(Resource(nm, i, Pins(" ".join(pins), dir=d), Attrs(IO_STANDARD="LVCMOS33")))
    common = dict(resources=res, connectors=[], default_clk="clk")
    if P["vendor"] == "ice40":
        plat = type("Ice", (SiliconBluePlatform,), dict(device="iCE40HX8K", package="CT256", **common))(toolchain="IceStorm")
    elif P["vendor"] == "ecp5":
        plat = type("Ecp", (LatticePlatform,), dict(device="LFE5U-25F", package="BG381", speed="6", **common))(toolchain="Trellis")
    elif P["vendor"] == "nexus":
        plat = type("Nx", (LatticePlatform,), dict(device="LIFCL-40-9BG400C", package="BG400", speed="9", **common))(toolchain="Oxide")
    elif P["vendor"] == "altera":
        plat = type("Alt", (AlteraPlatform,), dict(device="5CSEMA4", package="U23", speed="C6", **common))(toolchain="Mistral")
    else:
        plat = type("Gw", (GowinPlatform,), dict(part="GW1N-LV1QN48C6/I5", family="GW1N-1", osc_frequency=None, **common))(toolchain="Apicula")

    class Top(Elaboratable):
        def elaborate(self, platform):
            m = Module()
            ctr = Signal(8)
            acc = Signal(8)
            m.d.sync += ctr.eq(ctr + acc)
            ins = []
            for i, (nm, pins, d) in enumerate(P["res"]):
                port = platform.request(nm, i, dir="-")
                m.submodules[f"buf{i}"] = buf = aio.Buffer(d, port)
                if d == "o":
                    m.d.comb += buf.o.eq(ctr[:len(pins)])
                else:
                    ins.append(buf.i)
            if ins:
                from amaranth.hdl import Cat
                m.d.comb += acc.eq(Cat(*ins))
            for fn, content in P["files"]:
                platform.add_file(fn, content)
            return m
    return plat.build(Top(), P.get("name", "top"), do_build=False, **dict(P.get("overrides", [])))


def plan_fingerprint(plan):
    files = {}
    for fn, content in plan.files.items():
        files[fn] = sha(content if isinstance(content, (str, bytes)) else bytes(content))
    buf = io.BytesIO()
    plan.archive(buf)
    return {"order": list(plan.files), "files": files, "digest": plan.digest().hex(), "archive": sha(buf.getvalue())}


def sim_trace(D, S):
    from amaranth.sim import Period
    trace = []
    sim, sigs, mems = make_sim(D, S, trace)
    sim.run_until(Period(ns=S["stop"] + 40))
    return trace


def worker_main():
    job = json.load(sys.stdin)
    apply_mutation(os.environ.get("C09_MUTATE", ""))
    out = {"hashseed": os.environ.get("PYTHONHASHSEED"), "designs": [], "sims": [], "plans": []}
    from amaranth.back import rtlil
    for D in job["designs"]:
        try:
            called, pnames, rports, text, _ = elaborate_obs(D)
            top, _, ports, _ = build_design(D)
            nosrc = rtlil.convert(top, ports=ports, emit_src=False)
            out["designs"].append({"rtlil": sha(text), "nosrc": sha(nosrc), "created": called, "ports": rports,
                                   "statement_keys": design_keys(D)})
        except Exception as e:
            out["designs"].append({"error": type(e).__name__})
    for D, S in job["sims"]:
        try:
            out["sims"].append(sha(json.dumps(sim_trace(D, S))))
        except Exception as e:
            out["sims"].append("error:" + type(e).__name__)
    for P in job["plans"]:
        try:
            out["plans"].append(plan_fingerprint(platform_job(P)))
        except Exception as e:
            out["plans"].append({"error": type(e).__name__ + ": " + str(e)[:200]})
    out["cases"] = []
    for c in job.get("cases", []):      # the Coq-evaluated kinds, answered under this interpreter's hash seed
        try:
            out["cases"].append(sha(json.dumps(run_impl(c))))
        except Exception as e:
            out["cases"].append("error:" + type(e).__name__ + ": " + str(e)[:120])
    json.dump(out, sys.stdout)


# ------------------------------------------------------------------ extra: the explored (non-Coq) clauses
def gen_platform_job(r):
    pins = ["B1", "B2", "C1", "C2", "D1", "D2", "E1", "E2"]
    r.shuffle(pins)
    res = []
    k = 0
    for nm in r.sample(["led", "btn", "a", "bus", "z"], r.randint(1, 4)):
        n = r.randint(1, 2)
        res.append([nm, pins[k:k + n], r.choice(["i", "o"])])
        k += n
    files = [[fn, "".join(r.choice("ab \n") for _ in range(r.randint(0, 8)))]
             for fn in r.sample(["extra/notes.txt", "z.v", "a.v", "inc/d.vh", "\u00e9.txt"], r.randint(0, 4))]
    overrides = r.sample([["synth_opts", "-abc9"], ["verbose", True], ["script_after_read", "# after read"],
                          ["nextpnr_opts", "--seed 1"], ["script_after_synth", "# after synth"]], r.randint(0, 3))
    return {"vendor": r.choice(["ice40", "ecp5", "gowin", "nexus", "altera"]), "res": res, "files": files,
            "overrides": overrides, "name": r.choice(["top", "top", "blinky"])}


def run_worker(hashseed, job):
    env = dict(os.environ)
    env["PYTHONHASHSEED"] = str(hashseed)
    env["PYTHONPATH"] = os.environ.get("VERIF_REPO", "/repo")
    env["PYTHONWARNINGS"] = "ignore"
    p = subprocess.run(["/venv/bin/python", os.path.abspath(__file__), "--worker"], input=json.dumps(job),
                       capture_output=True, text=True, env=env, timeout=900)
    if p.returncode != 0:
        raise RuntimeError(f"worker (PYTHONHASHSEED={hashseed}) failed: {p.stderr[-800:]}")
    return json.loads(p.stdout[p.stdout.index("{"):])


def advance_stops(sim, limit_fs, max_steps=400):
    out = []
    while sim._engine.now < limit_fs and len(out) < max_steps:
        sim.advance()
        out.append(int(sim._engine.now))
    return out


KIND_ITEMS = {"rtlil": "designs", "sim-trace": "sims", "build-plan": "plans"}


def check_double_conversion(D):
    """two conversions of freshly built copies of the design, and two conversions of one and the same design object,
    in this interpreter: (differs, [sha, ...])"""
    from amaranth.back import rtlil
    t1 = elaborate_obs(D)[3]
    t2 = elaborate_obs(D)[3]
    # and the SAME design object converted twice (state that one conversion leaves in the user's objects — Signal.attrs,
    # names, memories — would change the second text), observed next to the freshly built copies
    top, _, ports, _ = build_design(D)
    t3 = rtlil.convert(top, ports=ports)
    t4 = rtlil.convert(top, ports=ports)
    return not (t1 == t2 == t3 == t4), [sha(t1), sha(t2), sha(t3), sha(t4)]


def check_reset_rerun(D, S):
    """run to S.stop, reset(), rerun; compare with a fresh simulator.
    Returns (which clause failed or None, detail, statistics)"""
    from amaranth.sim import Period
    stats = {}
    limit = S["stop"] + 40
    tr0 = []
    sim0, _, _ = make_sim(D, S, tr0)
    sim0.run_until(Period(ns=limit))
    tr1 = []
    sim1, _, _ = make_sim(D, S, tr1)
    sim1.run_until(Period(ns=S["stop"]))
    stats["active"] = int(len(sim1._engine._active_triggers) > 0)
    sim1.reset()
    bad = []
    # declared initial contents from the CASE (not from the objects: a simulation that overwrites Memory.init itself
    # must not be able to hide behind the comparison); widths are plain unsigned, rows beyond the list are 0
    declared = sorted(tuple((int(v) % (1 << mm["w"])) for v in (list(mm["init"]) + [0] * mm["depth"])[:mm["depth"]])
                      for mm in design_mems(D))
    found = []
    for sl in sim1._engine._state.slots:       # all signals and memories back at their initial contents
        if type(sl).__name__ == "_PySignalState":
            if sl.curr != sl.signal.init or sl.next != sl.signal.init:
                bad.append(sl.signal.name)
        else:
            found.append(tuple(int(v) for v in sl.data))
            if list(sl.data) != list(sl.memory._init._raw) or sl.write_queue:
                bad.append("memory")
    rest = list(found)                            # library cells (FIFOs) bring memories of their own: every DECLARED
    for d_ in declared:                           # memory must be among the engine's memories with its declared contents
        if d_ in rest:
            rest.remove(d_)
        else:
            bad.append("memory-declared-init")
            break
    if bad or sim1._engine.now != 0:
        return "reset-init", {"not_initial": bad, "now": int(sim1._engine.now)}, stats
    del tr1[:]
    stops1 = advance_stops(sim1, limit * 1_000_000)
    simf, _, _ = make_sim(D, S, [])
    stops0 = advance_stops(simf, limit * 1_000_000)
    stats["rows"] = len(tr0)
    if tr1 != tr0:
        return "reset-trace", {"fresh": tr0[:20], "after_reset": tr1[:20]}, stats
    if stops1 != stops0:
        return "reset-stops", {"fresh": stops0[:30], "after_reset": stops1[:30]}, stats
    # a second reset() of the same simulator, now after the complete run, and a third run
    sim1.reset()
    del tr1[:]
    sim1.run_until(Period(ns=limit))
    if tr1 != tr0:
        return "reset-trace", {"fresh": tr0[:20], "after_second_reset": tr1[:20]}, stats
    return None, {}, stats


class shifted_clock:
    """time.time / localtime / gmtime report an instant `seconds` later (what zipfile and friends would stamp)"""
    def __init__(self, seconds):
        self.seconds = seconds

    def __enter__(self):
        import time
        self.saved = (time.time, time.localtime, time.gmtime)
        t0, lt, gt, d = time.time, time.localtime, time.gmtime, self.seconds
        time.time = lambda: t0() + d
        time.localtime = lambda secs=None: lt((t0() if secs is None else secs) + (d if secs is None else 0))
        time.gmtime = lambda secs=None: gt((t0() if secs is None else secs) + (d if secs is None else 0))

    def __exit__(self, *a):
        import time
        time.time, time.localtime, time.gmtime = self.saved


def check_plan_repeat(P, refp=None):
    """Platform.build(do_build=False) twice on fresh platforms, archive twice, extract: (which differs or None, detail)"""
    p1, p2 = platform_job(P), platform_job(P)
    f1, f2 = plan_fingerprint(p1), plan_fingerprint(p2)
    b1, b2 = io.BytesIO(), io.BytesIO()
    p1.archive(b1)
    with shifted_clock(400 * 86400 + 3723):       # the second archive is written "more than a year later"
        p1.archive(b2)
    listing = extract_listing(p1)
    planned = sorted((fn, c.encode("utf-8") if isinstance(c, str) else bytes(c)) for fn, c in p1.files.items())
    which = None
    if f1 != f2 or dict(p1.files) != dict(p2.files) or list(p1.files) != list(p2.files) or (refp is not None and f1 != refp):
        which = "files/digest"
    elif b1.getvalue() != b2.getvalue():
        which = "archive"
    elif listing != planned:
        which = "extract"
    return which, {"first": f1, "second": f2, "other_interpreter": refp,
                   "extracted": [fn for fn, _ in listing], "planned": [fn for fn, _ in planned]}, len(p1.files)


def recheck(c):
    """replay of a violation found by extra(): [0] = the clause holds now, [1] = it still fails"""
    k = c["k"]
    if k == "hashseed:case":
        here = sha(json.dumps(run_impl(c["input"])))
        job = {"designs": [], "sims": [], "plans": [], "cases": [c["input"]]}
        return [int(any(run_worker(s_, job)["cases"][0] != here for s_ in c["seeds"]))]
    if k.startswith("hashseed:"):
        items = KIND_ITEMS[k.split(":", 1)[1]]
        job = {"designs": [], "sims": [], "plans": []}
        job[items] = [c["input"]]
        a, b_ = (run_worker(s, job)[items][0] for s in c["seeds"])
        bad = lambda x: (isinstance(x, dict) and "error" in x) or (isinstance(x, str) and x.startswith("error"))
        return [int(a != b_ or bad(a))]
    if k == "double-conversion":
        return [int(check_double_conversion(c["input"])[0])]
    if k in ("reset-init", "reset-trace", "reset-stops"):
        try:
            return [int(check_reset_rerun(*c["input"])[0] is not None)]
        except Exception:
            return [1]
    if k.startswith("plan-repeat"):
        try:
            return [int(check_plan_repeat(c["input"])[0] is not None)]
        except Exception:
            return [1]
    if k == "probe":
        pr = _probe_s5()
        return [int(pr[0] != pr[1])]
    raise ValueError(k)


def _viol(case, explain, detail):
    return {"property": ID, "kind": "input", "case": case, "expected_by_model": [0], "observed": [1],
            "explain": explain + " (replay answer: [0] = reproducible now, [1] = still differs)", "detail": detail}


def design_features(D):
    out = set()

    def walk(n):
        for c in n.get("ctl", []):
            out.add(c[0])
        for c in n.get("mctl", []):
            out.add("multi-domain-" + c[0][1:] + "-first")
        for c in n.get("lib", []):
            out.add(c[0])
        if n.get("xf"):
            out.add("xf:" + n["xf"][0])
        if n["mem"]:
            out.add("memory")
        if n["inst"]:
            out.add("instance+params" if n["inst"].get("params") else "instance")
        if n["io"]:
            out.add("ioport")
        if n["doms"]:
            out.add("local-domain")
        out.add("anonymous-sub" if any(s_["n"] is None for s_ in n["subs"]) else "leaf/named")
        for s_ in n["subs"]:
            walk(s_)
    walk(D["top"])
    for ent in D["sigs"]:
        out.add(["unsigned", "signed", "enum", "attrs"][ent[3] if len(ent) > 3 else 0])
        if ent[1] > 4:
            out.add("wide")
    return sorted(out)


def extra(tier, seed, findings):
    from concurrent.futures import ThreadPoolExecutor
    thorough = tier == "thorough"
    r = random.Random(seed * 7919 + 11)
    viol, cov = [], {}
    nd, ns, npl = (40, 20, 9) if not thorough else (400, 120, 45)
    import time
    t_start = time.time()
    designs = [gen_design(r, sim=False, plain_names=(i % 2 == 0)) for i in range(nd)]
    sims = []
    for i in range(ns):
        D = gen_sim_design(r, plain_names=(i % 2 == 0))
        sims.append([D, gen_stim(r, D)])
    plans = [gen_platform_job(r) for _ in range(npl)]
    # a sample of the Coq-evaluated cases: their implementation answers (compared with the model under
    # PYTHONHASHSEED=0 by the main run) must be the same under every other hash seed
    pool = [c for c in gen_cases(tier, seed) if c["k"] in ("dom", "names", "reset", "fresh", "plan", "ports")
            and c.get("pre", 1) is not None and c.get("frs", 1) is not None]
    sample = r.sample(pool, min(len(pool), 60 if not thorough else 400))
    job = {"designs": designs, "sims": sims, "plans": plans, "cases": sample}
    first_plan = platform_job(plans[0])
    first_archive = io.BytesIO()
    first_plan.archive(first_archive)
    seeds = list(FIXED_HASH_SEEDS)
    while len(seeds) < len(FIXED_HASH_SEEDS) + (THOROUGH_SEEDS if thorough else QUICK_SEEDS):
        s = r.randrange(1, 2 ** 32 - 1)
        if s not in seeds:
            seeds.append(s)
    # ---- separate interpreters with different string-hash seeds
    with ThreadPoolExecutor(min(16, len(seeds))) as ex:
        results = list(ex.map(lambda s: run_worker(s, job), seeds))
    ref = results[0]
    diffs = 0
    for s, res in zip(seeds[1:], results[1:]):
        for kind, items in KIND_ITEMS.items():
            for i, (a, b_) in enumerate(zip(ref[items], res[items])):
                if a != b_:
                    diffs += 1
                    if diffs <= 3:
                        viol.append(_viol({"k": "hashseed:" + kind, "input": job[items][i], "seeds": [seeds[0], s]},
                                          f"{kind} differs between PYTHONHASHSEED={seeds[0]} and {s}",
                                          {str(seeds[0]): a, str(s): b_}))
    # the Coq-evaluated kinds under every seed, against the answer of this interpreter
    here = [sha(json.dumps(run_impl(c))) for c in sample]
    case_diffs = 0
    for s, res in zip(seeds, results):
        for c, a, b_ in zip(sample, here, res["cases"]):
            if a != b_:
                case_diffs += 1
                if case_diffs <= 3:
                    viol.append(_viol({"k": "hashseed:case", "input": c, "seeds": [s]},
                                      f"the implementation's answer to a {c['k']} case under PYTHONHASHSEED={s} differs from "
                                      f"the one compared with the model", {"here": a, "there": b_}))
    # an exception in the separate interpreter is a failure of the clause, not a statistic
    errors = 0
    for kind, items in KIND_ITEMS.items():
        for i, a in enumerate(ref[items]):
            msg = a.get("error") if isinstance(a, dict) else (a if isinstance(a, str) and a.startswith("error") else None)
            if msg is not None:
                errors += 1
                if errors <= 3:
                    viol.append(_viol({"k": "hashseed:" + kind, "input": job[items][i], "seeds": [seeds[0], seeds[0]]},
                                      f"{kind}: the generated input raises {msg}", {"error": msg}))
    cov["hashseed_runs"] = {
        "seeds": seeds, "designs": nd, "simulations": ns, "platform_plans": npl, "differences": diffs,
        "coq_kind_cases_rerun_under_every_seed": dict(collections.Counter(c["k"] for c in sample)),
        "coq_kind_case_differences": case_diffs, "errors": errors,
        "designs_with_dollar_names": sum(1 for i in range(nd) if i % 2),
        "constructs": dict(collections.Counter(x for D in designs for x in design_features(D))),
        "created_domains_histogram": dict(collections.Counter(len(d.get("created", [])) for d in ref["designs"]))}
    # ---- in-process: double conversion, equal to the result of the separate interpreter
    n_same = 0
    for D, refd in zip(designs, ref["designs"]):
        if "error" in refd:
            continue
        differs, shas = check_double_conversion(D)
        if differs or shas[0] != refd["rtlil"]:
            viol.append(_viol({"k": "double-conversion", "input": D},
                              "two conversions of the same design in one interpreter (or vs a fresh interpreter) differ",
                              {"in_process": shas, "other_interpreter": refd["rtlil"]}))
        else:
            n_same += 1
    cov["double_conversion_identical"] = n_same
    # ---- run / reset / rerun
    st = collections.Counter()
    for D, S in sims:
        try:
            which, detail, stats = check_reset_rerun(D, S)
        except Exception as e:
            st["sim_errors:" + type(e).__name__] += 1
            viol.append(_viol({"k": "reset-trace", "input": [D, S]},
                              f"run / reset / rerun raises {type(e).__name__}: {str(e)[:200]}", {}))
            continue
        st["reruns"] += 1
        st["active_triggers_at_reset"] += stats.get("active", 0)
        st["trace_rows"] += stats.get("rows", 0)
        if which is not None:
            st[which] += 1
            viol.append(_viol({"k": which, "input": [D, S]},
                              {"reset-init": "signals / memories / time not at their initial contents after reset()",
                               "reset-trace": "testbench observations after reset() differ from those of a fresh simulator",
                               "reset-stops": "after reset() advance() stops at other instants than in a fresh simulator "
                                              "(S5, fixed by 3953703: a trigger left in _active_triggers)"}[which], detail))
    cov["reset_reruns"] = dict(st)
    probe = _probe_s5()
    cov["probe_s5_advance_counts(fresh, after run_until+reset)"] = probe
    if probe[0] != probe[1]:
        viol.append(_viol({"k": "probe", "which": "s5"},
                          "advance() calls until the testbench (delay 2ns, set, delay 5ns, set, delay 20ns) ends: fresh "
                          "simulator vs run_until(7ns) + reset(): Simulator.reset() leaves a trigger active (S5)",
                          {"fresh": probe[0], "after_reset": probe[1]}))
    # ---- Platform.build twice on fresh platforms, archive twice, extract into a scratch dir
    pst = collections.Counter()
    for P, refp in zip(plans, ref["plans"]):
        try:
            which, detail, nfiles = check_plan_repeat(P, refp)
        except Exception as e:
            pst["build_errors:" + type(e).__name__] += 1
            viol.append(_viol({"k": "plan-repeat:error", "input": P},
                              f"Platform.build(do_build=False) raises {type(e).__name__}: {str(e)[:200]}", {}))
            continue
        pst["plans"] += 1
        pst["files"] += nfiles
        pst[P["vendor"]] += 1
        if which is not None:
            viol.append(_viol({"k": "plan-repeat:" + which, "input": P},
                              "Platform.build(do_build=False) twice / other interpreter / archive twice / extract: "
                              + which + " differ", detail))
    # the same plan archived again at least 2 s of real time after the first archive
    wait = 2.2 - (time.time() - t_start)
    if wait > 0:
        time.sleep(wait)
    again = io.BytesIO()
    first_plan.archive(again)
    pst["archive_again_after_s"] = round(time.time() - t_start, 1)
    if again.getvalue() != first_archive.getvalue():
        viol.append(_viol({"k": "plan-repeat:archive", "input": plans[0]},
                          "archive() of the same plan written >= 2 s later differs byte-wise", {}))
    cov["platform_plans"] = dict(pst)
    return viol, cov


def _probe_s5():
    from amaranth.hdl import Module, Signal
    from amaranth.sim import Simulator, Period

    def mk():
        m = Module()
        a, b_ = Signal(4), Signal(4)
        m.d.comb += b_.eq(a + 1)
        sim = Simulator(m)

        async def tb(ctx):
            await ctx.delay(Period(ns=2))
            ctx.set(a, 1)
            await ctx.delay(Period(ns=5))
            ctx.set(a, 2)
            await ctx.delay(Period(ns=20))
        sim.add_testbench(tb)
        return sim

    def count(sim):
        n = 0
        while sim.advance() and n < 100:
            n += 1
        return n
    fresh = count(mk())
    sim = mk()
    sim.run_until(Period(ns=7))
    sim.reset()
    return [fresh, count(sim)]


if __name__ == "__main__":
    if "--worker" in sys.argv:
        worker_main()

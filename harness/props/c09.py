"""C09 — elaboration and simulation are reproducible.

Coq-evaluated cases (gen_cases / run_impl / coq_term) tie Model/Repro.v to the real code:
  dom    Fragment.prepare of a generated design: order of the missing_domain calls and final port names
  names  Design._assign_names per fragment of a generated design (inputs taken from the real Design)
  add    runs of _ir._add_name on one set (exhaustive small scope + random; includes the S3 inputs a, a$2, a)
  ports  Design._assign_port_names on a bare port list
  plan   BuildPlan.add_file / digest (bytes fed to the hasher) / archive (members) / extract (directory listing)
  reset  engine state before/after Simulator.reset() of a partially run simulation

extra() holds the exploration that is not a Coq statement: PYTHONHASHSEED subprocesses, in-process double
conversion, run / reset / rerun traces, Platform.build twice, archive twice, extract into a scratch directory.

Run as a script (`python c09.py --worker`) this file is the subprocess worker: it reads a JSON job from stdin
and prints the SHA-256 of everything order-sensitive it computes.
"""
import collections, hashlib, io, itertools, json, os, random, re, shutil, subprocess, sys, tempfile

ID = "C09"
LEVEL = "proof"
PROPS_FILE = "C09.v"
RUN_MODULE = "RunC09"
TRANSLATOR_UNITS = []
SHARD = 125
RULE = ("dom/names: seeded random designs (module trees of depth<=3, 3-9 signals with names drawn from a pool of 11 so that "
        "names clash with each other, with clk/rst of implicit domains and with submodule names; 2-5 undeclared clock domains "
        "used by sync statements, ClockSignal/ResetSignal reads, memory ports and Instance ports; locally declared domains; "
        "anonymous + named submodules, memories, instances, IO ports; explicit and tuple-named ports); "
        "add: exhaustive runs of _add_name of length<=4 over {a,a$1,a$2,b} on the sets {} and {a}, + random runs of length<=14 "
        "over 9 names incl. a$10..a$12; ports: random port lists (named, unnamed, private-named, duplicates); "
        "plan: random build plans (1-7 files, names from a pool with non-ASCII and directories, str and bytes contents, 4% duplicate "
        "names); reset: random simulations (clocks with phases, sync logic, memories, testbench + background process) stopped "
        "mid-delay / at a deadline / after completion, then reset(). non-trivial = the answer is not an error and (dom) >=2 domains "
        "created, (names) some name got a $n suffix, (add) some name was already in the set, (plan) >=2 files, (reset) time advanced; "
        "distinct by case hash")
MODELLED = ("modelled in coq/Model/Repro.v (not verified code): DomainCollector + _propagate_domains_down + "
            "_create_missing_domains (sorted iteration) + the port list of Fragment.prepare, _add_name (retry loop of cb9d97a on fuel "
            "|set|+1, proved sufficient), "
            "Design._assign_port_names/_assign_names (one fragment; first-use order of signals is an INPUT taken from the real "
            "Design), BuildPlan.add_file/digest/archive/extract, the fields touched by Simulator.reset(). "
            "VALIDATED ONLY (exploration, not a theorem): byte-identical RTLIL / simulation traces / build plans across separate "
            "interpreters with different PYTHONHASHSEED (k seeds), in-process repeat runs, the value traces of run/reset/rerun, "
            "zipfile/hashlib/os plumbing of archive/digest/extract, everything in rtlil.py and _ir.py netlist building that is "
            "not an ordering or naming step (its determinism is explored by the SHA-256 comparison only)")
ASSUMPTIONS = [
    "cross-interpreter reproducibility (different PYTHONHASHSEED) is explored on generated designs and seeds, not proved: "
    "CPython set iteration order is outside the model; the theorems show that the modelled steps do not depend on it",
    "Python sorted() on str = lexicographic order on code points (Repro.lex_leb); str.encode('utf-8') as Repro.utf8 for "
    "non-surrogate code points",
    "the engine's step function reads only the observed fields (hypothesis of C09_reset_rerun_same_trace: everything but "
    "_delta_cycles, used for VCD time stamps only, and the slots' waker lists, whose stale closures switch themselves off); "
    "validated by the run/reset/rerun comparison of value traces and advance() stop times",
    "file names are relative normalised POSIX paths (BuildPlan.add_file rejects absolute ones; not modelled)",
]

QUICK_SEEDS = 6
THOROUGH_SEEDS = 24
FIXED_HASH_SEEDS = [0, 1, 2, 3, 17]


# ------------------------------------------------------------------ literals
def z(n):
    n = int(n)
    return f"({n})" if n < 0 else str(n)


def zl(xs):
    return "[" + "; ".join(z(x) for x in xs) + "]"


def cps(s):
    return [ord(ch) for ch in s]


def qn(s):
    return zl(cps(s))


def qopt(s):
    return "None" if s is None else f"(Some {qn(s)})"


def enc_name(s):
    if isinstance(s, str):
        return [len(s)] + cps(s)
    return [len(s)] + [int(b) for b in s]


def enc_names(l):
    out = [len(l)]
    for s in l:
        out += enc_name(s)
    return out


# ------------------------------------------------------------------ generated designs
DOMS = ["d0", "d1", "alpha", "beta", "gamma", "delta", "sync", "zeta", "a", "clk"]
NAMES = ["a", "b", "c", "x", "clk", "rst", "d0_clk", "alpha_rst", "a_clk", "U", "Alu"]
TYPES = ["Alu", "Core", "a", "U"]
SUBNAMES = ["a", "b", "sub", "m0", "Alu$0", "U$1", "mem", "clk"]


def gen_design(r, sim=False, plain_names=True):
    """JSON description of a design.  sim=True: no instances / IO ports (simulable)."""
    nsig = r.randint(3, 9)
    names = NAMES if plain_names else NAMES + ["a$1", "a$2", "b$3"]
    sigs = []
    for _ in range(nsig):
        w = r.randint(1, 4)
        sigs.append([r.choice(names), w, r.randrange(1 << w)])
    doms = r.sample(DOMS, r.randint(2, 5))
    driven = set()
    budget = [r.randint(2, 7)]

    def free():
        return [i for i in range(nsig) if i not in driven]

    def src_below(dst):
        return r.randrange(dst) if dst > 0 else -1

    def node(depth):
        n = {"n": None, "t": r.choice(TYPES), "doms": [], "st": [], "clk": [], "mem": None, "inst": None, "io": None, "subs": []}
        if not sim and r.random() < 0.15:
            n["doms"] = [r.choice(doms)]
        for _ in range(r.randint(0, 3)):
            f = free()
            if not f:
                break
            dst = r.choice(f)
            driven.add(dst)
            if r.random() < 0.3:
                n["st"].append(["comb", dst, src_below(dst), src_below(dst), r.randrange(3)])
            else:
                n["st"].append([r.choice(doms), dst, r.randrange(nsig), r.randrange(nsig), r.randrange(3)])
        if r.random() < 0.35 and free():
            dst = r.choice(free())
            driven.add(dst)
            n["clk"].append([dst, r.choice(doms), r.randrange(2)])
        if r.random() < 0.3 and free():
            dst = r.choice(free())
            driven.add(dst)
            depth_m = r.randint(2, 4)
            w = r.randint(1, 4)
            n["mem"] = {"n": r.choice([None, "mem", "a"]), "depth": depth_m, "w": w,
                        "init": [r.randrange(1 << w) for _ in range(r.randint(0, depth_m))],
                        "rd": r.choice(doms + ["comb"]), "wd": r.choice(doms + [None]),
                        "ra": src_below(dst), "rdat": dst,
                        "wa": r.randrange(nsig), "wdat": r.randrange(nsig), "wen": r.randrange(nsig)}
        if not sim and r.random() < 0.3 and free():
            dst = r.choice(free())
            driven.add(dst)
            n["inst"] = {"n": r.choice([None, "inst", "b"]), "type": r.choice(["ext", "a", "pll"]),
                         "i": r.randrange(nsig), "o": dst, "clk": r.choice(doms + [None])}
        if not sim and r.random() < 0.2 and free():
            dst = r.choice(free())
            driven.add(dst)
            n["io"] = {"name": r.choice(NAMES + ["pad"]), "sig": dst}
        if depth < 3:
            for _ in range(r.randint(0, 3)):
                if budget[0] <= 0:
                    break
                budget[0] -= 1
                n["subs"].append(node(depth + 1))
            used = {(n["mem"] or {}).get("n"), (n["inst"] or {}).get("n")}
            for s in n["subs"]:
                if r.random() < 0.5:
                    cand = [x for x in SUBNAMES if x not in used and (not plain_names or "$" not in x)]
                    if cand:
                        s["n"] = r.choice(cand)
                        used.add(s["n"])
        return n

    top = node(0)
    # make sure at least two undeclared domains are used somewhere at the top
    f = free()
    for d in doms[:2]:
        if f:
            dst = f.pop()
            driven.add(dst)
            top["st"].append([d, dst, r.randrange(nsig), r.randrange(nsig), r.randrange(3)])
    ports = []
    for i in r.sample(range(nsig), r.randint(1, nsig)):
        ports.append([r.choice([None, None, None, "p%d" % i, sigs[i][0]]), i])
    seen = set()
    for p in ports:                      # explicit names must be unique (Fragment._prepare_ports raises otherwise)
        if p[0] is not None:
            if p[0] in seen:
                p[0] = None
            else:
                seen.add(p[0])
    return {"sigs": sigs, "doms": doms, "top": top, "ports": ports, "free": sorted(free())}


def build_design(D):
    """Fresh real objects for a design description.  Returns (top elaboratable, signals, ports argument, memories)."""
    from amaranth.hdl import (Module, Signal, Const, Mux, ClockDomain, ClockSignal, ResetSignal, Elaboratable,
                              Instance, IOPort, IOBufferInstance)
    from amaranth.lib.memory import Memory
    sigs = [Signal(w, name=nm, init=init) for nm, w, init in D["sigs"]]
    mems = []

    def val(i):
        return Const(1, 1) if i < 0 else sigs[i]

    def mk(n):
        m = Module()
        for d in n["doms"]:
            m.domains += ClockDomain(d)
        for dom, dst, s1, s2, op in n["st"]:
            a, b = val(s1), val(s2)
            e = [a + b, a ^ b, Mux(a[0], b, ~b)][op]
            m.d[dom] += sigs[dst].eq(e)
        for dst, dom, kind in n["clk"]:
            m.d.comb += sigs[dst].eq(ClockSignal(dom) if kind == 0 else ResetSignal(dom))
        if n["mem"]:
            mm = n["mem"]
            mem = Memory(shape=mm["w"], depth=mm["depth"], init=mm["init"])
            mems.append(mem)
            if mm["n"] is None:
                m.submodules += mem
            else:
                m.submodules[mm["n"]] = mem
            rp = mem.read_port(domain=mm["rd"])
            m.d.comb += rp.addr.eq(val(mm["ra"]))
            m.d.comb += sigs[mm["rdat"]].eq(rp.data)
            if mm["wd"] is not None:
                wp = mem.write_port(domain=mm["wd"])
                m.d.comb += [wp.addr.eq(sigs[mm["wa"]]), wp.data.eq(sigs[mm["wdat"]]), wp.en.eq(sigs[mm["wen"]][0])]
        if n["inst"]:
            it = n["inst"]
            kw = {"i_d": sigs[it["i"]], "o_q": sigs[it["o"]]}
            if it["clk"] is not None:
                kw["i_clk"] = ClockSignal(it["clk"])
            inst = Instance(it["type"], **kw)
            if it["n"] is None:
                m.submodules += inst
            else:
                m.submodules[it["n"]] = inst
        if n["io"]:
            s = sigs[n["io"]["sig"]]
            m.submodules += IOBufferInstance(IOPort(len(s), name=n["io"]["name"]), i=s)
        for sub in n["subs"]:
            e = mk(sub)
            if sub["n"] is None:
                m.submodules += e
            else:
                m.submodules[sub["n"]] = e
        cls = type(n["t"], (Elaboratable,), {"elaborate": lambda self, platform: self._m})
        obj = cls()
        obj._m = m
        return obj

    top = mk(D["top"])
    ports = [sigs[i] if nm is None else (nm, sigs[i], None) for nm, i in D["ports"]]
    return top, sigs, ports, mems


def frag_term(n):
    """Gallina `frag` of a design node as DomainCollector sees it (sets: order irrelevant)."""
    used = []
    for dom, *_ in n["st"]:
        used.append(dom)
    for dst, dom, kind in n["clk"]:
        used += ["comb", dom]
    subs = []
    if n["mem"]:
        mm = n["mem"]
        used.append("comb")
        pre = [mm["rd"]] + ([mm["wd"]] if mm["wd"] is not None else [])
        subs.append(f"(Frag {names_lit(pre)} [] [] [])")
    if n["inst"]:
        pre = [n["inst"]["clk"]] if n["inst"]["clk"] is not None else []
        subs.append(f"(Frag {names_lit(pre)} [] [] [])")
    if n["io"]:
        subs.append("(Frag [] [] [] [])")
    subs += [frag_term(s) for s in n["subs"]]
    return f"(Frag [] {names_lit(n['doms'])} {names_lit(used)} [{'; '.join(subs)}])"


def io_order(n):
    """names of the IO ports in the order Design._collect_used_signals meets them: Module puts the named
    submodules first (insertion order), then the anonymous ones"""
    kids = []
    if n["mem"]:
        kids.append((n["mem"]["n"], None))
    if n["inst"]:
        kids.append((n["inst"]["n"], None))
    if n["io"]:
        kids.append((None, n["io"]["name"]))
    for s in n["subs"]:
        kids.append((s["n"], s))
    out = []
    for nm, k in [x for x in kids if x[0] is not None] + [x for x in kids if x[0] is None]:
        if isinstance(k, str):
            out.append(k)
        elif isinstance(k, dict):
            out += io_order(k)
    return out


def names_lit(l):
    return "[" + "; ".join(qn(s) for s in l) + "]"


def rtlil_ports(text):
    """(direction, name) of the ports of module \\top in port-index order"""
    i = text.index("module \\top")
    body = text[i:text.index("\nend\n", i)]
    found = re.findall(r"^\s*wire (?:width \d+ )?(input|output|inout) (\d+)\s+\\(\S+)\s*$", body, flags=re.M)
    return [(d, nm) for d, _, nm in sorted(found, key=lambda t: int(t[1]))]


def ports_consistent(pnames, rports, ionames=()):
    """RTLIL emits the signal inputs in design.ports order, then the signal outputs in design.ports order, then IO ports"""
    if sorted(nm for _, nm in rports) != sorted(pnames):
        return False
    grp = [2 if nm in ionames else ["input", "output", "inout"].index(d) for d, nm in rports]
    if grp != sorted(grp):
        return False
    pos = {nm: i for i, nm in enumerate(pnames)}
    for g in (0, 1, 2):
        idx = [pos[nm] for gg, (_, nm) in zip(grp, rports) if gg == g]
        if idx != sorted(idx):
            return False
    return True


def elaborate_obs(D):
    """(created domains in callback order, design.ports names, rtlil port names, rtlil text)"""
    from amaranth.hdl import ClockDomain
    from amaranth.hdl._ir import Fragment
    from amaranth.back import rtlil
    called = []

    def cb(name):
        called.append(name)
        return ClockDomain(name)
    top, sigs, ports, mems = build_design(D)
    design = Fragment.get(top, None).prepare(ports=ports, missing_domain=cb)
    top2, _, ports2, _ = build_design(D)
    text = rtlil.convert(top2, ports=ports2)
    return called, [nm for nm, _, _ in design.ports], rtlil_ports(text), text, design


ERRS = {"AssertionError": 1, "TypeError": 2}


def err_code(e):
    nm = type(e).__name__
    if nm not in ERRS:
        raise e
    return [-1, ERRS[nm]]


# ------------------------------------------------------------------ naming inputs from a real Design
def naming_io(design):
    """per fragment: inputs of Design._assign_names (ordered as the code iterates them) and its outputs"""
    from amaranth.hdl import IOPort
    ids = {}

    def sid(obj):
        return ids.setdefault(id(obj), len(ids))
    frs = []
    for frag, info in design.fragments.items():
        tports = []
        if frag is design.fragment:
            tports = [[nm, sid(conn), conn.name, isinstance(conn, IOPort)] for nm, conn, _ in design.ports]
        sg = [[sid(s), s.name] for s in info.used_signals]
        ios = [[sid(p), p.name] for p in info.used_io_ports]
        subs = [[nm, sub.name_from_type()] for sub, nm, _ in frag.subfragments]
        out_s = [[sid(s), nm] for s, nm in info.signal_names.items()]
        out_i = [[sid(p), nm] for p, nm in info.io_port_names.items()]
        out_sub = [design.fragments[sub].name[-1] for sub, _, _ in frag.subfragments]
        frs.append({"in": [tports, sg, ios, subs], "out": [out_s, out_i, out_sub]})
    return frs


def enc_amap(m):
    out = [len(m)]
    for k, v in m:
        out += [k] + enc_name(v)
    return out


def conns_lit(l):
    return "[" + "; ".join(f"({z(i)}, {qn(nm)})" for i, nm in l) + "]"


# ------------------------------------------------------------------ build plans
FILE_POOL = ["top.il", "top.ys", "build_top.sh", "a", "b", "ab", "a/b", "a/c.txt", "extra/notes.txt", "Z", "_x",
             "\u00e9.txt", "\u4e2d/\u6587.v", "\U0001f600", "z\u00e9", "a.b", "a-b", "A", "top.il.bak", "\u07ff", "\u0800x", "\uffff"]
SCRIPTS = ["build_top", "b", "\u00e9", ""]


def gen_plan(r):
    n = r.randint(1, 7)
    names = []
    for nm in r.sample(FILE_POOL, n):        # a file name must not be a directory of another one
        if not any(o.startswith(nm + "/") or nm.startswith(o + "/") for o in names):
            names.append(nm)
    n = len(names)
    if r.random() < 0.04 and n >= 2:
        names[-1] = names[0]
    adds = []
    for nm in names:
        ln = r.randint(0, 6)
        if r.random() < 0.5:
            adds.append([nm, "s", "".join(r.choice("ab\n \u00e9\u4e2d\U0001f600{}") for _ in range(ln))])
        else:
            adds.append([nm, "b", [r.randrange(256) for _ in range(ln)]])
    return {"k": "plan", "adds": adds, "script": r.choice(SCRIPTS)}


class _Recorder:
    def __init__(self):
        self.data = b""

    def update(self, b):
        self.data += bytes(b)

    def digest(self):
        return b""


def run_plan(c):
    from amaranth.build import run as brun
    plan = brun.BuildPlan(c["script"])
    try:
        for nm, kind, content in c["adds"]:
            plan.add_file(nm, content if kind == "s" else bytes(content))
    except AssertionError:
        return [-1, 1]
    rec = _Recorder()
    real_hashlib = brun.hashlib

    class _FakeHashlib:
        @staticmethod
        def blake2b(digest_size=64):
            return rec
    brun.hashlib = _FakeHashlib          # observe the bytes the real digest() feeds to the hasher
    try:
        plan.digest()
    finally:
        brun.hashlib = real_hashlib
    import zipfile
    buf = io.BytesIO()
    plan.archive(buf)
    members = []
    with zipfile.ZipFile(io.BytesIO(buf.getvalue())) as zf:
        for info in zf.infolist():
            members.append((info.filename, zf.read(info)))
    listing = extract_listing(plan)
    out = [1] + enc_name(rec.data) + [len(members)]
    for nm, b in members:
        out += enc_name(nm) + enc_name(b)
    out += [len(listing)]
    for nm, b in listing:
        out += enc_name(nm) + enc_name(b)
    return out


def scratch_dir():
    base = os.environ.get("TMPDIR") or tempfile.gettempdir()
    d = tempfile.mkdtemp(prefix="verif_c09_", dir=base)
    real = os.path.realpath(d)
    assert not real.startswith("/repo") and not real.startswith("/verif"), real
    return d


def extract_listing(plan):
    """plan.extract into a scratch directory: sorted [(relative posix path, bytes)], directory removed afterwards"""
    d = scratch_dir()
    try:
        plan.extract(d)
        out = []
        for dp, _, fs in os.walk(d):
            for f in fs:
                p = os.path.join(dp, f)
                rel = os.path.relpath(p, d).replace(os.sep, "/")
                out.append((rel, open(p, "rb").read()))
        return sorted(out)
    finally:
        shutil.rmtree(d, ignore_errors=True)


def plan_term(c):
    adds = []
    for nm, kind, content in c["adds"]:
        cont = f"CStr {qn(content)}" if kind == "s" else f"CBytes {zl(content)}"
        adds.append(f"({qn(nm)}, {cont})")
    return f"k_plan [{'; '.join(adds)}] {qn(c['script'])}"


# ------------------------------------------------------------------ simulations (reset)
def used_domains(D):
    out = []

    def walk(n):
        for dom, *_ in n["st"]:
            out.append(dom)
        for _, dom, _ in n["clk"]:
            out.append(dom)
        if n["mem"]:
            out.extend([n["mem"]["rd"], n["mem"]["wd"]])
        if n["inst"]:
            out.append(n["inst"]["clk"])
        for s in n["subs"]:
            walk(s)
    walk(D["top"])
    return sorted({d for d in out if d not in (None, "comb")})


def gen_sim_design(r):
    while True:
        D = gen_design(r, sim=True)
        if used_domains(D):
            return D


def gen_stim(r, D):
    doms = used_domains(D)
    clocks = [[d, r.choice([2, 3, 4, 10]), r.choice([None, None, 0, 1, 3])] for d in doms]
    steps = []
    for _ in range(r.randint(2, 8)):
        k = r.random()
        if k < 0.4:
            steps.append(["delay", r.choice([1, 2, 3, 5, 7])])
        elif k < 0.6:
            steps.append(["tick", r.choice(doms)])
        elif k < 0.85 and D["free"]:
            i = r.choice(D["free"])
            steps.append(["set", i, r.randrange(1 << D["sigs"][i][1])])
        else:
            steps.append(["get"])
    steps.append(["get"])
    bg = None
    if r.random() < 0.6 and D["free"]:
        bg = [r.choice(D["free"]), r.choice([1, 3, 4]), r.random() < 0.5]
    total = sum(s[1] for s in steps if s[0] == "delay")
    prefix, acc = [], 0
    for s in steps:                      # instants at which a delay of the testbench expires (exact when no tick precedes)
        if s[0] == "delay":
            acc += s[1]
            prefix.append(acc)
    if prefix and r.random() < 0.5:
        stop = r.choice(prefix)
    elif bg and r.random() < 0.4:
        stop = bg[1] * r.randint(1, 6)
    else:
        stop = r.choice([1, 2, 3, max(1, total), max(1, total // 2), total + 20, 50])
    return {"clocks": clocks, "steps": steps, "bg": bg, "stop": stop}


def make_sim(D, S, trace):
    from amaranth.sim import Simulator, Period
    top, sigs, ports, mems = build_design(D)
    sim = Simulator(top)
    for d, per, ph in S["clocks"]:
        if ph is None:
            sim.add_clock(Period(ns=per), domain=d)
        else:
            sim.add_clock(Period(ns=per), phase=Period(ns=ph), domain=d)
    bg = S["bg"]
    bg_sig = bg[0] if bg else None

    async def tb(ctx):
        for st in S["steps"]:
            if st[0] == "delay":
                await ctx.delay(Period(ns=st[1]))
            elif st[0] == "tick":
                await ctx.tick(st[1])
            elif st[0] == "set":
                if st[1] != bg_sig:
                    ctx.set(sigs[st[1]], st[2])
            else:
                row = [ctx.get(s) for s in sigs]
                for mem in mems:
                    row += [ctx.get(mem.data[i]) for i in range(mem.depth)]
                trace.append(row)
    sim.add_testbench(tb)
    if bg:
        async def proc(ctx):
            v = 0
            while True:
                await ctx.delay(Period(ns=bg[1]))
                v ^= 1
                ctx.set(sigs[bg[0]], v)
        if bg[2]:
            sim.add_process(proc)
        else:
            sim.add_testbench(proc, background=True)
    return sim, sigs, mems


def _proc_static(p):
    nm = type(p).__name__
    if nm == "PyRTLProcess":
        return (0, int(p.is_comb))
    if nm == "PyClockProcess":
        return (1, int(p.phase), int(p.period))
    return (2, int(p.background))


def _enc_proc(p):
    import inspect
    nm = type(p).__name__
    if nm == "PyRTLProcess":
        return [0, int(p.is_comb), int(p.runnable), int(p.critical)]
    if nm == "PyClockProcess":
        return [1, int(p.phase), int(p.period), int(p.runnable), int(p.critical), int(p.initial)]
    if p.coroutine is None:
        pc = 2
    else:
        pc = 0 if inspect.getcoroutinestate(p.coroutine) == "CORO_CREATED" else 1
    return [2, int(p.background), int(p.runnable), int(p.critical), int(p.first_await),
            -1 if p.waits_on is None else 1, pc]


def snapshot(sim):
    eng = sim._engine
    st = eng._state
    slots = []
    for s in st.slots:
        if type(s).__name__ == "_PySignalState":
            slots.append([0, int(s.signal.init), int(s.curr), int(s.next), len(s.wakers)])
        else:
            init = [int(v) for v in s.memory._init._raw]
            data = [int(v) for v in s.data]
            wq = sorted((int(a), int(v)) for a, v in s.write_queue.items())
            slots.append([1, init, data, [list(t) for t in wq], len(s.wakers)])
    pending = sorted(i for i, s in enumerate(st.slots) if any(s is p for p in st.pending))
    procs = sorted((_enc_proc(p) for p in eng._processes), key=lambda e: (_static_of(e), e))
    tbs = [_enc_proc(p) for p in eng._testbenches]
    return {"slots": slots, "pending": pending, "now": int(st.timeline.now),
            "wakers": sorted(int(v) for v in st.timeline.wakers.values()),
            "procs": procs, "tbs": tbs, "delta": int(eng._delta_cycles), "active": len(eng._active_triggers),
            "running": int(bool(sim._running))}


def _static_of(e):
    if e[0] == 0:
        return (0, e[1])
    if e[0] == 1:
        return (1, e[1], e[2])
    return (2, e[1])


def enc_snapshot(s):
    out = [len(s["slots"])]
    for sl in s["slots"]:
        if sl[0] == 0:
            out += sl
        else:
            out += [1] + [len(sl[1])] + sl[1] + [len(sl[2])] + sl[2] + [len(sl[3])] + [x for t in sl[3] for x in t] + [sl[4]]
    out += [len(s["pending"])] + s["pending"] + [s["now"]] + [len(s["wakers"])] + s["wakers"]
    out += [len(s["procs"])] + [x for p in s["procs"] for x in p]
    out += [len(s["tbs"])] + [x for p in s["tbs"] for x in p]
    out += [s["delta"], s["active"], s["running"]]
    return out


def b(v):
    return "true" if v else "false"


def proc_lit(e):
    if e[0] == 0:
        return f"PRtl {b(e[1])} {b(e[2])} {b(e[3])}"
    if e[0] == 1:
        return f"PClock {z(e[1])} {z(e[2])} {b(e[3])} {b(e[4])} {b(e[5])}"
    return f"PAsync {b(e[1])} {b(e[2])} {b(e[3])} {b(e[4])} {z(e[5])} {z(e[6])}"


def engine_lit(s):
    slots = []
    for sl in s["slots"]:
        if sl[0] == 0:
            slots.append(f"SSig (mkSig {z(sl[1])} {z(sl[2])} {z(sl[3])} {z(sl[4])})")
        else:
            wq = "[" + "; ".join(f"({z(a)}, {z(v)})" for a, v in sl[3]) + "]"
            slots.append(f"SMem (mkMem {zl(sl[1])} {zl(sl[2])} {wq} {z(sl[4])})")
    wk = "[" + "; ".join(f"({i}, {z(d)})" for i, d in enumerate(s["wakers"])) + "]"
    return (f"(mkEng [{'; '.join(slots)}] {zl(s['pending'])} {z(s['now'])} {wk} "
            f"[{'; '.join(proc_lit(p) for p in s['procs'])}] [{'; '.join(proc_lit(p) for p in s['tbs'])}] "
            f"{z(s['delta'])} {zl(range(s['active']))} {b(s['running'])})")


def run_partial(D, S):
    from amaranth.sim import Period
    trace = []
    sim, sigs, mems = make_sim(D, S, trace)
    sim.run_until(Period(ns=S["stop"]))
    return sim, trace


# ------------------------------------------------------------------ cases
def classify(c):
    k = c["k"]
    if k == "dom":
        return f"dom:{len(c['design']['doms'])}doms"
    if k == "add":
        return "add:" + c.get("g", "rand")
    if k == "plan":
        return f"plan:{min(len(c['adds']), 4)}+files" if len(c["adds"]) >= 4 else f"plan:{len(c['adds'])}files"
    if k == "reset":
        return "reset:active" if c["pre"]["active"] else ("reset:done" if not any(p[3] for p in c["pre"]["tbs"]) else "reset:mid")
    return k


def nontrivial(c, obs):
    if not obs or obs[0] != 1:
        return False
    k = c["k"]
    if k == "dom":
        return obs[1] >= 2
    if k == "names":
        return any("$" in nm for fr in c["frs"] for m in fr["out"][:2] for _, nm in m) or \
            any("$" in nm for fr in c["frs"] for nm in fr["out"][2])
    if k == "add":
        seen = set(c["init"])
        for nm in c["ns"]:
            if nm in seen:
                return True
            seen.add(nm)
        return False
    if k == "ports":
        return len(c["ports"]) >= 2
    if k == "plan":
        return len(c["adds"]) >= 2
    if k == "reset":
        return c["pre"]["now"] > 0
    return True


_CACHE = {}


def gen_cases(tier, seed):
    key = (tier, seed)
    if key in _CACHE:
        return _CACHE[key]
    r = random.Random(seed)
    thorough = tier == "thorough"
    cases = []
    # --- _add_name: exhaustive small scope, then random
    pool = ["a", "a$1", "a$2", "b"]
    for init in ([], ["a"]):
        for n in range(1, 5):
            for ns in itertools.product(pool, repeat=n):
                cases.append({"k": "add", "g": "exh", "init": init, "ns": list(ns)})
    pool2 = ["a", "b", "a$1", "a$3", "a$10", "a$11", "a$12", "b$2", "", "a$1$2", "a$01"]
    for _ in range(300 if not thorough else 4000):
        init = r.sample(pool2, r.randint(0, 3))
        cases.append({"k": "add", "g": "rand", "init": init, "ns": [r.choice(pool2) for _ in range(r.randint(1, 14))]})
    # --- _assign_port_names
    for _ in range(250 if not thorough else 3000):
        ports = []
        for _ in range(r.randint(1, 7)):
            cn = r.choice(["a", "a", "b", "clk", "a$1", "a$2", ""] if r.random() < 0.9 else [""])
            ports.append([r.choice([None, None, "a", "b", "p", "a$1", "a$2"]), cn])
        seen = set()
        for p in ports:
            if p[0] is not None and p[0] in seen:
                p[0] = None
            seen.add(p[0])
        cases.append({"k": "ports", "ports": ports})
    # --- designs: created domains / ports, naming
    for i in range(220 if not thorough else 2500):
        D = gen_design(r, sim=False, plain_names=True)
        cases.append({"k": "dom", "design": D})
        if i % 2 == 0:
            try:
                design = elaborate_obs(D)[4]
                cases.append({"k": "names", "design": D, "frs": naming_io(design)})
            except Exception as e:      # the dom case reports it
                pass
    # --- build plans
    for _ in range(300 if not thorough else 3000):
        cases.append(gen_plan(r))
    # --- reset
    for _ in range(120 if not thorough else 1200):
        D = gen_sim_design(r)
        S = gen_stim(r, D)
        try:
            sim, _ = run_partial(D, S)
            cases.append({"k": "reset", "design": D, "stim": S, "pre": snapshot(sim)})
        except Exception as e:
            cases.append({"k": "reset", "design": D, "stim": S, "pre": None, "err": type(e).__name__})
    _CACHE[key] = cases
    return cases


def run_impl(c):
    k = c["k"]
    if k == "add":
        from amaranth.hdl._ir import _add_name
        s = set(c["init"])
        out = []
        try:
            for nm in c["ns"]:
                out.append(_add_name(s, nm))
        except AssertionError:
            return [-1, 1]
        return [1] + enc_names(out) + [len(s)]
    if k == "ports":
        from amaranth.hdl import Signal
        from amaranth.hdl._ir import Design
        d = Design.__new__(Design)
        d.ports = [(nm, Signal(1, name=cn), None) for nm, cn in c["ports"]]
        try:
            Design._assign_port_names(d)
        except (AssertionError, TypeError) as e:
            return err_code(e)
        return [1] + enc_names([nm for nm, _, _ in d.ports])
    if k == "dom":
        try:
            called, pnames, rports, text, design = elaborate_obs(c["design"])
        except (AssertionError, TypeError) as e:
            return err_code(e)
        from amaranth.hdl import IOPort
        ionames = {nm for nm, conn, _ in design.ports if isinstance(conn, IOPort)}
        if not ports_consistent(pnames, rports, ionames):
            return [-7] + enc_names([nm for _, nm in rports])     # RTLIL port order is not that of design.ports
        return [1] + enc_names(called) + enc_names(pnames)
    if k == "names":
        design = elaborate_obs(c["design"])[4]
        frs = naming_io(design)
        if [f["in"] for f in frs] != [f["in"] for f in c["frs"]]:
            return [0]                               # the ordered inputs are not reproducible
        out = []
        for f in frs:
            out += [1] + enc_amap(f["out"][0]) + enc_amap(f["out"][1]) + enc_names(f["out"][2])
        return out
    if k == "plan":
        return run_plan(c)
    if k == "reset":
        if c["pre"] is None:
            return [-5]
        sim, _ = run_partial(c["design"], c["stim"])
        same = int(snapshot(sim) == c["pre"])
        sim.reset()
        return [same] + enc_snapshot(snapshot(sim))
    return recheck(c)            # replay of a violation reported by extra()


def coq_term(c):
    k = c["k"]
    if k == "add":
        return f"k_addnames {names_lit(c['init'])} {names_lit(c['ns'])}"
    if k == "ports":
        return "k_portnames [" + "; ".join(f"({qopt(nm)}, {qn(cn)})" for nm, cn in c["ports"]) + "]"
    if k == "dom":
        D = c["design"]
        up = "; ".join(f"({qopt(nm)}, {qn(D['sigs'][i][0])})" for nm, i in D["ports"])
        return f"k_dom {frag_term(D['top'])} [{up}] {names_lit(io_order(D['top']))}"
    if k == "names":
        parts = []
        for f in c["frs"]:
            tports, sg, ios, subs = f["in"]
            tp = "[" + "; ".join(f"({qn(nm)}, {z(i)}, {qn(cn)}, {b(io_)})" for nm, i, cn, io_ in tports) + "]"
            sb = "[" + "; ".join(f"({qopt(nm)}, {qn(t)})" for nm, t in subs) + "]"
            parts.append(f"k_names {tp} {conns_lit(sg)} {conns_lit(ios)} {sb}")
        return "(" + " ++ ".join(parts) + ")"
    if k == "plan":
        return plan_term(c)
    if k == "reset":
        if c["pre"] is None:
            return "[-5]"
        return f"k_reset {engine_lit(c['pre'])}"
    raise ValueError(k)


def explain(c):
    return {"add": "[1, names returned by the _add_name calls, size of the set] | [-1,1] AssertionError (impossible since cb9d97a; model: out of fuel)",
            "ports": "[1, final port names] | [-1,1] AssertionError (impossible since cb9d97a) | [-1,2] TypeError",
            "dom": "[1, domains in the order missing_domain was called, design.ports names (= RTLIL port order)]",
            "names": "per fragment [1, signal_names, io_port_names, subfragment names]; [0] = ordered inputs not reproducible",
            "plan": "[1, bytes hashed by digest(), archive members, sorted listing after extract()] | [-1,1] duplicate file",
            "reset": "[pre-state reproduced, engine state after reset()]"}.get(c["k"], "")


# ------------------------------------------------------------------ worker (separate interpreter)
def sha(x):
    if isinstance(x, str):
        x = x.encode("utf-8")
    return hashlib.sha256(x).hexdigest()


def platform_job(P):
    """Platform.build(do_build=False) on a fresh dummy platform; returns the plan"""
    from amaranth.hdl import Module, Signal, Elaboratable
    from amaranth.build import Resource, Pins, Clock, Attrs
    from amaranth.lib import io as aio
    from amaranth.vendor import SiliconBluePlatform, LatticePlatform, GowinPlatform
    res = [Resource("clk", 0, Pins("A1", dir="i"), Clock(12e6))]
    for i, (nm, pins, d) in enumerate(P["res"]):
        res.append(Resource(nm, i, Pins(" ".join(pins), dir=d), Attrs(IO_STANDARD="LVCMOS33")))
    common = dict(resources=res, connectors=[], default_clk="clk")
    if P["vendor"] == "ice40":
        plat = type("Ice", (SiliconBluePlatform,), dict(device="iCE40HX8K", package="CT256", **common))(toolchain="IceStorm")
    elif P["vendor"] == "ecp5":
        plat = type("Ecp", (LatticePlatform,), dict(device="LFE5U-25F", package="BG381", speed="6", **common))(toolchain="Trellis")
    else:
        plat = type("Gw", (GowinPlatform,), dict(part="GW1N-LV1QN48C6/I5", family="GW1N-1", osc_frequency=None, **common))(toolchain="Apicula")

    class Top(Elaboratable):
        def elaborate(self, platform):
            m = Module()
            ctr = Signal(8)
            acc = Signal(8)
            m.d.sync += ctr.eq(ctr + acc)
            ins = []
            for i, (nm, pins, d) in enumerate(P["res"]):
                port = platform.request(nm, i, dir="-")
                m.submodules[f"buf{i}"] = buf = aio.Buffer(d, port)
                if d == "o":
                    m.d.comb += buf.o.eq(ctr[:len(pins)])
                else:
                    ins.append(buf.i)
            if ins:
                from amaranth.hdl import Cat
                m.d.comb += acc.eq(Cat(*ins))
            for fn, content in P["files"]:
                platform.add_file(fn, content)
            return m
    return plat.build(Top(), do_build=False)


def plan_fingerprint(plan):
    files = {}
    for fn, content in plan.files.items():
        files[fn] = sha(content if isinstance(content, (str, bytes)) else bytes(content))
    buf = io.BytesIO()
    plan.archive(buf)
    return {"order": list(plan.files), "files": files, "digest": plan.digest().hex(), "archive": sha(buf.getvalue())}


def sim_trace(D, S):
    from amaranth.sim import Period
    trace = []
    sim, sigs, mems = make_sim(D, S, trace)
    sim.run_until(Period(ns=S["stop"] + 40))
    return trace


def worker_main():
    job = json.load(sys.stdin)
    out = {"hashseed": os.environ.get("PYTHONHASHSEED"), "designs": [], "sims": [], "plans": []}
    from amaranth.back import rtlil
    for D in job["designs"]:
        try:
            called, pnames, rports, text, _ = elaborate_obs(D)
            top, _, ports, _ = build_design(D)
            nosrc = rtlil.convert(top, ports=ports, emit_src=False)
            out["designs"].append({"rtlil": sha(text), "nosrc": sha(nosrc), "created": called, "ports": rports})
        except Exception as e:
            out["designs"].append({"error": type(e).__name__})
    for D, S in job["sims"]:
        try:
            out["sims"].append(sha(json.dumps(sim_trace(D, S))))
        except Exception as e:
            out["sims"].append("error:" + type(e).__name__)
    for P in job["plans"]:
        try:
            out["plans"].append(plan_fingerprint(platform_job(P)))
        except Exception as e:
            out["plans"].append({"error": type(e).__name__ + ": " + str(e)[:200]})
    json.dump(out, sys.stdout)


# ------------------------------------------------------------------ extra: the explored (non-Coq) clauses
def gen_platform_job(r):
    pins = ["B1", "B2", "C1", "C2", "D1", "D2", "E1", "E2"]
    r.shuffle(pins)
    res = []
    k = 0
    for nm in r.sample(["led", "btn", "a", "bus", "z"], r.randint(1, 4)):
        n = r.randint(1, 2)
        res.append([nm, pins[k:k + n], r.choice(["i", "o"])])
        k += n
    files = [[fn, "".join(r.choice("ab \n") for _ in range(r.randint(0, 8)))]
             for fn in r.sample(["extra/notes.txt", "z.v", "a.v", "inc/d.vh", "\u00e9.txt"], r.randint(0, 4))]
    return {"vendor": r.choice(["ice40", "ecp5", "gowin"]), "res": res, "files": files}


def run_worker(hashseed, job):
    env = dict(os.environ)
    env["PYTHONHASHSEED"] = str(hashseed)
    env["PYTHONPATH"] = os.environ.get("VERIF_REPO", "/repo")
    env["PYTHONWARNINGS"] = "ignore"
    p = subprocess.run(["/venv/bin/python", os.path.abspath(__file__), "--worker"], input=json.dumps(job),
                       capture_output=True, text=True, env=env, timeout=900)
    if p.returncode != 0:
        raise RuntimeError(f"worker (PYTHONHASHSEED={hashseed}) failed: {p.stderr[-800:]}")
    return json.loads(p.stdout[p.stdout.index("{"):])


def advance_stops(sim, limit_fs, max_steps=400):
    out = []
    while sim._engine.now < limit_fs and len(out) < max_steps:
        sim.advance()
        out.append(int(sim._engine.now))
    return out


KIND_ITEMS = {"rtlil": "designs", "sim-trace": "sims", "build-plan": "plans"}


def check_double_conversion(D):
    """two conversions of freshly built copies of the design in this interpreter: (differs, [sha, sha])"""
    t1 = elaborate_obs(D)[3]
    t2 = elaborate_obs(D)[3]
    return t1 != t2, [sha(t1), sha(t2)]


def check_reset_rerun(D, S):
    """run to S.stop, reset(), rerun; compare with a fresh simulator.
    Returns (which clause failed or None, detail, statistics)"""
    from amaranth.sim import Period
    stats = {}
    limit = S["stop"] + 40
    tr0 = []
    sim0, _, _ = make_sim(D, S, tr0)
    sim0.run_until(Period(ns=limit))
    tr1 = []
    sim1, _, _ = make_sim(D, S, tr1)
    sim1.run_until(Period(ns=S["stop"]))
    stats["active"] = int(len(sim1._engine._active_triggers) > 0)
    sim1.reset()
    bad = []
    for sl in sim1._engine._state.slots:       # all signals and memories back at their initial contents
        if type(sl).__name__ == "_PySignalState":
            if sl.curr != sl.signal.init or sl.next != sl.signal.init:
                bad.append(sl.signal.name)
        elif list(sl.data) != list(sl.memory._init._raw) or sl.write_queue:
            bad.append("memory")
    if bad or sim1._engine.now != 0:
        return "reset-init", {"not_initial": bad, "now": int(sim1._engine.now)}, stats
    del tr1[:]
    stops1 = advance_stops(sim1, limit * 1_000_000)
    simf, _, _ = make_sim(D, S, [])
    stops0 = advance_stops(simf, limit * 1_000_000)
    stats["rows"] = len(tr0)
    if tr1 != tr0:
        return "reset-trace", {"fresh": tr0[:20], "after_reset": tr1[:20]}, stats
    if stops1 != stops0:
        return "reset-stops", {"fresh": stops0[:30], "after_reset": stops1[:30]}, stats
    return None, {}, stats


def check_plan_repeat(P, refp=None):
    """Platform.build(do_build=False) twice on fresh platforms, archive twice, extract: (which differs or None, detail)"""
    p1, p2 = platform_job(P), platform_job(P)
    f1, f2 = plan_fingerprint(p1), plan_fingerprint(p2)
    b1, b2 = io.BytesIO(), io.BytesIO()
    p1.archive(b1)
    p1.archive(b2)
    listing = extract_listing(p1)
    planned = sorted((fn, c.encode("utf-8") if isinstance(c, str) else bytes(c)) for fn, c in p1.files.items())
    which = None
    if f1 != f2 or dict(p1.files) != dict(p2.files) or list(p1.files) != list(p2.files) or (refp is not None and f1 != refp):
        which = "files/digest"
    elif b1.getvalue() != b2.getvalue():
        which = "archive"
    elif listing != planned:
        which = "extract"
    return which, {"first": f1, "second": f2, "other_interpreter": refp,
                   "extracted": [fn for fn, _ in listing], "planned": [fn for fn, _ in planned]}, len(p1.files)


def recheck(c):
    """replay of a violation found by extra(): [0] = the clause holds now, [1] = it still fails"""
    k = c["k"]
    if k.startswith("hashseed:"):
        items = KIND_ITEMS[k.split(":", 1)[1]]
        job = {"designs": [], "sims": [], "plans": []}
        job[items] = [c["input"]]
        a, b_ = (run_worker(s, job)[items][0] for s in c["seeds"])
        return [int(a != b_)]
    if k == "double-conversion":
        return [int(check_double_conversion(c["input"])[0])]
    if k in ("reset-init", "reset-trace", "reset-stops"):
        return [int(check_reset_rerun(*c["input"])[0] is not None)]
    if k.startswith("plan-repeat"):
        return [int(check_plan_repeat(c["input"])[0] is not None)]
    if k == "probe":
        pr = _probe_s5()
        return [int(pr[0] != pr[1])]
    raise ValueError(k)


def _viol(case, explain, detail):
    return {"property": ID, "kind": "input", "case": case, "expected_by_model": [0], "observed": [1],
            "explain": explain + " (replay answer: [0] = reproducible now, [1] = still differs)", "detail": detail}


def extra(tier, seed, findings):
    from concurrent.futures import ThreadPoolExecutor
    thorough = tier == "thorough"
    r = random.Random(seed * 7919 + 11)
    viol, cov = [], {}
    nd, ns, npl = (40, 20, 9) if not thorough else (400, 120, 45)
    designs = [gen_design(r, sim=False) for _ in range(nd)]
    sims = []
    for _ in range(ns):
        D = gen_sim_design(r)
        sims.append([D, gen_stim(r, D)])
    plans = [gen_platform_job(r) for _ in range(npl)]
    job = {"designs": designs, "sims": sims, "plans": plans}
    seeds = list(FIXED_HASH_SEEDS)
    while len(seeds) < len(FIXED_HASH_SEEDS) + (THOROUGH_SEEDS if thorough else QUICK_SEEDS):
        s = r.randrange(1, 2 ** 32 - 1)
        if s not in seeds:
            seeds.append(s)
    # ---- separate interpreters with different string-hash seeds
    with ThreadPoolExecutor(min(16, len(seeds))) as ex:
        results = list(ex.map(lambda s: run_worker(s, job), seeds))
    ref = results[0]
    diffs = 0
    for s, res in zip(seeds[1:], results[1:]):
        for kind, items in KIND_ITEMS.items():
            for i, (a, b_) in enumerate(zip(ref[items], res[items])):
                if a != b_:
                    diffs += 1
                    if diffs <= 3:
                        viol.append(_viol({"k": "hashseed:" + kind, "input": job[items][i], "seeds": [seeds[0], s]},
                                          f"{kind} differs between PYTHONHASHSEED={seeds[0]} and {s}",
                                          {str(seeds[0]): a, str(s): b_}))
    cov["hashseed_runs"] = {
        "seeds": seeds, "designs": nd, "simulations": ns, "platform_plans": npl, "differences": diffs,
        "designs_elaboration_errors": sum(1 for d in ref["designs"] if "error" in d),
        "created_domains_histogram": dict(collections.Counter(len(d.get("created", [])) for d in ref["designs"])),
        "plan_errors": [p_["error"] for p_ in ref["plans"] if "error" in p_][:3],
        "sim_errors": [x for x in ref["sims"] if x.startswith("error")][:3]}
    # ---- in-process: double conversion, equal to the result of the separate interpreter
    n_same = 0
    for D, refd in zip(designs, ref["designs"]):
        if "error" in refd:
            continue
        differs, shas = check_double_conversion(D)
        if differs or shas[0] != refd["rtlil"]:
            viol.append(_viol({"k": "double-conversion", "input": D},
                              "two conversions of the same design in one interpreter (or vs a fresh interpreter) differ",
                              {"in_process": shas, "other_interpreter": refd["rtlil"]}))
        else:
            n_same += 1
    cov["double_conversion_identical"] = n_same
    # ---- run / reset / rerun
    st = collections.Counter()
    for D, S in sims:
        try:
            which, detail, stats = check_reset_rerun(D, S)
        except Exception as e:
            st["sim_errors:" + type(e).__name__] += 1
            continue
        st["reruns"] += 1
        st["active_triggers_at_reset"] += stats.get("active", 0)
        st["trace_rows"] += stats.get("rows", 0)
        if which is not None:
            st[which] += 1
            viol.append(_viol({"k": which, "input": [D, S]},
                              {"reset-init": "signals / memories / time not at their initial contents after reset()",
                               "reset-trace": "testbench observations after reset() differ from those of a fresh simulator",
                               "reset-stops": "after reset() advance() stops at other instants than in a fresh simulator "
                                              "(S5, fixed by 3953703: a trigger left in _active_triggers)"}[which], detail))
    cov["reset_reruns"] = dict(st)
    probe = _probe_s5()
    cov["probe_s5_advance_counts(fresh, after run_until+reset)"] = probe
    if probe[0] != probe[1]:
        viol.append(_viol({"k": "probe", "which": "s5"},
                          "advance() calls until the testbench (delay 2ns, set, delay 5ns, set, delay 20ns) ends: fresh "
                          "simulator vs run_until(7ns) + reset(): Simulator.reset() leaves a trigger active (S5)",
                          {"fresh": probe[0], "after_reset": probe[1]}))
    # ---- Platform.build twice on fresh platforms, archive twice, extract into a scratch dir
    pst = collections.Counter()
    for P, refp in zip(plans, ref["plans"]):
        try:
            which, detail, nfiles = check_plan_repeat(P, refp)
        except Exception as e:
            pst["build_errors:" + type(e).__name__] += 1
            continue
        pst["plans"] += 1
        pst["files"] += nfiles
        pst[P["vendor"]] += 1
        if which is not None:
            viol.append(_viol({"k": "plan-repeat:" + which, "input": P},
                              "Platform.build(do_build=False) twice / other interpreter / archive twice / extract: "
                              + which + " differ", detail))
    cov["platform_plans"] = dict(pst)
    return viol, cov


def _probe_s5():
    from amaranth.hdl import Module, Signal
    from amaranth.sim import Simulator, Period

    def mk():
        m = Module()
        a, b_ = Signal(4), Signal(4)
        m.d.comb += b_.eq(a + 1)
        sim = Simulator(m)

        async def tb(ctx):
            await ctx.delay(Period(ns=2))
            ctx.set(a, 1)
            await ctx.delay(Period(ns=5))
            ctx.set(a, 2)
            await ctx.delay(Period(ns=20))
        sim.add_testbench(tb)
        return sim

    def count(sim):
        n = 0
        while sim.advance() and n < 100:
            n += 1
        return n
    fresh = count(mk())
    sim = mk()
    sim.run_until(Period(ns=7))
    sim.reset()
    return [fresh, count(sim)]


if __name__ == "__main__":
    if "--worker" in sys.argv:
        worker_main()

"""Shared machinery of the /verif checks: environment, translator + Coq build (proof obligations),
execution of the Gallina model on generated cases by `vm_compute`, verdicts, replays, evidence."""
import fcntl, hashlib, json, os, random, re, subprocess, sys, time, traceback
from concurrent.futures import ProcessPoolExecutor

VERIF = os.path.dirname(os.path.dirname(os.path.abspath(__file__)))
REPO = os.environ.get("VERIF_REPO", "/repo")
# VERIF_COQ / VERIF_BUILD: private copies of the Coq tree and the scratch directory for runs against another checkout
# (tools/run_seeded.sh), so that such a run never regenerates coq/Gen or case shards of the real tree
COQ = os.environ.get("VERIF_COQ") or os.path.join(VERIF, "coq")
BUILD = os.environ.get("VERIF_BUILD") or os.path.join(VERIF, "build")
# evidence/ describes /repo itself: a run against another checkout (VERIF_REPO=<tree>, used for the seeded changes)
# writes its evidence and replays under build/ so that it never overwrites the evidence of the real tree
_ALT = os.path.realpath(REPO) != os.path.realpath("/repo")
EVIDENCE = os.path.join(BUILD, "evidence_alt") if _ALT else os.path.join(VERIF, "evidence")
REPLAYS = os.path.join(BUILD, "replays_alt") if _ALT else os.path.join(VERIF, "replays")
PY = "/venv/bin/python"
NCPU = int(os.environ.get("VERIF_JOBS", "16"))
COQ_FLAGS = ["-Q", "Model", "V.Model", "-Q", "Proofs", "V.Proofs", "-Q", "Props", "V.Props",
             "-Q", "Gen", "V.Gen", "-Q", "Harness", "V.Harness"]
ALLOWED_AXIOMS = {
    "functional_extensionality_dep", "classic", "proof_irrelevance", "JMeq_eq", "eq_rect_eq",
}
FORBIDDEN = re.compile(r"\b(Admitted|admit|Axiom|Parameter|Conjecture|Abort)\b|Unset Guard|bypass_check|"
                       r"type-in-type|impredicative-set|Admit Obligations")
TRUSTED_BASE = [
    "Coq 8.16.1 kernel (coqc); vm_compute used to run the model on cases and in stated finite lemmas; no native_compute",
    "axioms: none (every property theorem prints 'Closed under the global context'; checked from the build log on every run)",
    "hand-written Gallina models under coq/Model (modelled, not verified) tied to /repo by the differential correspondence run",
    "translator /verif/translator (Python ast -> Gallina; operator mapping // -> Z.div, % -> Z.modulo, >> -> Z.shiftr, ...)",
    "correspondence harness /verif/harness (generators, builders from JSON cases to real Amaranth objects, printers, parser of coqc output)",
    "no extraction (no Extract Constant / Extract Inductive directive exists)",
]


def setup_env():
    os.environ["PYTHONPATH"] = REPO
    os.environ.setdefault("PYTHONHASHSEED", "0")
    os.environ["PYTHONWARNINGS"] = "ignore"
    if REPO not in sys.path:
        sys.path.insert(0, REPO)
    import warnings
    warnings.simplefilter("ignore")
    os.makedirs(BUILD, exist_ok=True)
    os.makedirs(EVIDENCE, exist_ok=True)
    os.makedirs(REPLAYS, exist_ok=True)


class Lock:
    def __init__(self, name=".lock"):
        self.path = os.path.join(BUILD, name)

    def __enter__(self):
        os.makedirs(BUILD, exist_ok=True)
        self.f = open(self.path, "w")
        fcntl.flock(self.f, fcntl.LOCK_EX)
        return self

    def __exit__(self, *a):
        fcntl.flock(self.f, fcntl.LOCK_UN)
        self.f.close()


# ---------------------------------------------------------------- Coq build / obligations
def scan_forbidden():
    bad = []
    for root, _, files in os.walk(COQ):
        for fn in files:
            if fn.endswith(".v") or fn == "_CoqProject":
                text = open(os.path.join(root, fn)).read()
                text_nc = re.sub(r"\(\*.*?\*\)", "", text, flags=re.S)
                for m in FORBIDDEN.finditer(text_nc):
                    bad.append(f"{os.path.relpath(os.path.join(root, fn), COQ)}: {m.group(0)}")
    return bad


def run_translator(units=None):
    """Regenerate coq/Gen from /repo. Returns {unit: status}."""
    sys.path.insert(0, os.path.join(VERIF, "translator"))
    import importlib
    import units as U
    importlib.reload(U)
    return U.main(os.path.join(COQ, "Gen"), only=units)


def make_targets(targets, timeout=1500):
    """(Re)generate the Makefile and build the given .vo targets. Returns (ok, log)."""
    vfiles = []
    for d in ("Model", "Proofs", "Gen", "Props", "Harness"):
        p = os.path.join(COQ, d)
        if os.path.isdir(p):
            vfiles += sorted(os.path.join(d, f) for f in os.listdir(p) if f.endswith(".v"))
    r = subprocess.run(["coq_makefile", "-f", "_CoqProject", "-o", "Makefile"] + vfiles, cwd=COQ,
                       capture_output=True, text=True)
    if r.returncode != 0:
        return False, r.stdout + r.stderr
    try:
        r = subprocess.run(["timeout", str(timeout), "make", f"-j{NCPU}"] + targets, cwd=COQ,
                           capture_output=True, text=True)
    except Exception as e:
        return False, str(e)
    return r.returncode == 0, r.stdout + r.stderr


def props_obligations(prop_file):
    """Names of the theorems stated in Props/Cxx.v."""
    text = open(os.path.join(COQ, "Props", prop_file)).read()
    text = re.sub(r"\(\*.*?\*\)", "", text, flags=re.S)
    return re.findall(r"^\s*(?:Theorem|Lemma|Example|Corollary)\s+([A-Za-z0-9_']+)", text, flags=re.M)


def check_assumptions(prop_file):
    """Compile-free re-read: runs coqc on the Props file (already built) to capture Print Assumptions."""
    path = os.path.join("Props", prop_file)
    r = subprocess.run(["timeout", "600", "coqc"] + COQ_FLAGS + [path], cwd=COQ, capture_output=True, text=True)
    out = r.stdout + r.stderr
    closed = out.count("Closed under the global context")
    axioms = []
    for m in re.finditer(r"^Axioms:\n((?:.+\n)+)", out, flags=re.M):
        for line in m.group(1).splitlines():
            mm = re.match(r"^(\S+)\s*:", line)
            if mm:
                axioms.append(mm.group(1))
    return r.returncode == 0, closed, axioms, out


def run_coqchk(prop_file, timeout=1800):
    """Independent re-check of Props/Cxx.vo and everything it depends on; returns (ok, axioms summary)."""
    mod = "V.Props." + prop_file[:-2]
    try:
        r = subprocess.run(["timeout", str(timeout), "coqchk", "-silent", "-o"] + COQ_FLAGS + [mod], cwd=COQ,
                           capture_output=True, text=True)
    except Exception as e:
        return False, str(e)
    out = r.stdout + r.stderr
    m = re.search(r"\* Axioms:(.*?)\n\s*\n\* Constants/Inductives relying on type-in-type:(.*?)\n", out, flags=re.S)
    summary = " ".join((m.group(1) + " | type-in-type:" + m.group(2)).split()) if m else out[-300:]
    ok = r.returncode == 0 and m is not None and m.group(1).strip() == "<none>" and m.group(2).strip() == "<none>"
    return ok, summary


# ---------------------------------------------------------------- running the model in Coq
def z(n):
    """Gallina literal for a Python int (Z scope)."""
    n = int(n)
    return f"({n})" if n < 0 else str(n)


def zlist(xs):
    return "[" + "; ".join(z(x) for x in xs) + "]"


def blit(b):
    return "true" if b else "false"


def parse_coq_value(text):
    """Parse the `= value : type` printed by Eval for nested lists/pairs of integers."""
    m = re.search(r"=\s*(.*?)\n\s*:\s", text, flags=re.S)
    if not m:
        raise ValueError("cannot parse coqc output: " + text[:500])
    s = m.group(1)
    s = re.sub(r"%[A-Za-z]+", "", s)
    s = s.replace(";", ",").replace("\n", " ")
    s = s.replace("true", "1").replace("false", "0")
    return eval(s, {"__builtins__": {}}, {})


def _run_shard(args):
    path, timeout = args
    t0 = time.time()
    try:
        r = subprocess.run(["timeout", str(timeout), "coqc"] + COQ_FLAGS + [path], cwd=COQ,
                           capture_output=True, text=True)
    except Exception as e:
        return path, None, str(e), time.time() - t0
    if r.returncode != 0:
        return path, None, (r.stdout + r.stderr)[-3000:], time.time() - t0
    try:
        return path, parse_coq_value(r.stdout), None, time.time() - t0
    except Exception as e:
        return path, None, f"{e}", time.time() - t0


def run_model(prop_id, run_module, terms, observed, shard_size=300, timeout=600):
    """terms[i]: Gallina term of type `list Z` (the model's answer for case i);
    observed[i]: list of ints from the implementation.
    Returns (mismatches {i: model_value}, errors [str])."""
    d = os.path.join(BUILD, "cases", prop_id)
    os.makedirs(d, exist_ok=True)
    for f in os.listdir(d):
        if f.endswith((".v", ".vo", ".glob", ".vok", ".vos", ".aux")):
            try:
                os.remove(os.path.join(d, f))
            except OSError:
                pass
    shards = []
    for k in range(0, len(terms), shard_size):
        name = f"{prop_id}_{k // shard_size}"
        path = os.path.join(d, name + ".v")
        with open(path, "w") as f:
            f.write("From Coq Require Import ZArith List Bool.\nImport ListNotations.\n"
                    f"From V.Harness Require Import Run {run_module}.\nOpen Scope Z_scope.\n"
                    "Definition cases : list (list Z * list Z) := [\n")
            rows = []
            for t, o in zip(terms[k:k + shard_size], observed[k:k + shard_size]):
                rows.append(f"  ({t}, {zlist(o)})")
            f.write(";\n".join(rows))
            f.write("\n].\nEval vm_compute in (mism cases).\n")
        shards.append((path, k))
    mism, errors = {}, []
    with ProcessPoolExecutor(NCPU) as ex:
        for (path, res, err, dt), (_, base) in zip(ex.map(_run_shard, [(p, timeout) for p, _ in shards]), shards):
            if err is not None:
                errors.append(f"{os.path.basename(path)}: {err}")
                continue
            for idx, val in res:
                mism[base + idx] = list(val)
    return mism, errors


# ---------------------------------------------------------------- implementation side
def _impl_worker(args):
    modname, chunk = args
    setup_env()
    import importlib
    mod = importlib.import_module(modname)
    out = []
    for c in chunk:
        try:
            out.append(mod.run_impl(c))
        except Exception as e:   # harness-level failure: reported, never silently dropped
            out.append({"__harness_error__": f"{type(e).__name__}: {e}", "tb": traceback.format_exc()[-1500:]})
    return out


def run_impl_parallel(modname, cases, chunk=200):
    chunks = [cases[i:i + chunk] for i in range(0, len(cases), chunk)]
    out = []
    with ProcessPoolExecutor(NCPU) as ex:
        for res in ex.map(_impl_worker, [(modname, c) for c in chunks]):
            out += res
    return out


# ---------------------------------------------------------------- findings / evidence / replay
def load_known_findings():
    p = os.path.join(VERIF, "known_findings.json")
    if not os.path.exists(p):
        return []
    return json.load(open(p)).get("findings", [])


def case_hash(case):
    return hashlib.sha1(json.dumps(case, sort_keys=True).encode()).hexdigest()[:12]


def write_replay(prop_id, payload):
    os.makedirs(REPLAYS, exist_ok=True)
    path = os.path.join(REPLAYS, f"{prop_id}_{case_hash(payload)}.json")
    with open(path, "w") as f:
        json.dump(payload, f, indent=1, sort_keys=True)
    return path


def write_evidence(prop_id, tier, seed, level, coverage, wall_s, violations, assumptions=None):
    ev = {
        "property_id": prop_id, "tier": tier, "seed": int(seed), "level": level,
        "coverage": coverage, "wall_s": round(wall_s, 2), "violations": int(violations),
        "assumptions": assumptions or [],
    }
    tmp = os.path.join(EVIDENCE, f".{prop_id}.json.tmp")
    with open(tmp, "w") as f:
        json.dump(ev, f, indent=1)
    os.replace(tmp, os.path.join(EVIDENCE, f"{prop_id}.json"))
    return ev


def load_corpus(prop_id):
    d = os.path.join(VERIF, "corpus", prop_id)
    out = []
    if os.path.isdir(d):
        for fn in sorted(os.listdir(d)):
            if fn.endswith(".json"):
                out.append(json.load(open(os.path.join(d, fn))))
    return out

"""Serialise real Amaranth objects (values, statements, elaborated fragments) into the term language of
coq/Model/Ast.v / Stmt.v (JSON terms as in exprgen.py) — used by harnesses that run designs written with
the real API (library components, DSL programs) through the Gallina semantics.

statement terms:  ["as", lhs, rhs] | ["swst", test, [[patterns|None, [stmts]], ...]]
                  | ["print"] | ["prop"]   (side-effect statements are kept as opaque markers)
"""
import exprgen as G
from common import z, zlist, blit

OPS1 = {"~", "-", "b", "r|", "r&", "r^", "u", "s"}


class SigMap:
    """Signal identity -> index; records shape/init/name in first-use order (or pre-seeded order)."""
    def __init__(self, signals=()):
        self.index = {}
        self.signals = []
        for s in signals:
            self.get(s)

    def get(self, sig):
        k = id(sig)
        if k not in self.index:
            self.index[k] = len(self.signals)
            self.signals.append(sig)
        return self.index[k]

    def shapes(self):
        return [[len(s), bool(s.shape().signed)] for s in self.signals]

    def inits(self):
        return [s.init for s in self.signals]


def ser_value(v, sm):
    from amaranth.hdl import _ast as A
    v = A.Value.cast(v)
    t = type(v)
    if t is A.Const:
        return ["c", v.value, len(v), bool(v.shape().signed)]
    if t is A.Signal:
        return ["s", sm.get(v)]
    if t is A.Operator:
        if len(v.operands) == 1:
            return ["o1", v.operator, ser_value(v.operands[0], sm)]
        if len(v.operands) == 2:
            return ["o2", v.operator, ser_value(v.operands[0], sm), ser_value(v.operands[1], sm)]
        raise ValueError(f"operator arity {len(v.operands)}")
    if t is A.Slice:
        return ["sl", ser_value(v.value, sm), v.start, v.stop]
    if t is A.Part:
        return ["pt", ser_value(v.value, sm), ser_value(v.offset, sm), v.width, v.stride]
    if t is A.Concat:
        return ["cat", [ser_value(p, sm) for p in v.parts]]
    if t is A.SwitchValue:
        return ["sw", ser_value(v.test, sm),
                [[None if ps is None else list(ps), ser_value(e, sm)] for ps, e in v.cases]]
    raise ValueError(f"cannot serialise value of type {t.__name__}")


def ser_stmts(stmts, sm):
    from amaranth.hdl import _ast as A
    out = []
    for s in stmts:
        t = type(s)
        if t is A.Assign:
            out.append(["as", ser_value(s.lhs, sm), ser_value(s.rhs, sm)])
        elif t is A.Switch:
            out.append(["swst", ser_value(s.test, sm),
                        [[None if ps is None else list(ps), ser_stmts(body, sm)] for ps, body, _ in s.cases]])
        elif t is A.Print:
            out.append(["print"])
        elif t is A.Property:
            out.append(["prop"])
        else:
            raise ValueError(f"cannot serialise statement of type {t.__name__}")
    return out


def coq_stmts(stmts, shapes):
    return "[" + "; ".join(coq_stmt(s, shapes) for s in stmts if s[0] in ("as", "swst")) + "]"


def coq_stmt(s, shapes):
    if s[0] == "as":
        return f"(SAssign {G.coq_expr(s[1], shapes)} {G.coq_expr(s[2], shapes)})"
    if s[0] == "swst":
        cs = []
        for ps, body in s[2]:
            pp = "None" if ps is None else "(Some [" + "; ".join(G.coq_pattern(p) for p in ps) + "])"
            cs.append(f"({pp}, {coq_stmts(body, shapes)})")
        return f"(SSwitch {G.coq_expr(s[1], shapes)} [" + "; ".join(cs) + "])"
    raise ValueError(s[0])


def fragment_domains(frag):
    """{domain: statement list} of an elaborated Fragment (no subfragments followed)."""
    return {dom: list(stmts) for dom, stmts in frag.statements.items()}

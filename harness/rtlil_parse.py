"""Strict RTLIL reader (pure Python, no dependencies) for the text produced by amaranth.back.rtlil.

Recursive descent over exactly the grammar the emitter uses (a subset of Yosys' RTLIL text format);
anything else raises `RtlilSyntaxError(line, message)`.  `parse(text) -> doc` returns a JSON-able AST:

  doc      = {"autoidx": int | None, "modules": [module]}
  module   = {"name": id, "attributes": [attr], "parameters": [[id, const | None]],
              "wires": [wire], "memories": [memory], "cells": [cell], "processes": [process],
              "connects": [[sigspec, sigspec]],          # [lhs, rhs] of module-level `connect`
              "order": [[kind, index]]}                  # textual order of the items; kind in
                                                         # "wire" "memory" "cell" "process" "connect"
  attr     = [id, const]
  wire     = {"name": id, "width": int, "signed": bool, "attributes": [attr],
              "port": None | [dir, index]}               # dir in "input" "output" "inout"
  memory   = {"name": id, "width": int, "size": int, "attributes": [attr]}
  cell     = {"name": id, "type": id, "attributes": [attr],
              "parameters": [[id, flag, const]],         # flag in "" "signed" "real"
              "connections": [[id, sigspec]]}            # port name -> sigspec, textual order
  process  = {"name": id, "attributes": [attr], "body": [stmt]}
  stmt     = ["assign", sigspec, sigspec]                # [_, lhs, rhs]
           | ["switch", sigspec, [attr], [case]]
  case     = {"patterns": [const], "attributes": [attr], "body": [stmt]}   # patterns == [] : default case
  const    = ["int", n]                                  # plain decimal integer (32 bits in a sigspec)
           | ["bits", "01xz-m..."]                       # W'bits; the string is MSB first, W == len(string)
           | ["str", s]                                  # unescaped text of a "..." literal
  sigspec  = ["const", const]                            # const is "int" or "bits"
           | ["wire", id]                                # whole wire
           | ["slice", id, hi, lo]                       # `id [hi:lo]`; `id [i]` gives hi == lo == i
           | ["cat", [sigspec]]                          # `{ a b c }`, MSB first (a is the most significant part)
  id       = str, including the leading `\\` (public) or `$` (private)

Strictness: identifiers must start with `\\` or `$`; the declared width of a `W'bits` constant must equal the
number of digits (one exception: `0'0`, which is how the emitter prints a zero-width constant, reads as no bits); wire options are limited to `width`, `input|output|inout N`, `signed` (each at most once;
`upto`/`offset` are rejected because the emitter never writes them); `sync` rules in processes are rejected;
every block must be closed by its `end`; no trailing tokens on a line.  `const_value(const, signed)` gives the integer a
parameter / attribute constant denotes (two's complement of its written width when `signed`).  `flatten(sigspec)` gives the list of
chunks LSB first with nested concatenations expanded; widths are left to the consumer.
"""

__all__ = ["parse", "flatten", "const_value", "RtlilSyntaxError"]


class RtlilSyntaxError(Exception):
    def __init__(self, line, msg):
        super().__init__(f"line {line}: {msg}")
        self.line = line
        self.msg = msg


_PUNCT = "[]{}:,"
_BITS = "01xzm-"
_UNESC = {"n": "\n", "t": "\t", "r": "\r", "\\": "\\", '"': '"'}


def _lex_line(s, ln):
    """One text line -> list of tokens (kind, value); kinds: kw id int bits str p."""
    toks = []
    i, n = 0, len(s)
    while i < n:
        c = s[i]
        if c in " \t\r":
            i += 1
        elif c == "#":
            break
        elif c == '"':
            i += 1
            out = []
            while True:
                if i >= n:
                    raise RtlilSyntaxError(ln, "unterminated string")
                c = s[i]
                if c == '"':
                    i += 1
                    break
                if c == "\\":
                    i += 1
                    if i >= n:
                        raise RtlilSyntaxError(ln, "unterminated string")
                    e = s[i]
                    if e in _UNESC:
                        out.append(_UNESC[e])
                        i += 1
                    elif e in "01234567":
                        j = i
                        while j < n and j < i + 3 and s[j] in "01234567":
                            j += 1
                        out.append(chr(int(s[i:j], 8)))
                        i = j
                    else:
                        raise RtlilSyntaxError(ln, f"bad escape \\{e}")
                else:
                    out.append(c)
                    i += 1
            toks.append(("str", "".join(out)))
        elif c in "\\$":
            j = i + 1
            while j < n and s[j] not in " \t\r\n":
                j += 1
            if j == i + 1:
                raise RtlilSyntaxError(ln, "empty identifier")
            toks.append(("id", s[i:j]))
            i = j
        elif c.isdigit() or (c == "-" and i + 1 < n and s[i + 1].isdigit()):
            j = i + 1
            while j < n and s[j].isdigit():
                j += 1
            if j < n and s[j] == "'":
                if c == "-":
                    raise RtlilSyntaxError(ln, "negative constant width")
                w = int(s[i:j])
                k = j + 1
                while k < n and s[k] in _BITS:
                    k += 1
                bits = s[j + 1:k]
                if w == 0 and bits == "0":
                    bits = ""      # the emitter prints a zero-width constant as 0'0 (Yosys truncates it to no bits)
                if len(bits) != w:
                    raise RtlilSyntaxError(ln, f"constant {s[i:k]!r}: {len(bits)} digits for declared width {w}")
                toks.append(("bits", bits))
                i = k
            else:
                toks.append(("int", int(s[i:j])))
                i = j
            if i < n and s[i] not in " \t\r" + _PUNCT:
                raise RtlilSyntaxError(ln, f"junk after number at column {i}")
        elif c in _PUNCT:
            toks.append(("p", c))
            i += 1
        elif c.isalpha() or c == "_":
            j = i
            while j < n and (s[j].isalnum() or s[j] == "_"):
                j += 1
            toks.append(("kw", s[i:j]))
            i = j
        else:
            raise RtlilSyntaxError(ln, f"unexpected character {c!r}")
    return toks


class _Line:
    """Cursor over the tokens of one line."""

    def __init__(self, toks, ln):
        self.t, self.i, self.ln = toks, 0, ln

    def peek(self):
        return self.t[self.i] if self.i < len(self.t) else (None, None)

    def take(self, kind=None, value=None):
        k, v = self.peek()
        if k is None:
            raise RtlilSyntaxError(self.ln, f"unexpected end of line (wanted {kind or 'token'} {value or ''})")
        if (kind is not None and k != kind) or (value is not None and v != value):
            raise RtlilSyntaxError(self.ln, f"expected {kind} {value or ''}, found {k} {v!r}")
        self.i += 1
        return v

    def accept(self, kind, value=None):
        k, v = self.peek()
        if k == kind and (value is None or v == value):
            self.i += 1
            return True
        return False

    def done(self):
        if self.i != len(self.t):
            raise RtlilSyntaxError(self.ln, f"trailing tokens {self.t[self.i:]!r}")

    # ---- pieces shared by several statements
    def const(self, allow_str=True):
        k, v = self.peek()
        if k == "int":
            self.i += 1
            return ["int", v]
        if k == "bits":
            self.i += 1
            return ["bits", v]
        if k == "str" and allow_str:
            self.i += 1
            return ["str", v]
        raise RtlilSyntaxError(self.ln, f"expected a constant, found {k} {v!r}")

    def sigspec(self):
        k, v = self.peek()
        if k in ("int", "bits"):
            if k == "int" and v < 0:
                raise RtlilSyntaxError(self.ln, "negative integer in a sigspec")
            base = ["const", self.const(allow_str=False)]
        elif k == "id":
            self.i += 1
            base = ["wire", v]
        elif k == "p" and v == "{":
            self.i += 1
            parts = []
            while not self.accept("p", "}"):
                parts.append(self.sigspec())
            base = ["cat", parts]
        else:
            raise RtlilSyntaxError(self.ln, f"expected a sigspec, found {k} {v!r}")
        # optional slice; the emitter only ever slices wires
        if self.peek() == ("p", "["):
            if base[0] != "wire":
                raise RtlilSyntaxError(self.ln, "slice of something that is not a wire")
            self.i += 1
            hi = self.take("int")
            lo = hi
            if self.accept("p", ":"):
                lo = self.take("int")
            self.take("p", "]")
            base = ["slice", base[1], hi, lo]
            if self.peek() == ("p", "["):
                raise RtlilSyntaxError(self.ln, "slice of a slice")
        return base


class _Parser:
    def __init__(self, text):
        self.lines = []
        for ln, raw in enumerate(text.split("\n"), 1):
            toks = _lex_line(raw, ln)
            if toks:
                self.lines.append(_Line(toks, ln))
        self.pos = 0

    def cur(self):
        return self.lines[self.pos] if self.pos < len(self.lines) else None

    def head(self):
        l = self.cur()
        if l is None:
            return None
        k, v = l.t[0]
        return v if k == "kw" else None

    def err(self, msg):
        l = self.cur()
        raise RtlilSyntaxError(l.ln if l else -1, msg)

    def attributes(self):
        attrs = []
        while self.head() == "attribute":
            l = self.cur()
            l.take("kw")
            name = l.take("id")
            attrs.append([name, l.const()])
            l.done()
            self.pos += 1
        return attrs

    def document(self):
        doc = {"autoidx": None, "modules": []}
        while self.cur() is not None:
            if self.head() == "autoidx":
                l = self.cur()
                l.take("kw")
                if doc["autoidx"] is not None:
                    self.err("autoidx given twice")
                doc["autoidx"] = l.take("int")
                l.done()
                self.pos += 1
                continue
            attrs = self.attributes()
            if self.head() != "module":
                self.err("expected `module`")
            doc["modules"].append(self.module(attrs))
        return doc

    def module(self, attrs):
        l = self.cur()
        l.take("kw", "module")
        m = {"name": l.take("id"), "attributes": attrs, "parameters": [], "wires": [], "memories": [],
             "cells": [], "processes": [], "connects": [], "order": []}
        l.done()
        self.pos += 1
        while True:
            if self.cur() is None:
                self.err(f"module {m['name']} not closed")
            attrs = self.attributes()
            h = self.head()
            l = self.cur()
            if l is None:
                self.err(f"module {m['name']} not closed")
            if h == "end":
                if attrs:
                    self.err("attributes before `end`")
                l.take("kw")
                l.done()
                self.pos += 1
                return m
            if h == "parameter":
                if attrs:
                    self.err("attributes before module parameter")
                l.take("kw")
                name = l.take("id")
                default = l.const() if l.peek()[0] is not None else None
                l.done()
                self.pos += 1
                m["parameters"].append([name, default])
            elif h == "wire":
                m["order"].append(["wire", len(m["wires"])])
                m["wires"].append(self.wire(attrs))
            elif h == "memory":
                m["order"].append(["memory", len(m["memories"])])
                m["memories"].append(self.memory(attrs))
            elif h == "cell":
                m["order"].append(["cell", len(m["cells"])])
                m["cells"].append(self.cell(attrs))
            elif h == "process":
                m["order"].append(["process", len(m["processes"])])
                m["processes"].append(self.process(attrs))
            elif h == "connect":
                if attrs:
                    self.err("attributes before `connect`")
                l.take("kw")
                lhs = l.sigspec()
                rhs = l.sigspec()
                l.done()
                self.pos += 1
                m["order"].append(["connect", len(m["connects"])])
                m["connects"].append([lhs, rhs])
            else:
                self.err(f"unexpected statement in module: {l.t[0][1]!r}")

    def wire(self, attrs):
        l = self.cur()
        l.take("kw", "wire")
        w = {"name": None, "width": 1, "signed": False, "attributes": attrs, "port": None}
        seen = set()
        while l.peek()[0] == "kw":
            opt = l.take("kw")
            key = "port" if opt in ("input", "output", "inout") else opt
            if key in seen:
                raise RtlilSyntaxError(l.ln, f"wire option {opt} repeated")
            seen.add(key)
            if opt == "width":
                w["width"] = l.take("int")
                if w["width"] < 0:
                    raise RtlilSyntaxError(l.ln, "negative wire width")
            elif opt == "signed":
                w["signed"] = True
            elif key == "port":
                idx = l.take("int")
                if idx < 0:
                    raise RtlilSyntaxError(l.ln, "negative port index")
                w["port"] = [opt, idx]
            else:
                raise RtlilSyntaxError(l.ln, f"unsupported wire option {opt!r}")
        w["name"] = l.take("id")
        l.done()
        self.pos += 1
        return w

    def memory(self, attrs):
        l = self.cur()
        l.take("kw", "memory")
        mem = {"name": None, "width": 1, "size": 0, "attributes": attrs}
        seen = set()
        while l.peek()[0] == "kw":
            opt = l.take("kw")
            if opt in seen or opt not in ("width", "size"):
                raise RtlilSyntaxError(l.ln, f"bad memory option {opt!r}")
            seen.add(opt)
            mem[opt] = l.take("int")
            if mem[opt] < 0:
                raise RtlilSyntaxError(l.ln, "negative memory dimension")
        mem["name"] = l.take("id")
        l.done()
        self.pos += 1
        return mem

    def cell(self, attrs):
        l = self.cur()
        l.take("kw", "cell")
        c = {"type": l.take("id"), "name": l.take("id"), "attributes": attrs, "parameters": [], "connections": []}
        l.done()
        self.pos += 1
        while True:
            l = self.cur()
            h = self.head()
            if l is None:
                self.err(f"cell {c['name']} not closed")
            if h == "end":
                l.take("kw")
                l.done()
                self.pos += 1
                return c
            if h == "parameter":
                if c["connections"]:
                    pass  # RTLIL allows any order; keep textual order per list
                l.take("kw")
                flag = ""
                if l.peek() == ("kw", "signed") or l.peek() == ("kw", "real"):
                    flag = l.take("kw")
                name = l.take("id")
                val = l.const()
                if flag == "real" and val[0] != "str":
                    raise RtlilSyntaxError(l.ln, "real parameter needs a string")
                l.done()
                self.pos += 1
                c["parameters"].append([name, flag, val])
            elif h == "connect":
                l.take("kw")
                name = l.take("id")
                sig = l.sigspec()
                l.done()
                self.pos += 1
                c["connections"].append([name, sig])
            else:
                self.err(f"unexpected statement in cell: {l.t[0][1]!r}")

    def process(self, attrs):
        l = self.cur()
        l.take("kw", "process")
        p = {"name": l.take("id"), "attributes": attrs, "body": None}
        l.done()
        self.pos += 1
        p["body"] = self.case_body()
        l = self.cur()
        if self.head() == "sync":
            self.err("`sync` rules are not part of the emitted grammar")
        if self.head() != "end":
            self.err(f"process {p['name']} not closed")
        l.take("kw")
        l.done()
        self.pos += 1
        return p

    def case_body(self):
        """assign* / switch* in any order, up to (not including) the next `case`, `end` or `sync`."""
        body = []
        while True:
            l = self.cur()
            if l is None:
                self.err("unexpected end of text inside a process")
            save = self.pos
            attrs = self.attributes()
            h = self.head()
            l = self.cur()
            if h == "assign":
                if attrs:
                    self.err("attributes before `assign`")
                l.take("kw")
                lhs = l.sigspec()
                rhs = l.sigspec()
                l.done()
                self.pos += 1
                body.append(["assign", lhs, rhs])
            elif h == "switch":
                l.take("kw")
                sel = l.sigspec()
                l.done()
                self.pos += 1
                cases = []
                while True:
                    cattrs = self.attributes()
                    h2 = self.head()
                    l2 = self.cur()
                    if l2 is None:
                        self.err("switch not closed")
                    if h2 == "end":
                        if cattrs:
                            self.err("attributes before `end`")
                        l2.take("kw")
                        l2.done()
                        self.pos += 1
                        break
                    if h2 != "case":
                        self.err(f"expected `case` or `end` in switch, found {l2.t[0][1]!r}")
                    l2.take("kw")
                    pats = []
                    if l2.peek()[0] is not None:
                        pats.append(l2.const(allow_str=False))
                        while l2.accept("p", ","):
                            pats.append(l2.const(allow_str=False))
                    l2.done()
                    self.pos += 1
                    cases.append({"patterns": pats, "attributes": cattrs, "body": self.case_body()})
                body.append(["switch", sel, attrs, cases])
            else:
                self.pos = save   # attributes (if any) belong to whatever follows (a `case`)
                return body


def parse(text):
    """RTLIL text -> document AST (see module docstring).  Raises RtlilSyntaxError."""
    if not isinstance(text, str):
        raise TypeError("parse() wants str")
    return _Parser(text).document()


def flatten(sig):
    """sigspec -> list of non-`cat` sigspecs, LEAST significant chunk first, nested concatenations expanded."""
    if sig[0] == "cat":
        out = []
        for part in reversed(sig[1]):
            out.extend(flatten(part))
        return out
    return [sig]


def const_value(const, signed=False):
    """integer denoted by a parsed constant: ["int", n] -> n; ["bits", "1011"] (MSB first) -> the unsigned number, or
    the two's-complement number of that many digits when `signed` (the `parameter signed` marker); None for strings
    and for constants containing x/z/-/m digits"""
    if const[0] == "int":
        return const[1]
    if const[0] != "bits":
        return None
    digits = const[1]
    if any(c not in "01" for c in digits):
        return None
    u = int(digits, 2) if digits else 0
    if signed and digits and digits[0] == "1":
        u -= 1 << len(digits)
    return u

"""/verif/check driver.  See DESIGN.md §2.

exit 0: property held on everything explored (KNOWN-FINDING lines allowed)
exit 1: a line `VIOLATION property=<id> replay=<path>` was printed
"""
import argparse, importlib, json, os, sys, time, collections

sys.path.insert(0, os.path.dirname(os.path.abspath(__file__)))
import common as C


def _safe(fn, default, *args):
    """Hooks of a property module are written for well-formed observations; on an unexpected one (a harness-error
    marker, an exception code) they must not take the check down."""
    try:
        return fn(*args)
    except Exception:
        return default


def finding_matches(findings, prop_id, mod, case, obs, model):
    """A mismatch is a known finding only if the property module's predicate for a *listed* finding holds."""
    fn = getattr(mod, "known_finding", None)
    if fn is None:
        return None
    fid = _safe(fn, None, case, obs, model)
    if fid is None:
        return None
    for f in findings:
        if f.get("property") == prop_id and f.get("id") == fid and f.get("status") == "open":
            return f
    return None


def replay(mod, path):
    payload = json.load(open(path))
    if payload.get("kind") == "obligation":
        print(f"replay names a broken obligation, not an input: {payload.get('obligation')}")
        print(f"VIOLATION property={mod.ID} replay={path} no-failing-input-found")
        return 1
    case = payload["case"]
    obs = mod.run_impl(case)
    exp = payload["expected_by_model"]
    print(f"case: {json.dumps(case)}\nexpected (model = spec): {exp}\nobserved now: {obs}")
    if obs != exp:
        print(f"VIOLATION property={mod.ID} replay={path}")
        return 1
    print("implementation now agrees with the expected value")
    return 0


def main():
    ap = argparse.ArgumentParser()
    ap.add_argument("prop")
    ap.add_argument("--tier", default=os.environ.get("VERIF_TIER", "quick"), choices=["quick", "thorough"])
    ap.add_argument("--replay")
    ap.add_argument("--no-proofs", action="store_true", help="debug: skip the Coq proof build")
    args = ap.parse_args()
    C.setup_env()
    seed = int(os.environ.get("VERIF_SEED", "0"))
    pid = args.prop.upper()
    mod = importlib.import_module(f"props.{pid.lower()}")
    if args.replay:
        sys.exit(replay(mod, args.replay))
    if hasattr(mod, "main"):
        sys.exit(mod.main(args.tier, seed))
    try:
        rc = run_check(mod, args.tier, seed, skip_proofs=args.no_proofs)
    except Exception as e:
        # last safety net: a check never dies with a traceback only — the property is then not shown to hold
        import traceback
        tb = traceback.format_exc()
        print(tb[-3000:], file=sys.stderr)
        path = C.write_replay(mod.ID, {"property": mod.ID, "kind": "harness_exception",
                                       "what": f"the check could not be completed: {type(e).__name__}: {e}",
                                       "traceback": tb[-6000:]})
        print(f"VIOLATION property={mod.ID} replay={path} no-failing-input-found")
        rc = 1
    sys.exit(rc)


def run_check(mod, tier, seed, skip_proofs=False):
    t0 = time.time()
    pid = mod.ID
    violations = []       # (replay path, suffix)
    known_lines = []
    notes = []
    broken = []           # broken obligations (translator / proof build)
    findings = C.load_known_findings()

    # 1+2: regenerate Gen/, build harness runner and proofs
    with C.Lock():
        tstat = C.run_translator(getattr(mod, "TRANSLATOR_UNITS", []))
        for u, st in tstat.items():
            if st != "ok":
                broken.append(f"translator unit {u}: {st}")
        bad = C.scan_forbidden()
        if bad:
            broken.append("forbidden tokens in coq/: " + "; ".join(bad))
        ok_run, log_run = C.make_targets([f"Harness/{mod.RUN_MODULE}.vo"])
        if not ok_run:
            print(log_run[-4000:])
            print(f"harness runner Harness/{mod.RUN_MODULE}.v does not build", file=sys.stderr)
            broken.append(f"Harness/{mod.RUN_MODULE}.v does not build (model or generated definitions ill-typed)")
        # optional second runner that evaluates GENERATED definitions (coq/Gen): when the regenerated file no longer
        # compiles the hand-written model must still run, so the case terms fall back to the model-only form
        run_module = mod.RUN_MODULE
        gen_runner = getattr(mod, "RUN_MODULE_GEN", None)
        if gen_runner:
            ok_g, log_g = C.make_targets([f"Harness/{gen_runner}.vo"])
            if ok_g:
                run_module = gen_runner
                os.environ["VERIF_GENRUN"] = "1"
            else:
                os.environ["VERIF_GENRUN"] = "0"
                print(log_g[-2000:])
                broken.append(f"Harness/{gen_runner}.v does not build (generated definitions ill-typed): the correspondence "
                              f"run uses the hand-written model only")
        obligations = C.props_obligations(mod.PROPS_FILE)
        discharged = 0
        closed = 0
        axioms = []
        if not skip_proofs:
            ok_p, log_p = C.make_targets([f"Props/{mod.PROPS_FILE}o"])
            if ok_p:
                ok_a, closed, axioms, out_a = C.check_assumptions(mod.PROPS_FILE)
                bad_ax = [a for a in axioms if a.split(".")[-1] not in C.ALLOWED_AXIOMS]
                if not ok_a or bad_ax:
                    broken.append(f"Props/{mod.PROPS_FILE}: assumptions not allowed: {bad_ax}")
                else:
                    discharged = len(obligations)
                    if tier == "thorough":
                        ok_c, coqchk_summary = C.run_coqchk(mod.PROPS_FILE)
                        notes.append("coqchk -o: " + coqchk_summary)
                        if not ok_c:
                            broken.append(f"coqchk does not accept Props/{mod.PROPS_FILE}o: {coqchk_summary}")
            else:
                import re
                m = re.findall(r'File "\./([^"]+)", line (\d+)', log_p)
                where = f"{m[-1][0]} line {m[-1][1]}" if m else "?"
                err = log_p[-1500:]
                broken.append(f"proof obligation no longer checks: {where}\n{err}")

    # 3: correspondence (when an obligation broke and the quick stream finds nothing, search deeper)
    modname = mod.__name__
    n_corpus = len(C.load_corpus(pid))

    def correspond(search_tier):
        cases = C.load_corpus(pid) + mod.gen_cases(search_tier, seed)
        observed = C.run_impl_parallel(modname, cases)
        herr = [(i, o) for i, o in enumerate(observed) if isinstance(o, dict)]
        if herr:
            i, o = herr[0]
            print(f"HARNESS ERROR on case {json.dumps(cases[i])}: {o['__harness_error__']}\n{o['tb']}", file=sys.stderr)
            for i, _ in herr:
                observed[i] = [-999999]
        mism, errors = ({}, [])
        if ok_run:
            terms = []
            for i, c in enumerate(cases):
                try:
                    terms.append(mod.coq_term(c))
                except Exception as e:      # the term builder may use the implementation (serialised fragments):
                    # an exception there is reported as a disagreement on that case, never as a crash of the check
                    print(f"HARNESS ERROR building the model term of case {json.dumps(c)[:400]}: "
                          f"{type(e).__name__}: {e}", file=sys.stderr)
                    terms.append("[-999998]")
            mism, errors = C.run_model(pid, run_module, terms, observed,
                                       shard_size=getattr(mod, "SHARD", 300))
        return cases, observed, herr, mism, errors

    search_tier = tier
    try:
        cases, observed, herr, mism, errors = correspond(tier)
    except Exception as e:
        # the generator / builders use the implementation (reachable-state exploration, design validation, ...): when it
        # stops behaving as the harness expects, the property is no longer shown to hold — report, never crash
        import traceback
        tb = traceback.format_exc()
        print(tb[-3000:], file=sys.stderr)
        path = C.write_replay(pid, {"property": pid, "kind": "harness_exception",
                                    "what": f"the correspondence run could not be carried out: {type(e).__name__}: {e}",
                                    "traceback": tb[-6000:]})
        print(f"VIOLATION property={pid} replay={path} no-failing-input-found")
        C.write_evidence(pid, tier, seed, mod.LEVEL,
                         {"obligations": len(obligations) + len(tstat), "discharged": 0, "evaluations": 0,
                          "distinct_nontrivial": 0, "rule": mod.RULE, "samples": [f"{type(e).__name__}: {e}"],
                          "checker_cmd": "n/a (correspondence run failed)", "trusted_base": C.TRUSTED_BASE,
                          "broken_obligations": broken + [f"correspondence run raised {type(e).__name__}: {e}"]},
                         time.time() - t0, 1,
                         getattr(mod, "ASSUMPTIONS", []))
        return 1
    if broken and not mism and tier == "quick" and not herr:
        search_tier = "thorough"
        cases, observed, herr, mism, errors = correspond("thorough")
    if herr:
        notes.append(f"{len(herr)} harness errors")
    if errors:
        for e in errors[:3]:
            print("COQ CASE ERROR:", e[:2000], file=sys.stderr)
        broken.append(f"{len(errors)} case shards failed to evaluate: {errors[0][:300]}")

    # 4: verdict
    hist = collections.Counter()
    distinct = set()
    for c, o in zip(cases, observed):
        hist[_safe(mod.classify, "?", c)] += 1
        if _safe(mod.nontrivial, False, c, o):
            distinct.add(C.case_hash(c))
    seen_findings = collections.OrderedDict()
    reported = set()
    for i in sorted(mism):
        case, obs, model = cases[i], observed[i], mism[i]
        f = finding_matches(findings, pid, mod, case, obs, model)
        if f is not None:
            seen_findings.setdefault(f["id"], (f, case))
            continue
        key = _safe(mod.classify, "?", case)
        if key in reported and len(violations) >= 5:
            continue
        reported.add(key)
        shr = getattr(mod, "shrink", None)
        if shr is not None:
            try:
                case, obs, model = shr(case, obs, model)
            except Exception as e:
                notes.append(f"shrink failed: {e}")
        path = C.write_replay(pid, {"property": pid, "kind": "input", "case": case,
                                    "expected_by_model": model, "observed": obs,
                                    "explain": getattr(mod, "explain", lambda c: "")(case)})
        violations.append((path, ""))
    if broken and not violations:
        path = C.write_replay(pid, {"property": pid, "kind": "obligation", "obligation": broken,
                                    "searched_cases": len(cases), "tier": search_tier})
        violations.append((path, " no-failing-input-found"))
    for fid, (f, case) in seen_findings.items():
        known_lines.append(f"KNOWN-FINDING: property={pid} {f['id']}: {f['what']}")
    # extra (non-Coq) clauses a property may add
    extra_cov = {}
    if hasattr(mod, "extra"):
        ex_viol, extra_cov = mod.extra(tier, seed, findings)
        for payload in ex_viol:
            if payload.get("known"):
                known_lines.append(f"KNOWN-FINDING: property={pid} {payload['known']}")
                continue
            path = C.write_replay(pid, payload)
            violations.append((path, ""))

    wall = time.time() - t0
    samples = []
    step = max(1, len(cases) // 5)
    for i in range(0, len(cases), step):
        samples.append({"case": cases[i], "observed": observed[i]})
    coverage = {
        "obligations": len(obligations) + len(tstat),
        "discharged": discharged + sum(1 for s in tstat.values() if s == "ok"),
        "theorems": obligations,
        "translator_units": tstat,
        "closed_under_global_context": closed,
        "axioms_reported": axioms,
        "checker_cmd": f"cd /verif/coq && coq_makefile -f _CoqProject -o Makefile <all .v> && make Props/{mod.PROPS_FILE}o "
                       f"&& coqc Props/{mod.PROPS_FILE} (Print Assumptions scanned)",
        "trusted_base": C.TRUSTED_BASE + getattr(mod, "TRUSTED_EXTRA", []),
        "evaluations": len(cases),
        "distinct_nontrivial": len(distinct),
        "rule": mod.RULE,
        "input_distribution": dict(hist),
        "corpus_cases": n_corpus,
        "samples": samples[:6],
        "model_vs_impl_mismatches": len(mism),
        "known_findings_seen": list(seen_findings),
        "broken_obligations": broken,
        "notes": notes,
        "modelled_not_verified": getattr(mod, "MODELLED", ""),
    }
    coverage.update(extra_cov)
    C.write_evidence(pid, tier, seed, mod.LEVEL, coverage, wall, len(violations),
                     assumptions=getattr(mod, "ASSUMPTIONS", []))
    for line in known_lines:
        print(line)
    print(f"{pid} tier={tier} cases={len(cases)} distinct_nontrivial={len(distinct)} "
          f"obligations={coverage['discharged']}/{coverage['obligations']} mismatches={len(mism)} "
          f"wall={wall:.1f}s")
    if herr and not violations:
        print("harness error (machinery defect, not a verdict about the code)", file=sys.stderr)
        return 2
    for path, suffix in violations:
        print(f"VIOLATION property={pid} replay={path}{suffix}")
    return 1 if violations else 0


if __name__ == "__main__":
    main()

"""Generation of expression terms (JSON) for C01/C05/C02 and their construction with the real API.

Term grammar (mirrors coq/Model/Ast.v):
  ["c", v, w, sg] | ["s", i] | ["o1", op, a] | ["o2", op, a, b] | ["sl", a, lo, hi]
  | ["pt", a, off, w, stride] | ["cat", [parts]] | ["sw", test, [[patterns|None, elem], ...]]
patterns: list of strings over 0 1 -  (normalised), MSB first.
Operands that are not Values (only where the API casts them: one operand of a binary operator, Cat parts, Mux arms,
Array elements, bit_select/word_select offsets):
  ["pi", v] a Python int | ["en", v, [member values], "E"|"I"] a member of a plain enum.Enum / enum.IntEnum class
and ["ca", v] = Const(v) (shape inferred).  Their model is Value.cast: mk_const_auto / mk_enum_const.
Shapes are computed here independently of the implementation (pyshape)."""
import random
from common import z, zlist, blit

OP1 = ["~", "-", "b", "r|", "r&", "r^", "u", "s"]
OP2 = ["+", "-", "*", "//", "%", "&", "|", "^", "<<", ">>", "==", "!=", "<", "<=", ">", ">="]
OP1_COQ = dict(zip(OP1, ["ONot", "ONeg", "OBool", "ORor", "ORand", "ORxor", "OU", "OS"]))
OP2_COQ = dict(zip(OP2, ["OAdd", "OSub", "OMul", "ODiv", "OMod", "OAnd", "OOr", "OXor", "OShl", "OShr",
                         "OEq", "ONe", "OLt", "OLe", "OGt", "OGe"]))


def unify(shapes):
    uw = sw = 0
    hs = False
    for w, s in shapes:
        if s:
            hs = True
            sw = max(sw, w)
        else:
            uw = max(uw, w)
    return (max(sw, uw + 1), True) if hs else (uw, False)


def const_shape(v):
    """shape of Const(v) (mirror of utils.bits_for, used for generation budgets only)"""
    if v > 0:
        return (v.bit_length(), False)
    if v == 0:
        return (1, False)
    return ((-v - 1).bit_length() + 1, True)


def enum_shape(ms):
    w, sg = 0, False
    for m in ms:
        mw, ms_ = const_shape(m)
        if not sg and ms_:
            sg, w = True, max(w + 1, mw)
        elif sg and not ms_:
            w = max(w, mw + 1)
        else:
            w = max(w, mw)
    return (w, sg)


_ENUMS = {}


def enum_member(v, ms, kind):
    """the member with value v of an enum.Enum ("E") / enum.IntEnum ("I") class with the given member values"""
    import enum
    key = (tuple(ms), kind)
    if key not in _ENUMS:
        base = enum.IntEnum if kind == "I" else enum.Enum
        _ENUMS[key] = base("E" + kind, {f"M{i}": m for i, m in enumerate(ms)})
    return _ENUMS[key](v)


def pyshape(t, sigs):
    k = t[0]
    if k.startswith("d_"):
        return pyshape(expand(t, sigs), sigs)
    if k == "c":
        return (t[2], bool(t[3]))
    if k in ("pi", "ca"):
        return const_shape(t[1])
    if k == "en":
        return enum_shape(t[2])
    if k == "s":
        return tuple(sigs[t[1]])
    if k == "o1":
        w, s = pyshape(t[2], sigs)
        return {"~": (w, s), "-": (w + 1, True), "b": (1, False), "r|": (1, False), "r&": (1, False),
                "r^": (1, False), "u": (w, False), "s": (w, True)}[t[1]]
    if k == "o2":
        a, b = pyshape(t[2], sigs), pyshape(t[3], sigs)
        op = t[1]
        if op == "+":
            u = unify([a, b]); return (u[0] + 1, u[1])
        if op == "-":
            u = unify([a, b]); return (u[0] + 1, True)
        if op == "*":
            return (a[0] + b[0], a[1] or b[1])
        if op == "//":
            return (a[0] + int(b[1]), a[1] or b[1])
        if op == "%":
            return b
        if op in ("&", "|", "^"):
            return unify([a, b])
        if op == "<<":
            return (a[0] + 2 ** max(0, b[0]) - 1, a[1])      # (a malformed operand may have a negative width)
        if op == ">>":
            return a
        return (1, False)
    if k == "sl":
        return (t[3] - t[2], False)
    if k == "pt":
        return (t[3], False)
    if k == "cat":
        return (sum(pyshape(p, sigs)[0] for p in t[1]), False)
    if k == "sw":
        return unify([pyshape(e, sigs) for _, e in t[2]])
    raise ValueError(k)


def _binpat(w, i):
    return format(i & ((1 << w) - 1), "b").rjust(w, "0") if w > 0 else ""


def _norm_index(length, i):
    return max(0, i + length) if i < 0 else min(length, i)


def expand(t, sigs):
    """derived operators rewritten into core terms (mirror of hdl/_ast.py, used here only to compute shapes)"""
    k = t[0]
    if k == "d_abs":
        e = t[1]
        w, s = pyshape(e, sigs)
        if not s:
            return e
        return ["sl", ["sw", ["o2", ">=", e, ["c", 0, 1, False]], [[["0"], ["o1", "-", e]], [None, e]]], 0, w]
    if k == "d_shl":
        e, n = t[1], t[2]
        if n < 0:
            return expand(["d_shr", e, -n], sigs)
        c = ["cat", [["c", 0, n, False], e]]
        return ["o1", "s", c] if pyshape(e, sigs)[1] else c
    if k == "d_shr":
        e, n = t[1], t[2]
        if n < 0:
            return expand(["d_shl", e, -n], sigs)
        w, s = pyshape(e, sigs)
        if s:
            n2 = w - 1 if n >= w else n
            return ["o1", "s", ["sl", e, min(w, n2), w]]
        return ["sl", e, min(w, n), w]
    if k == "d_rol":
        e, n = t[1], t[2]
        w = pyshape(e, sigs)[0]
        a = n % w if w else n
        kk = _norm_index(w, -a)
        return ["cat", [["sl", e, kk, w], ["sl", e, 0, kk]]]
    if k == "d_ror":
        e, n = t[1], t[2]
        w = pyshape(e, sigs)[0]
        a = n % w if w else n
        kk = _norm_index(w, a)
        return ["cat", [["sl", e, kk, w], ["sl", e, 0, kk]]]
    if k == "d_rep":
        return ["cat", [t[1]] * max(0, t[2])]
    if k == "d_match":
        return ["c", 0, 1, False]          # shape unsigned(1) in every arm
    if k == "d_idx":
        e, i = t[1], t[2]
        w = pyshape(e, sigs)[0]
        i2 = i + w if i < 0 else i
        return ["sl", e, i2, i2 + 1]
    if k == "d_slice":
        e, a, b = t[1], t[2], t[3]
        w = pyshape(e, sigs)[0]
        a2, b2 = _norm_index(w, a), _norm_index(w, b)
        return ["sl", e, a2, b2]
    if k == "d_key":
        e, key = t[1], t[2]
        w = pyshape(e, sigs)[0]
        start, stop, step = slice(*key).indices(max(0, w))
        if step == 1:
            return ["sl", e, start, stop]
        return ["cat", [["sl", e, i, i + 1] for i in range(start, stop, step)]]
    if k in ("d_bsel", "d_wsel"):
        e, off, w = t[1], t[2], t[3]
        stride = 1 if k == "d_bsel" else w
        if off[0] in ("c", "pi", "ca", "en"):
            if off[0] == "c":
                ow, osg = off[2], off[3]
                v = off[1] & ((1 << ow) - 1)
                if osg and ow > 0 and v >> (ow - 1):
                    v -= 1 << ow
            else:
                v = off[1]
            lo, hi = (v, v + w) if k == "d_bsel" else (v * w, (v + 1) * w)
            if hi <= pyshape(e, sigs)[0]:
                return expand(["d_key", e, [lo, hi, None]], sigs)
        return ["pt", e, off, w, stride]
    if k == "d_mux":
        sel, a, b = t[1], t[2], t[3]
        return ["sw", sel, [[[_binpat(pyshape(sel, sigs)[0], 0)], b], [None, a]]]
    if k == "d_array":
        elems, idx = t[1], t[2]
        w = max(0, pyshape(idx, sigs)[0])
        return ["sw", idx, [[[_binpat(w, i)], x] for i, x in enumerate(elems) if i < (1 << w)]]
    if k == "d_array2":
        rows, i, j = t[1], t[2], t[3]
        if j[0] == "pi":
            return expand(["d_array", [row[j[1]] for row in rows], i], sigs)
        return expand(["d_array", [["d_array", row, j] for row in rows], i], sigs)
    raise ValueError(k)


def coq_pattern(p):
    return "[" + "; ".join({"0": "Some false", "1": "Some true", "-": "None"}[c] for c in p) + "]"


def coq_rawpat(p):
    """a pattern as the user writes it: a str, an int, ["pc", v, w, sg] = Const(v, Shape(w, sg)), ["pe", v, members, kind] =
    an enum member; the value of a constant pattern is computed by the model (const_norm / cast_enum)"""
    ch = {"0": "C0", "1": "C1", "-": "CDash", " ": "CSpace", "\t": "CTab"}
    if isinstance(p, str):
        return "RStr [" + "; ".join(ch.get(c, "COther") for c in p) + "]"
    if isinstance(p, int):
        return f"RInt {z(p)}"
    if p[0] == "pc":
        return f"RInt (const_norm (Sh {z(p[2])} {blit(p[3])}) {z(p[1])})"
    if p[0] == "pe":
        return f"RInt (const_norm (cast_enum {zlist(p[2])}) {z(p[1])})"
    raise ValueError(p)


def build_pat(p):
    if isinstance(p, (str, int)):
        return p
    from amaranth.hdl import Const, Shape
    if p[0] == "pc":
        return Const(p[1], Shape(p[2], bool(p[3])))
    if p[0] == "pe":
        return enum_member(p[1], p[2], p[3])
    raise ValueError(p)


def coq_expr(t, sigs):
    k = t[0]
    if k.startswith("d_"):
        ce = lambda x: coq_expr(x, sigs)
        if k == "d_abs":
            return f"(mk_abs {ce(t[1])})"
        if k == "d_shl":
            return f"(mk_shl {ce(t[1])} {z(t[2])})"
        if k == "d_shr":
            return f"(mk_shr {ce(t[1])} {z(t[2])})"
        if k == "d_rol":
            return f"(mk_rotate_left {ce(t[1])} {z(t[2])})"
        if k == "d_ror":
            return f"(mk_rotate_right {ce(t[1])} {z(t[2])})"
        if k == "d_rep":
            return f"(try1 1 (fun x => mk_replicate_z x {z(t[2])}) {ce(t[1])})"
        if k == "d_match":
            # the patterns as the user wrote them (t[3]); normalisation is the model's job
            raw = [coq_rawpat(p) for p in t[3]]
            return f"(try1 4 (fun x => mk_matches_raw x [" + "; ".join(raw) + f"]) {ce(t[1])})"
        if k == "d_idx":
            return f"(try1 3 (fun x => mk_getitem_int x {z(t[2])}) {ce(t[1])})"
        if k == "d_slice":
            return f"(mk_slice {ce(t[1])} {z(t[2])} {z(t[3])})"
        if k == "d_key":
            o = lambda x: "None" if x is None else f"(Some {z(x)})"
            return f"(try1 2 (fun x => mk_getitem_key x (Key {o(t[2][0])} {o(t[2][1])} {o(t[2][2])})) {ce(t[1])})"
        if k == "d_bsel":
            return f"(try2 3 (fun x o => mk_bit_select x o {z(t[3])}) {ce(t[1])} {ce(t[2])})"
        if k == "d_wsel":
            return f"(try2 3 (fun x o => mk_word_select x o {z(t[3])}) {ce(t[1])} {ce(t[2])})"
        if k == "d_mux":
            return f"(mk_mux {ce(t[1])} {ce(t[2])} {ce(t[3])})"
        if k == "d_array":
            return "(mk_array_raw [" + "; ".join(ce(x) for x in t[1]) + f"] {ce(t[2])})"
        if k == "d_array2":
            rows = "[" + "; ".join("[" + "; ".join(ce(x) for x in row) + "]" for row in t[1]) + "]"
            if t[3][0] == "pi":
                return f"(try1 3 (fun x => mk_array2_int {rows} x {z(t[3][1])}) {ce(t[2])})"
            return f"(mk_array2 {rows} {ce(t[2])} {ce(t[3])})"
        raise ValueError(k)
    if k == "c":
        return f"(EConst {z(t[1])} (Sh {z(t[2])} {blit(t[3])}))"
    if k in ("pi", "ca"):
        return f"(mk_const_auto {z(t[1])})"
    if k == "en":
        return f"(mk_enum_const {zlist(t[2])} {z(t[1])})"
    if k == "s":
        w, s = sigs[t[1]]
        return f"(ESig {t[1]} (Sh {z(w)} {blit(s)}))"
    if k == "o1":
        return f"(EOp1 {OP1_COQ[t[1]]} {coq_expr(t[2], sigs)})"
    if k == "o2":
        return f"(EOp2 {OP2_COQ[t[1]]} {coq_expr(t[2], sigs)} {coq_expr(t[3], sigs)})"
    if k == "sl":
        return f"(ESlice {coq_expr(t[1], sigs)} {z(t[2])} {z(t[3])})"
    if k == "pt":
        return f"(EPart {coq_expr(t[1], sigs)} {coq_expr(t[2], sigs)} {z(t[3])} {z(t[4])})"
    if k == "cat":
        return "(ECat [" + "; ".join(coq_expr(p, sigs) for p in t[1]) + "])"
    if k == "sw":
        cs = []
        for ps, e in t[2]:
            pp = "None" if ps is None else "(Some [" + "; ".join(coq_pattern(p) for p in ps) + "])"
            cs.append(f"({pp}, {coq_expr(e, sigs)})")
        return f"(ESwitch {coq_expr(t[1], sigs)} [" + "; ".join(cs) + "])"
    raise ValueError(k)


def build(t, sigobjs):
    """Construct the real amaranth Value (raises what the API raises)."""
    from amaranth.hdl import Const, Shape, Cat
    from amaranth.hdl._ast import Slice, Part, SwitchValue
    k = t[0]
    if k.startswith("d_"):
        from amaranth.hdl import Mux, Array
        b = lambda x: build(x, sigobjs)
        if k == "d_abs":
            return abs(b(t[1]))
        if k == "d_shl":
            return b(t[1]).shift_left(t[2])
        if k == "d_shr":
            return b(t[1]).shift_right(t[2])
        if k == "d_rol":
            return b(t[1]).rotate_left(t[2])
        if k == "d_ror":
            return b(t[1]).rotate_right(t[2])
        if k == "d_rep":
            return b(t[1]).replicate(t[2])
        if k == "d_match":
            return b(t[1]).matches(*[build_pat(p) for p in t[3]])    # t[3]: the patterns as written by the user
        if k == "d_idx":
            return b(t[1])[t[2]]
        if k == "d_slice":
            return b(t[1])[t[2]:t[3]]
        if k == "d_key":
            return b(t[1])[slice(*t[2])]
        if k == "d_bsel":
            return b(t[1]).bit_select(b(t[2]), t[3])
        if k == "d_wsel":
            return b(t[1]).word_select(b(t[2]), t[3])
        if k == "d_mux":
            return Mux(b(t[1]), b(t[2]), b(t[3]))
        if k == "d_array":
            from amaranth.hdl import Value
            return Value.cast(Array([b(x) for x in t[1]])[b(t[2])])
        if k == "d_array2":
            from amaranth.hdl import Value
            return Value.cast(Array([Array([b(x) for x in row]) for row in t[1]])[b(t[2])][b(t[3])])
        raise ValueError(k)
    if k == "c":
        return Const(t[1], Shape(t[2], bool(t[3])))
    if k == "pi":
        return t[1]                          # a bare Python int: the API casts it
    if k == "ca":
        return Const(t[1])
    if k == "en":
        return enum_member(t[1], t[2], t[3])
    if k == "s":
        return sigobjs[t[1]]
    if k == "o1":
        a = build(t[2], sigobjs)
        op = t[1]
        return {"~": lambda: ~a, "-": lambda: -a, "b": a.bool, "r|": a.any, "r&": a.all, "r^": a.xor,
                "u": a.as_unsigned, "s": a.as_signed}[op]()
    if k == "o2":
        a, b = build(t[2], sigobjs), build(t[3], sigobjs)
        op = t[1]
        import operator as O
        return {"+": O.add, "-": O.sub, "*": O.mul, "//": O.floordiv, "%": O.mod, "&": O.and_, "|": O.or_,
                "^": O.xor, "<<": O.lshift, ">>": O.rshift, "==": O.eq, "!=": O.ne, "<": O.lt, "<=": O.le,
                ">": O.gt, ">=": O.ge}[op](a, b)
    if k == "sl":
        return Slice(build(t[1], sigobjs), t[2], t[3])
    if k == "pt":
        return Part(build(t[1], sigobjs), build(t[2], sigobjs), t[3], t[4])
    if k == "cat":
        return Cat(*[build(p, sigobjs) for p in t[1]])
    if k == "sw":
        test = build(t[1], sigobjs)
        return SwitchValue(test, [(None if ps is None else tuple(ps), build(e, sigobjs)) for ps, e in t[2]])
    raise ValueError(k)


def rand_shape(rng, maxw, allow_zero=True):
    sg = rng.random() < 0.4
    lo = 1 if sg else (0 if allow_zero and rng.random() < 0.15 else 1)
    return [rng.randrange(lo, maxw + 1), sg]


def boundary_values(w, sg):
    if sg:
        return sorted({0, -1, 1 if w > 1 else 0, -(1 << (w - 1)), (1 << (w - 1)) - 1})
    return sorted({0, 1 if w > 0 else 0, (1 << w) - 1, (1 << w) >> 1})


def rand_value(rng, w, sg):
    if rng.random() < 0.45:
        return rng.choice(boundary_values(w, sg))
    if sg:
        return rng.randrange(-(1 << (w - 1)), 1 << (w - 1))
    return rng.randrange(0, 1 << w) if w else 0


class Gen:
    def __init__(self, rng, sigs, maxw=8, maxtotal=40, malformed=False, derived=False, ext=False):
        """ext=True additionally draws (the random stream of ext=False is unchanged): operands that are Python ints /
        enum members / Const(v), shift amounts up to 5 bits, Const and enum patterns in matches(), Arrays with more
        elements than the index addresses, signed Array indices, nested Arrays, int arms of Mux and int offsets"""
        self.rng, self.sigs, self.maxw, self.maxtotal, self.malformed = rng, sigs, maxw, maxtotal, malformed
        self.derived = derived
        self.ext = ext

    def small_int(self):
        r = self.rng
        c = r.random()
        if c < 0.5:
            return r.randrange(-4, 9)
        if c < 0.8:
            k = r.randrange(0, self.maxw + 2)
            return r.choice((1, -1)) * ((1 << k) + r.randrange(-1, 2))
        return r.choice((0, 1, -1, 2, 255, -128))

    def nonvalue(self):
        """an operand the API casts: a Python int or an enum member"""
        r = self.rng
        if r.random() < 0.8:
            return ["pi", self.small_int()]
        ms = sorted({r.randrange(-5, 12) for _ in range(r.randrange(1, 4))})
        return ["en", r.choice(ms), ms, r.choice("EI")]

    def arm(self, d):
        """an arm of a Mux / element of an Array / part of a Cat: a Value, or (ext) something the API casts"""
        if self.ext and self.rng.random() < 0.2:
            return self.nonvalue()
        return self.expr(d)

    def derived_node(self, d):
        r = self.rng
        e = self.expr(d - 1)
        w, sg = pyshape(e, self.sigs)
        w = max(0, w)
        c = r.randrange(15)
        if c == 0:
            return ["d_abs", e]
        if c == 1:
            return ["d_shl", e, r.randrange(-3, 5)]
        if c == 2:
            return ["d_shr", e, r.randrange(-3, w + 3)]
        if c == 12:
            # any Python slice object (None bounds, any non-zero step); a step-1 form with start > stop is an IndexError
            key = [r.choice((None, r.randrange(-w - 2, w + 3))), r.choice((None, r.randrange(-w - 2, w + 3))),
                   r.choice((None, 1, -1, 2, -2, 3, -3, 5))]
            a, b, st = slice(*key).indices(w)
            if st == 1 and a > b and not self.malformed:
                key[0], key[1] = None, None
            return ["d_key", e, key]
        if c in (13, 14):
            # bit_select / word_select with a constant or a variable offset; constant offsets near the fold boundary
            pw = r.randrange(0 if c == 13 else 1, 5)
            if self.ext and r.random() < 0.25:
                lim = (w - pw) if c == 13 else (w // pw - 1)
                off = ["pi", max(0, lim + r.randrange(-1, 2))]       # value.bit_select(3, w)
            elif r.random() < 0.6:
                ow = r.randrange(1, 4)
                lim = (w - pw) if c == 13 else (w // pw - 1)
                v = min((1 << ow) - 1, max(0, lim + r.randrange(-1, 2)))
                off = ["c", v, ow, False]
            else:
                off = self.unsigned_small(d - 1, 3)
            return ["d_bsel" if c == 13 else "d_wsel", e, off, pw]
        if c == 3:
            return ["d_rol", e, r.randrange(-2 * w - 1, 2 * w + 2)]
        if c == 4:
            return ["d_ror", e, r.randrange(-2 * w - 1, 2 * w + 2)]
        if c == 5:
            return ["d_rep", e, r.randrange(0, 4)]
        if c == 6:
            if w > 4:
                e = ["sl", e, 0, 4]
                w, sg = 4, False
            raw, norm = [], []
            for _ in range(r.randrange(0, 3)):
                if self.ext and r.random() < 0.3:
                    # a constant-castable pattern that is not an int: a Const of any shape, or an enum member
                    if r.random() < 0.6:
                        pw_, psg_ = rand_shape(r, max(1, w + 1), allow_zero=False)
                        raw.append(["pc", r.randrange(-(1 << w) - 1, (1 << w) + 2), pw_, psg_])
                    else:
                        ms = sorted({r.randrange(-(1 << max(0, w - 1)) - 1, (1 << w) + 1) for _ in range(r.randrange(1, 4))})
                        raw.append(["pe", r.choice(ms), ms, r.choice("EI")])
                elif r.random() < 0.5:
                    v = r.randrange(-(1 << w) - 1, (1 << w) + 2)
                    raw.append(v)
                    lo, hi = (-(1 << (w - 1)), 1 << (w - 1)) if sg else (0, 1 << w)
                    if w == 0:
                        lo, hi = 0, 1
                    if lo <= v < hi:
                        norm.append(_binpat(w, v))
                else:
                    p = "".join(r.choice("01-") for _ in range(w))
                    q = p if w < 2 or r.random() < 0.7 else p[:1] + r.choice((" ", "\t", "  ")) + p[1:]
                    if self.malformed and r.random() < 0.3:
                        # wrong width / illegal character (SyntaxError): only in the malformed stream, because a rejected
                        # sub-term must not hide under an operator that drops its operand (empty stepped slice, matches()
                        # whose integer patterns are all unrepresentable, replicate(0)); c01.py draws them at top level
                        q = r.choice((q + "0", q[1:], "x" + q[1:], q + "_"))
                    raw.append(q)
                    norm.append(p)
            return ["d_match", e, norm, raw]
        if c == 7:
            if w == 0:
                return ["d_rep", e, 2]
            i = r.randrange(-w, w)
            if self.malformed and r.random() < 0.5:
                i = r.choice((w, -w - 1))
            return ["d_idx", e, i]
        if c == 8:
            a, b = r.randrange(-w - 2, w + 3), r.randrange(-w - 2, w + 3)
            # value[a:b] with normalised a > b raises IndexError; such a sub-term must not hide inside an operator that
            # drops its operand (empty stepped slice, matches() without patterns), so only the malformed stream keeps it
            if _norm_index(w, a) > _norm_index(w, b) and not self.malformed:
                a, b = b, a
                if _norm_index(w, a) > _norm_index(w, b):
                    a, b = 0, w
            return ["d_slice", e, a, b]
        if c == 9:
            a, b = r.randrange(-w - 1, w + 2), r.randrange(-w - 1, w + 2)
            st = r.choice((-3, -2, -1, 2, 3))
            return ["d_key", e, [a, b, st]]          # the slice object as written; slice.indices is the model's job
        if c == 10:
            if self.ext:
                return ["d_mux", self.expr(d - 1), e, self.arm(d - 1)] if r.random() < 0.5 else \
                       ["d_mux", self.expr(d - 1), self.arm(d - 1), e]
            return ["d_mux", self.expr(d - 1), e, self.expr(d - 1)]
        if self.ext:
            return self.array_node(d, e)
        idx = self.unsigned_small(d - 1, 2)
        # every element reachable (ArrayProxy.as_value() drops unreachable ones without checking them)
        n = min(r.randrange(1, 6), 1 << max(0, pyshape(idx, self.sigs)[0]))
        return ["d_array", [e] + [self.expr(d - 1) for _ in range(n - 1)], idx]

    def array_node(self, d, e):
        """Array indexing in full: index of any small shape (signed: only the non-negative values address elements),
        more elements than the index addresses, Python-int elements, Arrays of Arrays indexed twice"""
        r = self.rng
        def index():
            i = self.unsigned_small(d - 1, 2)
            if r.random() < 0.25 and pyshape(i, self.sigs)[0] > 0:
                i = ["o1", "s", i]
            return i
        if r.random() < 0.25:
            rows = [[self.arm(d - 1) for _ in range(r.randrange(1, 4))] for _ in range(r.randrange(1, 4))]
            rows[0][0] = e
            if r.random() < 0.3:
                k = r.randrange(-min(map(len, rows)), min(map(len, rows)))
                return ["d_array2", rows, index(), ["pi", k]]
            return ["d_array2", rows, index(), index()]
        n = r.randrange(1, 7)
        return ["d_array", [e] + [self.arm(d - 1) for _ in range(n - 1)], index()]

    def leaf(self):
        r = self.rng
        if self.ext and r.random() < 0.1:
            return ["ca", self.small_int()]
        if r.random() < 0.7 and self.sigs:
            return ["s", r.randrange(len(self.sigs))]
        w, sg = rand_shape(r, self.maxw)
        v = rand_value(r, w, sg)
        if r.random() < 0.2:
            v += r.choice((-1, 1)) * (1 << w)      # un-normalised constant
        return ["c", v, w, sg]

    def unsigned_small(self, d, maxw):
        """an unsigned expression at most maxw bits wide (shift amounts, offsets)"""
        r = self.rng
        for _ in range(6):
            t = self.expr(d)
            w, s = pyshape(t, self.sigs)
            if not s and w <= maxw:
                return t
            if s and w <= maxw and r.random() < 0.5:
                return ["o1", "u", t]
            if w > 0 and r.random() < 0.7:
                hi = r.randrange(1, min(w, maxw) + 1)
                return ["sl", t, 0, hi]
        return ["c", r.randrange(0, 1 << maxw), maxw, False]

    def expr(self, d):
        r = self.rng
        if d <= 0 or r.random() < 0.12:
            return self.leaf()
        for _ in range(20):
            t = self._node(d)
            if pyshape(t, self.sigs)[0] <= self.maxtotal:
                return t
        return self.leaf()

    def _node(self, d):
        r = self.rng
        if self.derived and r.random() < 0.3:
            return self.derived_node(d)
        c = r.random()
        if c < 0.2:
            op = r.choice(OP1)
            a = self.expr(d - 1)
            if op == "s" and pyshape(a, self.sigs)[0] == 0 and not self.malformed:
                op = "u"
            return ["o1", op, a]
        if c < 0.6:
            op = r.choice(OP2)
            a = self.expr(d - 1)
            if op in ("<<", ">>"):
                b = self.unsigned_small(d - 1, (3 if op == "<<" else 4) if not (self.ext and r.random() < 0.3) else 5)
                if self.malformed and r.random() < 0.3:
                    b = ["o1", "s", ["sl", self.expr(d - 1), 0, 0]] if False else ["c", -1, 2, True]
                if self.ext and r.random() < 0.3:
                    if r.random() < 0.6:
                        b = ["pi", r.choice((0, 1, 2, 3, 7, 16, 17, 31)) if not self.malformed or r.random() < 0.6 else -1]
                    elif pyshape(b, self.sigs)[0] <= 5:
                        a = self.nonvalue()             # 3 << value
            else:
                b = self.expr(d - 1)
                if self.ext and r.random() < 0.3:
                    if r.random() < 0.5:
                        b = self.nonvalue()             # value + 1
                    else:
                        a = self.nonvalue()             # 1 - value (reflected operator)
            return ["o2", op, a, b]
        if c < 0.72:
            a = self.expr(d - 1)
            w = max(0, pyshape(a, self.sigs)[0])
            lo = r.randrange(0, w + 1)
            hi = r.randrange(lo, w + 1)
            if self.malformed and r.random() < 0.4:
                lo, hi = r.choice([(hi + 1, hi), (lo, w + 1), (w + 1, w + 1)])
            return ["sl", a, lo, hi]
        if c < 0.84:
            a = self.expr(d - 1)
            off = self.unsigned_small(d - 1, 3)
            w = r.randrange(0, 6)
            stride = r.choice((1, 1, 2, 3, w if w else 1))
            if self.malformed and r.random() < 0.4:
                ch = r.randrange(3)
                if ch == 0:
                    w = -1
                elif ch == 1:
                    stride = 0
                else:
                    off = ["c", -1, 2, True]
            return ["pt", a, off, w, stride]
        if c < 0.92:
            if self.ext:
                return ["cat", [self.arm(d - 1) for _ in range(r.randrange(0, 4))]]
            return ["cat", [self.expr(d - 1) for _ in range(r.randrange(0, 4))]]
        test = self.unsigned_small(d - 1, 3) if r.random() < 0.7 else self.expr(d - 1)
        tw = max(0, pyshape(test, self.sigs)[0])
        if tw > 4:
            test = ["sl", test, 0, 3]
            tw = 3
        cases = []
        ncases = r.randrange(1, 5)
        for ci in range(ncases):
            q = r.random()
            if q < 0.3 and ci == ncases - 1:
                ps = None        # a default is only ever the last case (Mux, ArrayProxy, DSL)
            elif q < 0.1:
                ps = []
            else:
                ps = []
                for _ in range(r.randrange(1, 3)):
                    ps.append("".join(r.choice("01-" if r.random() < 0.5 else "01") for _ in range(tw)))
                if self.malformed and r.random() < 0.3:
                    ps[0] = ps[0] + "0"
            cases.append([ps, self.expr(d - 1)])
        return ["sw", test, cases]


def stimuli(rng, sigs, n):
    out = []
    for _ in range(n):
        out.append([rand_value(rng, w, sg) for w, sg in sigs])
    return out


def sig_ids(t):
    """all signal indices occurring anywhere in the term"""
    k = t[0]
    if k.startswith("d_"):
        out = []
        for x in t[1:]:
            if isinstance(x, list) and x and isinstance(x[0], str) and (x[0] in ("c", "s", "o1", "o2", "sl", "pt", "cat", "sw", "pi", "ca", "en") or x[0].startswith("d_")):
                out += sig_ids(x)
            elif k == "d_array" and isinstance(x, list) and x and isinstance(x[0], list):
                for y in x:
                    out += sig_ids(y)
            elif k == "d_array2" and isinstance(x, list) and x and isinstance(x[0], list):
                for row in x:
                    for y in row:
                        out += sig_ids(y)
        return out
    if k in ("c", "pi", "ca", "en"):
        return []
    if k == "s":
        return [t[1]]
    if k == "o1":
        return sig_ids(t[2])
    if k == "o2":
        return sig_ids(t[2]) + sig_ids(t[3])
    if k == "sl":
        return sig_ids(t[1])
    if k == "pt":
        return sig_ids(t[1]) + sig_ids(t[2])
    if k == "cat":
        return [i for p in t[1] for i in sig_ids(p)]
    if k == "sw":
        return sig_ids(t[1]) + [i for _, e in t[2] for i in sig_ids(e)]
    raise ValueError(k)

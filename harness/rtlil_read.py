"""Strict reader of exactly the RTLIL subset amaranth/back/rtlil.py emits (C04, layer B).

Text -> Doc (modules, wires, memories, cells, processes, connections) -> Gallina term of type `doc`
(coq/Model/RtlilSem.v).  Anything outside the subset raises RtlilError (fail-closed); cells the Gallina
semantics does not cover ($print, $check, $tribuf, $anyconst..., black-box instances) raise Unsupported.
Pure Python, no dependency on amaranth or on the sibling reader of C07."""
import re


class RtlilError(Exception):
    pass


class Unsupported(RtlilError):
    pass


# ------------------------------------------------------------------ tokens
def tokenize(line):
    toks, i, n = [], 0, len(line)
    while i < n:
        c = line[i]
        if c in " \t":
            i += 1
        elif c == '"':
            j, out = i + 1, []
            while True:
                if j >= n:
                    raise RtlilError(f"unterminated string: {line!r}")
                if line[j] == "\\":
                    if j + 1 >= n:
                        raise RtlilError(f"bad escape: {line!r}")
                    e = line[j + 1]
                    out.append({"n": "\n", "t": "\t", "r": "\r", '"': '"', "\\": "\\"}.get(e))
                    if out[-1] is None:
                        raise RtlilError(f"bad escape \\{e}: {line!r}")
                    j += 2
                elif line[j] == '"':
                    break
                else:
                    out.append(line[j])
                    j += 1
            toks.append(("str", "".join(out)))
            i = j + 1
        else:
            j = i
            while j < n and line[j] not in " \t":
                j += 1
            toks.append(("tok", line[i:j]))
            i = j
    return toks


CONST_RE = re.compile(r"^(\d+)'([01x\-]*)$")
INT_RE = re.compile(r"^-?\d+$")
SEL1_RE = re.compile(r"^\[(\d+)\]$")
SEL2_RE = re.compile(r"^\[(\d+):(\d+)\]$")


class Const:
    """N'bits ; bits MSB first over 0 1 x -"""
    def __init__(self, width, bits):
        if len(bits) != width:
            raise RtlilError(f"constant {width}'{bits}: {len(bits)} digits")
        self.width, self.bits = width, bits

    @property
    def defined(self):
        return all(c in "01" for c in self.bits)

    @property
    def value(self):
        if not self.defined:
            raise RtlilError(f"constant {self.width}'{self.bits} is not fully defined")
        return int(self.bits, 2) if self.bits else 0


def parse_const(tok):
    kind, s = tok
    if kind == "str":
        return s
    m = CONST_RE.match(s)
    if m:
        return Const(int(m.group(1)), m.group(2))
    if INT_RE.match(s):
        return int(s)
    raise RtlilError(f"bad constant {s!r}")


# ------------------------------------------------------------------ document
class Wire:
    def __init__(self, name, width, kind, port_id, signed, attrs):
        self.name, self.width, self.kind, self.port_id, self.signed, self.attrs = name, width, kind, port_id, signed, attrs

    @property
    def init(self):
        v = self.attrs.get("init")
        if v is None:
            return None
        if not isinstance(v, Const) or v.width != self.width:
            raise RtlilError(f"wire {self.name}: init attribute of the wrong width")
        return v.value


class Memory:
    def __init__(self, name, width, size, attrs):
        self.name, self.width, self.size, self.attrs = name, width, size, attrs
        self.rows = None


class Cell:
    def __init__(self, kind, name, attrs):
        self.kind, self.name, self.attrs = kind, name, attrs
        self.params, self.ports = {}, {}
        self.param_signed = {}


class Process:
    def __init__(self, name, attrs):
        self.name, self.attrs, self.body = name, attrs, []


class Module:
    def __init__(self, name, attrs):
        self.name, self.attrs = name, attrs
        self.wires, self.windex = [], {}
        self.mems, self.mindex = [], {}
        self.items = []          # Cell | Process, in text order
        self.connects = []       # (lhs sigspec, rhs sigspec)
        self.cellnames = set()


# sigspec: list of chunks LSB first: ("c", width, value) | ("w", wire_index, lo, width)
def parse_sigspec(toks, pos, mod):
    """parse one sigspec starting at toks[pos]; returns (chunks LSB-first, next pos)"""
    if pos >= len(toks):
        raise RtlilError("missing sigspec")
    kind, s = toks[pos]
    if kind != "tok":
        raise RtlilError("string where a sigspec is expected")
    if s == "{}":          # `switch {}` written by _emit_process_contents
        return [], pos + 1
    if s == "{":
        pos += 1
        parts = []
        while True:
            if pos >= len(toks):
                raise RtlilError("unterminated { }")
            if toks[pos] == ("tok", "}"):
                pos += 1
                break
            ch, pos = parse_sigspec(toks, pos, mod)
            if len(ch) != 1:
                raise RtlilError("nested concatenation")
            parts.append(ch[0])
        return list(reversed(parts)), pos
    m = CONST_RE.match(s)
    if m:
        c = Const(int(m.group(1)), m.group(2))
        return [("c", c.width, c.value)], pos + 1
    if s[0] not in "\\$":
        raise RtlilError(f"bad sigspec token {s!r}")
    if s not in mod.windex:
        raise RtlilError(f"module {mod.name}: unknown wire {s}")
    wi = mod.windex[s]
    w = mod.wires[wi]
    pos += 1
    if pos < len(toks) and toks[pos][0] == "tok":
        m1 = SEL1_RE.match(toks[pos][1])
        m2 = SEL2_RE.match(toks[pos][1])
        if m1:
            b = int(m1.group(1))
            if b >= w.width:
                raise RtlilError(f"{s} [{b}] out of range")
            return [("w", wi, b, 1)], pos + 1
        if m2:
            hi, lo = int(m2.group(1)), int(m2.group(2))
            if not (lo <= hi < w.width):
                raise RtlilError(f"{s} [{hi}:{lo}] out of range")
            return [("w", wi, lo, hi - lo + 1)], pos + 1
    return [("w", wi, 0, w.width)], pos


def spec_width(sp):
    return sum(c[1] if c[0] == "c" else c[3] for c in sp)


def parse(text):
    """-> list of Module, in text order (the emitter writes the top module first)"""
    lines = text.split("\n")
    # first pass: wire / memory declarations of every module (cells may refer to wires declared later)
    mods = []
    cur = None
    attrs = {}
    depth = 0      # nesting inside a module: cell / process / switch
    raw = []       # (module, [token lists]) for the second pass
    for ln, line in enumerate(lines, 1):
        toks = tokenize(line)
        if not toks:
            continue
        if toks[0][0] != "tok":
            raise RtlilError(f"line {ln}: {line!r}")
        kw = toks[0][1]
        try:
            if cur is None:
                if kw == "attribute":
                    _attr(toks, attrs)
                elif kw == "module":
                    if len(toks) != 2 or not toks[1][1].startswith("\\"):
                        raise RtlilError("bad module line")
                    cur = Module(toks[1][1], attrs)
                    attrs = {}
                    depth = 0
                    raw.append((cur, []))
                else:
                    raise RtlilError(f"unexpected {kw!r} outside a module")
                continue
            if depth == 0 and kw == "end":
                if len(toks) != 1:
                    raise RtlilError("junk after end")
                if attrs:
                    raise RtlilError("dangling attributes")
                mods.append(cur)
                cur = None
                continue
            if depth == 0 and kw == "attribute":
                _attr(toks, attrs)
                continue
            if depth == 0 and kw == "wire":
                _wire(toks, cur, attrs)
                attrs = {}
                continue
            if depth == 0 and kw == "memory":
                _memory(toks, cur, attrs)
                attrs = {}
                continue
            if kw in ("cell", "process", "switch"):
                depth += 1
            elif kw == "end":
                depth -= 1
            if kw in ("cell", "process"):
                raw[-1][1].append((ln, toks, attrs))
                attrs = {}
            else:
                raw[-1][1].append((ln, toks, None))
        except RtlilError as e:
            raise type(e)(f"line {ln}: {e}") from None
    if cur is not None:
        raise RtlilError("unterminated module")
    if attrs:
        raise RtlilError("dangling attributes at end of text")
    names = [m.name for m in mods]
    if len(set(names)) != len(names):
        raise RtlilError("duplicate module name")
    for mod, rows in raw:
        try:
            _body(mod, rows)
        except RtlilError as e:
            raise type(e)(f"module {mod.name}: {e}") from None
    if not mods or mods[0].attrs.get("top") != 1:
        raise RtlilError("first module is not marked top")
    return mods


def _attr(toks, attrs):
    if len(toks) != 3 or not toks[1][1].startswith("\\"):
        raise RtlilError("bad attribute line")
    name = toks[1][1][1:]
    if name in attrs:
        raise RtlilError(f"duplicate attribute {name}")
    attrs[name] = parse_const(toks[2])


def _wire(toks, mod, attrs):
    ts = [t[1] for t in toks]
    if any(t[0] != "tok" for t in toks) or len(ts) < 4 or ts[1] != "width" or not ts[2].isdigit():
        raise RtlilError("bad wire line")
    width = int(ts[2])
    rest = ts[3:]
    kind, port_id = "none", None
    if rest[0] in ("input", "output", "inout"):
        if len(rest) < 3 or not rest[1].isdigit():
            raise RtlilError("bad port wire")
        kind, port_id = rest[0], int(rest[1])
        rest = rest[2:]
    signed = False
    if rest[0] == "signed":
        signed = True
        rest = rest[1:]
    if len(rest) != 1 or rest[0][0] not in "\\$":
        raise RtlilError("bad wire name")
    name = rest[0]
    if name in mod.windex:
        raise RtlilError(f"duplicate wire {name}")
    mod.windex[name] = len(mod.wires)
    mod.wires.append(Wire(name, width, kind, port_id, signed, attrs))


def _memory(toks, mod, attrs):
    ts = [t[1] for t in toks]
    if len(ts) != 6 or ts[1] != "width" or ts[3] != "size" or not ts[2].isdigit() or not ts[4].isdigit():
        raise RtlilError("bad memory line")
    name = ts[5]
    if name in mod.mindex:
        raise RtlilError(f"duplicate memory {name}")
    mod.mindex[name] = len(mod.mems)
    mod.mems.append(Memory(name, int(ts[2]), int(ts[4]), attrs))


def _body(mod, rows):
    i = 0
    n = len(rows)

    def parse_stmts(i, stop_kw):
        """statements of a process body / case until a line whose keyword is in stop_kw"""
        out = []
        while i < n:
            ln, toks, _ = rows[i]
            kw = toks[0][1]
            if kw in stop_kw:
                return out, i
            if kw == "assign":
                lhs, p = parse_sigspec(toks, 1, mod)
                rhs, p = parse_sigspec(toks, p, mod)
                if p != len(toks):
                    raise RtlilError(f"line {ln}: junk after assign")
                if any(c[0] == "c" for c in lhs):
                    raise RtlilError(f"line {ln}: constant on the left of assign")
                if spec_width(lhs) != spec_width(rhs):
                    raise RtlilError(f"line {ln}: assign width mismatch")
                out.append(("assign", lhs, rhs))
                i += 1
            elif kw == "switch":
                sel, p = parse_sigspec(toks, 1, mod)
                if p != len(toks):
                    raise RtlilError(f"line {ln}: junk after switch")
                i += 1
                cases = []
                while True:
                    if i >= n:
                        raise RtlilError("unterminated switch")
                    ln2, t2, _ = rows[i]
                    if t2[0][1] == "end":
                        if len(t2) != 1:
                            raise RtlilError(f"line {ln2}: junk after end")
                        i += 1
                        break
                    if t2[0][1] != "case":
                        raise RtlilError(f"line {ln2}: expected case")
                    pats = []
                    ptxt = " ".join(t[1] for t in t2[1:])
                    if ptxt:
                        for ptok in ptxt.split(","):
                            m = CONST_RE.match(ptok.strip())
                            if not m:
                                raise RtlilError(f"line {ln2}: bad pattern {ptok!r}")
                            c = Const(int(m.group(1)), m.group(2))
                            if "x" in c.bits or c.width != spec_width(sel):
                                raise RtlilError(f"line {ln2}: pattern {ptok!r} does not fit the selector")
                            pats.append(c.bits)
                    body, i = parse_stmts(i + 1, ("case", "end"))
                    cases.append((pats, body))
                out.append(("switch", sel, cases, toks[1] == ("tok", "{}")))   # flag: the `switch {}` wrapper
            else:
                raise RtlilError(f"line {ln}: unexpected {kw!r} in a process")
        raise RtlilError("unterminated process")

    while i < n:
        ln, toks, attrs = rows[i]
        kw = toks[0][1]
        if kw == "cell":
            if len(toks) != 3:
                raise RtlilError(f"line {ln}: bad cell line")
            cell = Cell(toks[1][1], toks[2][1], attrs)
            if cell.name in mod.cellnames or cell.name in mod.windex:
                raise RtlilError(f"line {ln}: duplicate name {cell.name}")
            mod.cellnames.add(cell.name)
            i += 1
            while True:
                if i >= n:
                    raise RtlilError("unterminated cell")
                ln2, t2, _ = rows[i]
                k2 = t2[0][1]
                if k2 == "end":
                    i += 1
                    break
                if k2 == "parameter":
                    ts = t2[1:]
                    sg = False
                    if ts and ts[0] == ("tok", "signed"):
                        sg = True
                        ts = ts[1:]
                    elif ts and ts[0] == ("tok", "real"):
                        raise Unsupported("real parameter")
                    if len(ts) != 2 or not ts[0][1].startswith("\\"):
                        raise RtlilError(f"line {ln2}: bad parameter")
                    pname = ts[0][1][1:]
                    if pname in cell.params:
                        raise RtlilError(f"line {ln2}: duplicate parameter")
                    cell.params[pname] = parse_const(ts[1])
                    cell.param_signed[pname] = sg
                elif k2 == "connect":
                    if len(t2) < 3 or not t2[1][1].startswith("\\"):
                        raise RtlilError(f"line {ln2}: bad connect")
                    pname = t2[1][1][1:]
                    sp, p = parse_sigspec(t2, 2, mod)
                    if p != len(t2):
                        raise RtlilError(f"line {ln2}: junk after connect")
                    if pname in cell.ports:
                        raise RtlilError(f"line {ln2}: duplicate port")
                    cell.ports[pname] = sp
                else:
                    raise RtlilError(f"line {ln2}: unexpected {k2!r} in a cell")
                i += 1
            mod.items.append(cell)
        elif kw == "process":
            if len(toks) != 2:
                raise RtlilError(f"line {ln}: bad process line")
            proc = Process(toks[1][1], attrs)
            body, i = parse_stmts(i + 1, ("end",))
            i += 1
            proc.body = body
            mod.items.append(proc)
        elif kw == "connect":
            lhs, p = parse_sigspec(toks, 1, mod)
            rhs, p = parse_sigspec(toks, p, mod)
            if p != len(toks):
                raise RtlilError(f"line {ln}: junk after connect")
            if any(c[0] == "c" for c in lhs):
                raise RtlilError(f"line {ln}: constant on the left of connect")
            if spec_width(lhs) != spec_width(rhs):
                raise RtlilError(f"line {ln}: connect width mismatch")
            mod.connects.append((lhs, rhs))
            i += 1
        else:
            raise RtlilError(f"line {ln}: unexpected {kw!r}")


# ------------------------------------------------------------------ Gallina term
UNARY = {"$not": "KNot", "$neg": "KNeg", "$reduce_and": "KRand", "$reduce_or": "KRor", "$reduce_xor": "KRxor",
         "$reduce_bool": "KRbool"}
BINARY = {"$add": "KAdd", "$sub": "KSub", "$mul": "KMul", "$divfloor": "KDivF", "$modfloor": "KModF",
          "$shl": "KShl", "$shr": "KShr", "$sshr": "KSshr", "$shift": "KShift", "$and": "KAnd", "$or": "KOr",
          "$xor": "KXor", "$eq": "KEq", "$ne": "KNe", "$lt": "KLt", "$le": "KLe", "$gt": "KGt", "$ge": "KGe"}


def z(n):
    return f"({n})" if n < 0 else str(n)


def b(x):
    return "true" if x else "false"


def coq_spec(sp):
    out = []
    for c in sp:
        if c[0] == "c":
            out.append(f"KC {c[1]} {c[2]}")
        else:
            out.append(f"KW {c[1]} {c[2]} {c[3]}")
    return "[" + "; ".join(out) + "]"


def coq_pat(p):
    return "[" + "; ".join({"0": "Some false", "1": "Some true", "-": "None"}[c] for c in p) + "]"


def coq_pstmts(body):
    out = []
    for s in body:
        if s[0] == "assign":
            out.append(f"PAssign {coq_spec(s[1])} {coq_spec(s[2])}")
        else:
            cs = "; ".join("([" + "; ".join(coq_pat(p) for p in pats) + "], " + coq_pstmts(b2) + ")"
                           for pats, b2 in s[2])
            out.append(f"PSwitch {coq_spec(s[1])} [{cs}]")
    return "[" + "; ".join(out) + "]"


def _need(cell, params, ports):
    if set(cell.params) != set(params):
        raise RtlilError(f"cell {cell.kind} {cell.name}: parameters {sorted(cell.params)} (expected {sorted(params)})")
    if set(cell.ports) != set(ports):
        raise RtlilError(f"cell {cell.kind} {cell.name}: ports {sorted(cell.ports)} (expected {sorted(ports)})")


def _pint(cell, name):
    v = cell.params[name]
    if isinstance(v, Const):
        v = v.value
    if not isinstance(v, int):
        raise RtlilError(f"cell {cell.name}: parameter {name} is not an integer")
    return v


def _pbool(cell, name):
    v = _pint(cell, name)
    if v not in (0, 1):
        raise RtlilError(f"cell {cell.name}: parameter {name} = {v} is not 0/1")
    return bool(v)


def coq_items(mod, modindex):
    meminit = {}
    out = []
    for it in mod.items:
        if isinstance(it, Process):
            out.append(f"IProc {coq_pstmts(it.body)}")
            continue
        k = it.kind
        P = it.ports
        if k in UNARY:
            _need(it, ("A_SIGNED", "A_WIDTH", "Y_WIDTH"), ("A", "Y"))
            out.append(f"ICell1 {UNARY[k]} {b(_pbool(it, 'A_SIGNED'))} {_pint(it, 'A_WIDTH')} {_pint(it, 'Y_WIDTH')} "
                       f"{coq_spec(P['A'])} {coq_spec(P['Y'])}")
        elif k in BINARY:
            _need(it, ("A_SIGNED", "B_SIGNED", "A_WIDTH", "B_WIDTH", "Y_WIDTH"), ("A", "B", "Y"))
            out.append(f"ICell2 {BINARY[k]} {b(_pbool(it, 'A_SIGNED'))} {b(_pbool(it, 'B_SIGNED'))} "
                       f"{_pint(it, 'A_WIDTH')} {_pint(it, 'B_WIDTH')} {_pint(it, 'Y_WIDTH')} "
                       f"{coq_spec(P['A'])} {coq_spec(P['B'])} {coq_spec(P['Y'])}")
        elif k == "$mux":
            _need(it, ("WIDTH",), ("A", "B", "S", "Y"))
            out.append(f"IMux {_pint(it, 'WIDTH')} {coq_spec(P['A'])} {coq_spec(P['B'])} {coq_spec(P['S'])} {coq_spec(P['Y'])}")
        elif k == "$dff":
            _need(it, ("WIDTH", "CLK_POLARITY"), ("D", "CLK", "Q"))
            out.append(f"IDff {_pint(it, 'WIDTH')} {b(_pbool(it, 'CLK_POLARITY'))} {coq_spec(P['D'])} "
                       f"{coq_spec(P['CLK'])} {coq_spec(P['Q'])}")
        elif k == "$adff":
            _need(it, ("WIDTH", "CLK_POLARITY", "ARST_POLARITY", "ARST_VALUE"), ("D", "CLK", "ARST", "Q"))
            av = it.params["ARST_VALUE"]
            if not isinstance(av, Const) or av.width != _pint(it, "WIDTH"):
                raise RtlilError(f"cell {it.name}: ARST_VALUE width")
            out.append(f"IAdff {_pint(it, 'WIDTH')} {b(_pbool(it, 'CLK_POLARITY'))} {b(_pbool(it, 'ARST_POLARITY'))} "
                       f"{av.value} {coq_spec(P['D'])} {coq_spec(P['CLK'])} {coq_spec(P['ARST'])} {coq_spec(P['Q'])}")
        elif k == "$meminit_v2":
            _need(it, ("MEMID", "ABITS", "WIDTH", "WORDS", "PRIORITY"), ("ADDR", "DATA", "EN"))
            mid = it.params["MEMID"]
            if mid not in mod.mindex or mid in meminit:
                raise RtlilError(f"cell {it.name}: MEMID {mid!r}")
            mem = mod.mems[mod.mindex[mid]]
            w, words = _pint(it, "WIDTH"), _pint(it, "WORDS")
            if _pint(it, "ABITS") != 0 or P["ADDR"] != [] or w != mem.width or words != mem.size:
                raise RtlilError(f"cell {it.name}: meminit shape")
            data, en = P["DATA"], P["EN"]
            if any(c[0] != "c" for c in data + en) or spec_width(data) != w * words or spec_width(en) != w:
                raise RtlilError(f"cell {it.name}: meminit DATA/EN must be constants of the right width")
            dv = _spec_const(data)
            if _spec_const(en) != (1 << w) - 1:
                raise RtlilError(f"cell {it.name}: meminit EN is not all ones")
            mem.rows = dv          # the whole DATA constant; sliced into rows by the Gallina model (meminit_rows)
            meminit[mid] = True
        elif k == "$memrd_v2":
            _need(it, ("MEMID", "ABITS", "WIDTH", "TRANSPARENCY_MASK", "COLLISION_X_MASK", "ARST_VALUE", "SRST_VALUE",
                       "INIT_VALUE", "CE_OVER_SRST", "CLK_ENABLE", "CLK_POLARITY"),
                  ("ADDR", "DATA", "ARST", "SRST", "EN", "CLK"))
            mid = it.params["MEMID"]
            if mid not in mod.mindex:
                raise RtlilError(f"cell {it.name}: MEMID {mid!r}")
            if P["ARST"] != [("c", 1, 0)] or P["SRST"] != [("c", 1, 0)]:
                raise Unsupported("read port with reset")
            cx = it.params["COLLISION_X_MASK"]
            if (cx.value if isinstance(cx, Const) else cx) != 0:
                raise Unsupported("COLLISION_X_MASK")
            tm = it.params["TRANSPARENCY_MASK"]
            tm = tm.value if isinstance(tm, Const) else tm
            clocked = _pbool(it, "CLK_ENABLE")
            if not clocked and (P["EN"] != [("c", 1, 1)] or tm != 0):
                raise RtlilError(f"cell {it.name}: asynchronous read port with EN/transparency")
            out.append(f"IMemRd {mod.mindex[mid]} {_pint(it, 'ABITS')} {_pint(it, 'WIDTH')} {b(clocked)} "
                       f"{b(_pbool(it, 'CLK_POLARITY'))} {tm} {coq_spec(P['ADDR'])} {coq_spec(P['EN'])} "
                       f"{coq_spec(P['CLK'])} {coq_spec(P['DATA'])}")
        elif k == "$memwr_v2":
            _need(it, ("MEMID", "ABITS", "WIDTH", "CLK_ENABLE", "CLK_POLARITY", "PORTID", "PRIORITY_MASK"),
                  ("ADDR", "DATA", "EN", "CLK"))
            mid = it.params["MEMID"]
            if mid not in mod.mindex:
                raise RtlilError(f"cell {it.name}: MEMID {mid!r}")
            if not _pbool(it, "CLK_ENABLE") or _pint(it, "PRIORITY_MASK") != 0:
                raise Unsupported("unclocked write port / priority mask")
            out.append(f"IMemWr {mod.mindex[mid]} {_pint(it, 'ABITS')} {_pint(it, 'WIDTH')} {b(_pbool(it, 'CLK_POLARITY'))} "
                       f"{_pint(it, 'PORTID')} {coq_spec(P['ADDR'])} {coq_spec(P['DATA'])} {coq_spec(P['EN'])} {coq_spec(P['CLK'])}")
        elif k.startswith("\\"):
            if k not in modindex:
                raise Unsupported(f"instance of unknown module {k}")
            if it.params:
                raise Unsupported("parametrised instance")
            child = modindex[k][1]
            conns = []
            for pname, sp in P.items():
                wn = "\\" + pname
                if wn not in child.windex:
                    raise RtlilError(f"cell {it.name}: module {k} has no port {pname}")
                cw = child.wires[child.windex[wn]]
                if cw.kind not in ("input", "output"):
                    raise RtlilError(f"cell {it.name}: {pname} is not an input/output port of {k}")
                if cw.width != spec_width(sp):
                    raise RtlilError(f"cell {it.name}: port {pname} width")
                conns.append(f"({child.windex[wn]}%nat, {coq_spec(sp)})")
            for cw in child.wires:
                if cw.kind in ("input", "output") and cw.name[1:] not in P:
                    raise RtlilError(f"cell {it.name}: port {cw.name} of {k} left unconnected")
            out.append(f"ISub {modindex[k][0]} [" + "; ".join(conns) + "]")
        else:
            raise Unsupported(f"cell type {k}")
    for lhs, rhs in mod.connects:
        out.append(f"IConn {coq_spec(lhs)} {coq_spec(rhs)}")
    for mem in mod.mems:
        if mem.rows is None:
            raise RtlilError(f"memory {mem.name} has no $meminit_v2")
    return out


def _spec_const(sp):
    v, sh = 0, 0
    for c in sp:
        v |= c[2] << sh
        sh += c[1]
    return v


def coq_doc(mods):
    """Gallina term of type `doc` (list module)"""
    modindex = {m.name: (i, m) for i, m in enumerate(mods)}
    out = []
    for m in mods:
        ids = sorted(w.port_id for w in m.wires if w.port_id is not None)
        if ids != list(range(len(ids))):
            raise RtlilError(f"module {m.name}: port ids {ids}")
        items = coq_items(m, modindex)
        wires = "; ".join(
            "Wire {} {} {}".format(w.width, {"none": "WNone", "input": "WIn", "output": "WOut", "inout": "WInout"}[w.kind],
                                   "None" if w.init is None else f"(Some {w.init})") for w in m.wires)
        mems = "; ".join(f"MemI {mm.width} {mm.size} {mm.rows}" for mm in m.mems)
        out.append(f"Mod [{wires}] [{mems}]\n   [" + ";\n    ".join(items) + "]")
    return "[" + ";\n  ".join(out) + "]"


def resolve_path(mods, path, wire_name):
    """(module-name path ('top','s',...), wire name without the backslash) -> (sub-cell index path, local wire id, width)"""
    modindex = {m.name: (i, m) for i, m in enumerate(mods)}
    cur = mods[0]
    if "\\" + path[0] != cur.name:
        raise RtlilError(f"path root {path[0]} is not the top module")
    idx = []
    for comp in path[1:]:
        k = 0
        found = None
        for it in cur.items:
            if isinstance(it, Cell) and it.kind.startswith("\\"):
                if it.name == "\\" + comp:
                    found = it
                    break
                k += 1
        if found is None:
            raise RtlilError(f"no submodule cell {comp} in {cur.name}")
        idx.append(k)
        cur = modindex[found.kind][1]
    wn = "\\" + wire_name
    if wn not in cur.windex:
        raise RtlilError(f"no wire {wire_name} in {cur.name}")
    wi = cur.windex[wn]
    return idx, wi, cur.wires[wi].width

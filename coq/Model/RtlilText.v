(* RtlilText.v — what translator unit "rtlil" (translator/unit_rtlil.py, generated file Gen/RtlilGen.v) needs
   besides Model/Rtlil.v.  Hand-written, no proofs (see Proofs/GenEqRtlil.v).

   Part 1: the Python values that reach back/rtlil.py `_const` / `_signed`, and the Python string primitives the
           source uses (f-strings of ints, format with a 0{}b spec, `str * int`, `str.translate`), as Gallina functions.
           This is the trusted reading of those Python builtins (like the operator map of py2gallina).
   Part 2: the CONCRETE SYNTAX of the pieces of an RTLIL document that Model/Rtlil.v keeps in parsed form
           (`pval` constants, `parameter` / `attribute` / `wire` / `memory` lines): printers from the parsed form to
           text.  harness/rtlil_parse.py reads this syntax back (decimal token -> PInt; W'digits, most significant
           first -> PBits, least significant first, 0'0 -> no bits; a quoted string with the five backslash escapes
           for quote, backslash, tab, CR, LF -> PStr).
           The equivalence lemmas state: the text the source writes for a value IS the concrete syntax of the
           parsed value the model predicts (Rtlil.emit_xval), for all values. *)
From Coq Require Import ZArith List Bool String Ascii DecimalString.
From V.Model Require Import Bits Rtlil.
Import ListNotations.
Open Scope string_scope.
Open Scope Z_scope.

(* ------------------------------------------------------------------ part 1: Python side *)
(* PyStr s: a str.  PyInt v: an int (bool and int-valued enum members included).  PyConst v w sg: the object
   Const(v, Shape(w, sg)) — its .value is norm (Sh w sg) v (Const.__init__ wraps; translated by unit "shape"), its
   len() is w, its shape().signed is sg.  PyUndef w: back/rtlil.py's Undef(w).  PyFloat r: a float whose repr is r. *)
Inductive pyval :=
| PyStr (s : string) | PyInt (v : Z) | PyConst (v w : Z) (sg : bool) | PyUndef (w : Z) | PyFloat (r : string).

(* an int formatted by an f-string ({v:d} or {v}) or by format ({}) *)
Definition py_fmt_d (v : Z) : string := NilZero.string_of_int (Z.to_int v).
(* the same for a non-negative counter kept as nat (len(), index += 1) *)
Definition py_fmt_nat (n : nat) : string := NilEmpty.string_of_uint (Nat.to_uint n).

(* bin(p)[2:], most significant digit first, in front of acc *)
Fixpoint bin_pos (p : positive) (acc : string) : string :=
  match p with
  | xH => String "1" acc
  | xO q => bin_pos q (String "0" acc)
  | xI q => bin_pos q (String "1" acc)
  end.
Fixpoint str_repeat (s : string) (n : nat) : string :=
  match n with O => "" | S k => s ++ str_repeat s k end.
(* s * n (n <= 0 gives "") *)
Definition py_repeat (s : string) (n : Z) : string := str_repeat s (Z.to_nat n).
(* format(v, w) under the spec {:0{}b}: sign, then the binary digits padded with zeros on the left to w characters in all *)
Definition py_fmt_0b (v w : Z) : string :=
  match v with
  | Z0 => py_repeat "0" (w - 1) ++ "0"
  | Zpos p => let s := bin_pos p "" in py_repeat "0" (w - Z.of_nat (String.length s)) ++ s
  | Zneg p => let s := bin_pos p "" in "-" ++ py_repeat "0" (w - 1 - Z.of_nat (String.length s)) ++ s
  end.

(* s.translate(str.maketrans({c: t, ...})) with one-character keys *)
Fixpoint assoc_ascii (c : ascii) (m : list (ascii * string)) : option string :=
  match m with
  | [] => None
  | (k, t) :: r => if Ascii.eqb c k then Some t else assoc_ascii c r
  end.
Fixpoint py_translate (m : list (ascii * string)) (s : string) : string :=
  match s with
  | EmptyString => ""
  | String c r => (match assoc_ascii c m with Some t => t | None => String c "" end) ++ py_translate m r
  end.

(* the values Model/Rtlil.v knows, as Python values *)
Definition of_xval (x : xval) : pyval :=
  match x with
  | XInt v => PyInt v
  | XConst v w sg => PyConst v w sg
  | XStr s => PyStr s
  | XReal r => PyFloat r
  end.

(* ------------------------------------------------------------------ part 2: concrete syntax *)
Definition digit_char (b : Z) : ascii :=
  if b =? 0 then "0" else if b =? 1 then "1" else if b =? 2 then "x" else if b =? 3 then "z"
  else if b =? 4 then "-" else "m".
(* digits of an LSB-first bit list, most significant first, in front of acc *)
Fixpoint msb_string (bits : list Z) (acc : string) : string :=
  match bits with [] => acc | b :: r => msb_string r (String (digit_char b) acc) end.

Definition tab_char : ascii := ascii_of_nat 9.
Definition lf_char : ascii := ascii_of_nat 10.
Definition cr_char : ascii := ascii_of_nat 13.
(* inside a quoted string: backslash escapes of quote, backslash, tab, CR, LF *)
Definition esc_char (c : ascii) : string :=
  if Ascii.eqb c """" then "\""" else if Ascii.eqb c "\" then "\\"
  else if Ascii.eqb c tab_char then "\t" else if Ascii.eqb c cr_char then "\r"
  else if Ascii.eqb c lf_char then "\n" else String c "".
Fixpoint esc_string (s : string) : string :=
  match s with EmptyString => "" | String c r => esc_char c ++ esc_string r end.

Definition print_const (p : pval) : string :=
  match p with
  | PInt z => py_fmt_d z
  | PBits [] => "0'0"                (* how a zero-width constant is written *)
  | PBits bits => py_fmt_d (Z.of_nat (List.length bits)) ++ "'" ++ msb_string bits ""
  | PStr s => """" ++ esc_string s ++ """"
  end.

Definition flag_text (f : Z) : string := if f =? 1 then " signed" else if f =? 2 then " real" else "".
(* the text of the lines (without indentation and line end, which Emitter.__call__ adds) *)
Definition print_param (p : param) : string :=
  "parameter" ++ flag_text (par_flag p) ++ " " ++ par_name p ++ " " ++ print_const (par_val p).
Definition print_attr (a : attr) : string := "attribute " ++ fst a ++ " " ++ print_const (snd a).
(* public names are written with a leading backslash *)
Definition public (n : string) : ident := "\" ++ n.

(* `wire width W [signed] NAME`  /  `wire width W input|output|inout K [signed] NAME` exactly as Wire.emit spaces it *)
Definition dir_text (d : dir) : string := match d with DIn => "input" | DOut => "output" | DInout => "inout" end.
Definition print_wire (w : wire) : string :=
  let sg := if w_signed w then " signed" else "" in
  match w_port w with
  | None => "wire width " ++ py_fmt_d (w_width w) ++ sg ++ " " ++ w_name w
  | Some (d, k) => "wire width " ++ py_fmt_d (w_width w) ++ " " ++ dir_text d ++ " " ++ py_fmt_d k ++ " " ++ sg ++ " "
                   ++ w_name w
  end.
Definition print_memory (m : memory) : string :=
  "memory width " ++ py_fmt_d (m_width m) ++ " size " ++ py_fmt_d (m_size m) ++ " " ++ m_name m.

(* Module._auto_name: the counter after the call and the private name `$n` *)
Definition auto_name (k : Z) : Z * ident := (k + 1, "$" ++ py_fmt_d (k + 1)).

(* Module._name: None -> the next private name, Some n -> the public name \n; then `assert name not in self.contents`:
   None (a bare AssertionError) when the module already has something of that name (known finding
   C07-field-wire-name-collision is this assertion) *)
Definition module_name (k : Z) (contents : list ident) (name : option string) : option (Z * ident) :=
  let kn := match name with None => auto_name k | Some n => (k, public n) end in
  if smem (snd kn) contents then None else Some kn.

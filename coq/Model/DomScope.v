(* Model of the scoping of clock domains over the fragment hierarchy and of the resolution of late-bound
   ClockSignal / ResetSignal by hdl/_xfrm.py DomainLowerer (run by Fragment.prepare, i.e. by every simulation and
   conversion).

   Code modelled:
   * Fragment._propagate_domains_down: for each subfragment, every domain of the parent that the subfragment does not
     define itself is added to it (`if domain not in subfrag.domains: subfrag.add_domains(...)`), recursively — a
     definition in a subfragment shadows the one of the parent for that subtree;
   * DomainLowerer.on_fragment: the visitor keeps the domain table in the mutable attribute `self.domains`; it is set to
     `fragment.domains` on entry; FragmentTransformer.on_fragment then maps the SUBFRAGMENTS FIRST (recursive calls, each
     overwriting `self.domains`) and the statements of the fragment itself afterwards; on exit the table of the caller
     is restored (the restore is the repair of finding C03-domain-lowerer-leaks-subfragment-domains: without it the
     statements of a fragment were resolved in the table of its last visited descendant, `lower_leaky` below).

   A domain definition is a pair (name, id): the id identifies the ClockDomain object (its clk / rst signals).
   No proofs in this file. *)
From Coq Require Import List Arith Bool ZArith.
Import ListNotations.

Definition denv := list (nat * nat).          (* name -> id, first binding wins *)

Fixpoint dlookup (e : denv) (n : nat) : option nat :=
  match e with
  | [] => None
  | (k, v) :: r => if Nat.eqb k n then Some v else dlookup r n
  end.

(* a fragment: the domains it defines itself, the names its own statements refer to through late-bound signals,
   its subfragments in order *)
Inductive dtree := DN (defs : denv) (uses : list nat) (subs : list dtree).

(* parent's domains not defined by the subfragment are appended to the subfragment's table *)
Definition dmerge (own parent : denv) : denv :=
  own ++ filter (fun kv => match dlookup own (fst kv) with Some _ => false | None => true end) parent.

(* _propagate_domains_down from a fragment whose table is already complete *)
Fixpoint prop_down (parent : denv) (t : dtree) : dtree :=
  match t with
  | DN defs uses subs => let e := dmerge defs parent in DN e uses (map (prop_down e) subs)
  end.

(* SPEC: lexical scoping — every use is resolved in the table of the fragment whose statement contains it.
   Results in pre-order: the fragment's own uses, then the subfragments'. *)
Fixpoint scoped (t : dtree) : list (option nat) :=
  match t with
  | DN defs uses subs => map (dlookup defs) uses ++ flat_map scoped subs
  end.

(* DomainLowerer as written: `st` is self.domains. *)
Fixpoint lower (t : dtree) (st : denv) {struct t} : list (option nat) * denv :=
  match t with
  | DN defs uses subs =>
      let outer := st in
      let st1 := defs in                                        (* self.domains = fragment.domains *)
      let fix go (l : list dtree) (s : denv) {struct l} : list (option nat) * denv :=
          match l with
          | [] => ([], s)
          | x :: r => let (a, s1) := lower x s in let (b, s2) := go r s1 in (a ++ b, s2)
          end in
      let (rs, st2) := go subs st1 in                           (* map_subfragments *)
      (map (dlookup st2) uses ++ rs, outer)                     (* map_statements; finally: self.domains = outer *)
  end.

(* the code before the repair: no restore *)
Fixpoint lower_leaky (t : dtree) (st : denv) {struct t} : list (option nat) * denv :=
  match t with
  | DN defs uses subs =>
      let st1 := defs in
      let fix go (l : list dtree) (s : denv) {struct l} : list (option nat) * denv :=
          match l with
          | [] => ([], s)
          | x :: r => let (a, s1) := lower_leaky x s in let (b, s2) := go r s1 in (a ++ b, s2)
          end in
      let (rs, st2) := go subs st1 in
      (map (dlookup st2) uses ++ rs, st2)
  end.

(* Fragment.prepare on a top fragment: propagate, then lower with self.domains = None (empty) *)
Definition prepare_resolve (top : dtree) : list (option nat) := fst (lower (prop_down [] top) []).
Definition prepare_resolve_leaky (top : dtree) : list (option nat) := fst (lower_leaky (prop_down [] top) []).

(* innermost enclosing definition, computed directly on the unpropagated tree *)
Fixpoint innermost (parent : denv) (t : dtree) : list (option nat) :=
  match t with
  | DN defs uses subs =>
      let e := dmerge defs parent in
      map (fun n => match dlookup defs n with Some i => Some i | None => dlookup parent n end) uses
      ++ flat_map (innermost e) subs
  end.

(* ---------------------------------------------------------------------------------------------------------------
   Fragment.prepare and the user's own fragments (hdl/_ir.py).  Propagation MUTATES the fragments it visits
   (`subfrag.add_domains`); a fragment object the user holds (an Instance, a hand-built Fragment) is part of every
   hierarchy it is elaborated into AS IT IS, so what one preparation leaves in it is seen by the next one.  Since the
   repair of finding C09-prepare-leaves-propagated-domains, prepare records every (fragment, name) it adds and deletes
   exactly those entries (`del fragment.domains[name]`) when it is done.

   `added own parent`   : the names propagation adds to a fragment whose own table is `own`
   `del_names ns e`     : `del e[n]` for each n in ns
   `after_prepare`      : the table the user's fragment holds after one preparation (repaired code)
   `after_prepare_leaky`: the same before the repair — the merged table stays *)
Definition added (own parent : denv) : list nat :=
  map fst (filter (fun kv => match dlookup own (fst kv) with Some _ => false | None => true end) parent).

Definition del_names (ns : list nat) (e : denv) : denv :=
  filter (fun kv => negb (existsb (Nat.eqb (fst kv)) ns)) e.

Definition after_prepare (own parent : denv) : denv := del_names (added own parent) (dmerge own parent).
Definition after_prepare_leaky (own parent : denv) : denv := dmerge own parent.

(* the table a user-held fragment is given by a SECOND preparation under a parent whose (auto-created) domains are
   new objects `parent2`, after a first one under `parent1` *)
Definition second_table (own parent1 parent2 : denv) : denv := dmerge (after_prepare own parent1) parent2.
Definition second_table_leaky (own parent1 parent2 : denv) : denv := dmerge (after_prepare_leaky own parent1) parent2.

(* Wiring.v — model of amaranth/lib/wiring.py (signatures, flipping, interface objects, connect, metadata).
   No proofs here (see Proofs/WiringP.v).

   Representation (follows the code):
   * member names are integers (the harness ranks the Python strings, so Z order = str order);
   * a signature VALUE is `(w, ms)`: the members dict `ms` of a `Signature`, wrapped in a `FlippedSignature`
     proxy iff `w` (Signature.flip() wraps, FlippedSignature.flip() unwraps: never two wrappers);
   * `Member.flip` only changes the flow; the nested description is kept; `Member.signature` flips the
     description when the (observable) flow is In;
   * an interface object is `OIf fl x attrs`: raw object with `.signature = x` and attributes `attrs`, wrapped in
     a `FlippedInterface` proxy iff `fl` (flipped() wraps / unwraps). *)
From Coq Require Import ZArith List Bool.
From V.Model Require Import Bits.
Import ListNotations.
Open Scope Z_scope.

Inductive flow := FOut | FIn.
Definition flip_flow (f : flow) : flow := match f with FOut => FIn | FIn => FOut end.
Definition is_in (f : flow) : bool := match f with FIn => true | FOut => false end.
Definition flow_eqb (a b : flow) : bool := Bool.eqb (is_in a) (is_in b).
Definition flipif (b : bool) (f : flow) : flow := if b then flip_flow f else f.

(* Port flow shape init dims: `init` is the raw initial value (None = 0) as given (`Member.init`, compared by
   `Member.__eq__`); `_init_as_const.value` = Const(Const.cast(init or 0).value, shape).value is `m_cinit` below
   (normalised to the shape, like the init of the Signal that create() makes).
   Iface flow w ms dims: description = Signature(ms), wrapped in FlippedSignature iff w. *)
Inductive member :=
| Port (f : flow) (sh : shape) (init : Z) (dims : list nat)
| Iface (f : flow) (w : bool) (ms : list (Z * member)) (dims : list nat).

Definition members := list (Z * member).
Definition sigt := (bool * members)%type.

Definition m_flow (m : member) : flow := match m with Port f _ _ _ => f | Iface f _ _ _ => f end.
Definition m_dims (m : member) : list nat := match m with Port _ _ _ d => d | Iface _ _ _ d => d end.
Definition m_is_port (m : member) : bool := match m with Port _ _ _ _ => true | _ => false end.
Definition m_is_iface (m : member) : bool := negb (m_is_port m).
Definition m_shape (m : member) : shape := match m with Port _ sh _ _ => sh | _ => Sh 0 false end.
Definition m_init (m : member) : Z := match m with Port _ _ i _ => i | _ => 0 end.
(* member._init_as_const.value *)
Definition m_cinit (m : member) : Z := norm (m_shape m) (m_init m).

(* Member.flip *)
Definition flip_member (m : member) : member :=
  match m with
  | Port f sh i d => Port (flip_flow f) sh i d
  | Iface f w ms d => Iface (flip_flow f) w ms d
  end.
Definition flipm (b : bool) (m : member) : member := if b then flip_member m else m.

(* Signature.flip / FlippedSignature.flip *)
Definition sig_flip (x : sigt) : sigt := (negb (fst x), snd x).
(* observable members: SignatureMembers / FlippedSignatureMembers.__getitem__ *)
Definition sig_members (x : sigt) : members := map (fun nm => (fst nm, flipm (fst x) (snd nm))) (snd x).
(* wrapper flag of `member.signature` for a member stored with flow f / wrapper w inside a signature with flag fl *)
Definition sub_flag (fl : bool) (f : flow) (w : bool) : bool := xorb w (is_in (flipif fl f)).
(* Member.signature (of an observable member) *)
Definition member_signature (m : member) : sigt :=
  match m with Iface f w ms _ => (sub_flag false f w, ms) | Port _ _ _ _ => (false, []) end.

(* ---------- paths ---------- *)
Inductive item := PN (n : Z) | PI (i : nat).
Definition path := list item.

Fixpoint path_cmp (a b : list Z) : comparison :=
  match a, b with
  | [], [] => Eq
  | [], _ :: _ => Lt
  | _ :: _, [] => Gt
  | x :: a', y :: b' => match x ?= y with Eq => path_cmp a' b' | c => c end
  end.
Definition path_leb (a b : list Z) : bool := match path_cmp a b with Gt => false | _ => true end.
Definition path_eqb (a b : list Z) : bool := match path_cmp a b with Eq => true | _ => false end.

(* ---------- SignatureMembers.flatten: one entry per member, interface nodes included ---------- *)
Definition entry := (list Z * member)%type.

Fixpoint flat_m (fl : bool) (pre : list Z) (n : Z) (m : member) {struct m} : list entry :=
  (pre ++ [n], flipm fl m) ::
  match m with
  | Port _ _ _ _ => []
  | Iface f w ms _ => flat_map (fun nm => flat_m (sub_flag fl f w) (pre ++ [n]) (fst nm) (snd nm)) ms
  end.
Definition flat_ms (fl : bool) (pre : list Z) (ms : members) : list entry :=
  flat_map (fun nm => flat_m fl pre (fst nm) (snd nm)) ms.
Definition flat_members (x : sigt) : list entry := flat_ms (fst x) [] (snd x).

(* sorted(...) on (path, member) tuples: paths are distinct, so only paths are compared *)
Fixpoint insert {A} (e : list Z * A) (l : list (list Z * A)) : list (list Z * A) :=
  match l with
  | [] => [e]
  | h :: t => if path_leb (fst e) (fst h) then e :: l else h :: insert e t
  end.
Definition sort {A} (l : list (list Z * A)) : list (list Z * A) := fold_right insert [] l.

(* ---------- Signature.__eq__ (structural, through sorted flatten) ---------- *)
Fixpoint dims_eqb (a b : list nat) : bool :=
  match a, b with
  | [], [] => true
  | x :: a', y :: b' => Nat.eqb x y && dims_eqb a' b'
  | _, _ => false
  end.
(* Member.__eq__; the comparison of nested descriptions is implied by the comparison of the nested flatten entries *)
Definition member_eqb (a b : member) : bool :=
  match a, b with
  | Port f sh i d, Port f' sh' i' d' => flow_eqb f f' && shape_eqb sh sh' && (i =? i') && dims_eqb d d'
  | Iface f _ _ d, Iface f' _ _ d' => flow_eqb f f' && dims_eqb d d'
  | _, _ => false
  end.
Fixpoint entries_eqb (a b : list entry) : bool :=
  match a, b with
  | [], [] => true
  | (p, m) :: a', (q, m') :: b' => path_eqb p q && member_eqb m m' && entries_eqb a' b'
  | _, _ => false
  end.
Definition sig_eqb (x y : sigt) : bool := entries_eqb (sort (flat_members x)) (sort (flat_members y)).

(* ---------- interface objects ---------- *)
Inductive obj :=
| OSig (nm : path) (sh : shape) (init : Z)      (* Signal(shape, init=...), .init already normalised; nm = name path *)
| OConst (sh : shape) (v : Z)
| OArr (l : list obj)
| OIf (fl : bool) (x : sigt) (attrs : list (Z * obj))
| OBad.                                         (* not value-castable, no signature *)

Inductive cerr := ENotCompliant | EMissing | ESigPort | EWidth | EInit | ESeveral | EConstVar | EConstDiff
                | EOnlyIn | ETypeErr | EAttr | EAssertDims | EIndex.
Inductive res (A : Type) := Ok (a : A) | Err (e : cerr).
Arguments Ok {A} a.
Arguments Err {A} e.

Fixpoint assoc {A} (n : Z) (l : list (Z * A)) : option A :=
  match l with [] => None | (k, v) :: r => if k =? n then Some v else assoc n r end.

(* flipped() *)
Definition flipped (o : obj) : res obj :=
  match o with OIf fl x a => Ok (OIf (negb fl) x a) | _ => Err ETypeErr end.
(* obj.signature *)
Definition obj_sig (o : obj) : option sigt :=
  match o with OIf fl x _ => Some (if fl then sig_flip x else x) | _ => None end.
Definition is_iface_name (n : Z) (x : sigt) : bool :=
  match assoc n (snd x) with Some m => m_is_iface m | None => false end.
(* getattr(obj, name); FlippedInterface.__getattr__ flips interface members (TypeError on a list of interfaces) *)
Inductive gres := GVal (o : obj) | GMissing | GTypeErr.
Definition obj_get (o : obj) (n : Z) : gres :=
  match o with
  | OIf fl x attrs =>
      match assoc n attrs with
      | None => GMissing
      | Some c => if fl && is_iface_name n x
                  then match flipped c with Ok c' => GVal c' | Err _ => GTypeErr end
                  else GVal c
      end
  | _ => GMissing
  end.

(* ---------- create ---------- *)
Fixpoint create_dims (f : path -> obj) (dims : list nat) (p : path) : obj :=
  match dims with
  | [] => f p
  | d :: rest => OArr (map (fun i => create_dims f rest (p ++ [PI i])) (seq 0 d))
  end.

(* create_value for a member as observed in a signature with flag fl *)
Fixpoint create_m (fl : bool) (m : member) (p : path) {struct m} : obj :=
  match m with
  | Port _ sh i _ => OSig p sh (norm sh i)
  | Iface f w ms _ =>
      (* member.signature.create(path): PureInterface(unflipped signature), wrapped by flipped() iff flagged *)
      OIf (sub_flag fl f w) (false, ms)
          (map (fun nm => (fst nm, create_dims (create_m false (snd nm)) (m_dims (snd nm)) (p ++ [PN (fst nm)]))) ms)
  end.
Definition top (x : sigt) : member := Iface FOut (fst x) (snd x) [].
Definition create (x : sigt) (p : path) : obj := create_m false (top x) p.
(* Component.__init__: attributes created from the (observable) members on the component itself, never wrapped *)
Definition create_component (x : sigt) : obj :=
  OIf false x (map (fun nm => (fst nm, create_dims (create_m (fst x) (snd nm)) (m_dims (snd nm)) [PN (fst nm)])) (snd x)).

(* ---------- Signature.is_compliant ---------- *)
(* `for ...: if not check(...): result = False; if reasons is None: break` — sc = short-circuit (reasons is None);
   exceptions propagate in both modes *)
Definition all_res {A} (sc : bool) (f : A -> res bool) : list A -> res bool :=
  fix go (l : list A) : res bool :=
    match l with
    | [] => Ok true
    | a :: r =>
        match f a with
        | Err e => Err e
        | Ok true => go r
        | Ok false => if sc then Ok false else match go r with Ok _ => Ok false | Err e => Err e end
        end
    end.

Fixpoint check_dims (sc : bool) (chk : obj -> res bool) (dims : list nat) (v : obj) : res bool :=
  match dims with
  | [] => chk v
  | d :: rest =>
      match v with
      | OArr l => if Nat.eqb (length l) d then all_res sc (check_dims sc chk rest) l else Ok false
      | _ => Ok false
      end
  end.

(* check_attr_value for a member as observed in a signature with flag fl *)
Fixpoint compl_m (sc : bool) (fl : bool) (m : member) (v : obj) {struct m} : res bool :=
  match m with
  | Port _ sh i _ =>
      match v with
      | OSig _ sh' i' => Ok (shape_eqb sh' sh && (i' =? norm sh i))
      | OConst sh' _ => Ok (shape_eqb sh' sh)
      | _ => Ok false
      end
  | Iface f w ms _ =>
      let x := (sub_flag fl f w, ms) in
      match obj_sig v with
      | None => Ok false
      | Some y =>
          if negb (sig_eqb x y) then Ok false else
          all_res sc (fun nm =>
                     match obj_get v (fst nm) with
                     | GMissing => Ok false
                     | GTypeErr => Err ETypeErr
                     | GVal c => check_dims sc (compl_m sc (fst x) (snd nm)) (m_dims (snd nm)) c
                     end) ms
      end
  end.
Definition is_compliant (x : sigt) (o : obj) : res bool := compl_m true false (top x) o.
(* second call in connect(): is_compliant(obj, reasons=[...]) does not stop at the first failure *)
Definition is_compliant_reasons (x : sigt) (o : obj) : res bool := compl_m false false (top x) o.

(* ---------- Signature.flatten(obj): leaves only, indices in paths ----------
   l_init is `_init_as_const.value` of the yielded Member(flow, shape, init=member.init) *)
Record leaf := Leaf { l_path : path; l_flow : flow; l_shape : shape; l_init : Z; l_val : obj }.

Fixpoint concat_res {A} (l : list (res (list A))) : res (list A) :=
  match l with
  | [] => Ok []
  | Ok a :: r => match concat_res r with Ok b => Ok (a ++ b) | Err e => Err e end
  | Err e :: _ => Err e
  end.

Fixpoint iter_dims {A} (f : path -> obj -> res (list A)) (dims : list nat) (p : path) (v : obj) : res (list A) :=
  match dims with
  | [] => f p v
  | d :: rest =>
      match v with
      | OArr l => concat_res (map (fun i => match nth_error l i with
                                            | Some c => iter_dims f rest (p ++ [PI i]) c
                                            | None => Err EIndex
                                            end) (seq 0 d))
      | _ => Err EIndex
      end
  end.

Fixpoint flat_obj_m (fl : bool) (m : member) (p : path) (v : obj) {struct m} : res (list leaf) :=
  match m with
  | Port f sh i _ => Ok [Leaf p (flipif fl f) sh (norm sh i) v]
  | Iface f w ms _ =>
      let g := sub_flag fl f w in
      concat_res (map (fun nm =>
                         match obj_get v (fst nm) with
                         | GMissing => Err EAttr
                         | GTypeErr => Err ETypeErr
                         | GVal c => iter_dims (flat_obj_m g (snd nm)) (m_dims (snd nm)) (p ++ [PN (fst nm)]) c
                         end) ms)
  end.
Definition flat_obj (x : sigt) (o : obj) : res (list leaf) := flat_obj_m false (top x) [] o.

(* ---------- connect ---------- *)
Fixpoint idx_paths (dims : list nat) : list path :=
  match dims with
  | [] => [[]]
  | d :: rest => flat_map (fun i => map (cons (PI i)) (idx_paths rest)) (seq 0 d)
  end.

(* _traverse_path *)
Fixpoint trav (o : obj) (p : path) : res obj :=
  match p with
  | [] => Ok o
  | PN n :: r => match obj_get o n with GVal c => trav c r | GMissing => Err EAttr | GTypeErr => Err ETypeErr end
  | PI i :: r => match o with
                 | OArr l => match nth_error l i with Some c => trav c r | None => Err EIndex end
                 | _ => Err EAttr
                 end
  end.
Definition hpath := (nat * path)%type.
Definition traverse (objs : list obj) (hp : hpath) : res obj :=
  match nth_error objs (fst hp) with Some o => trav o (snd hp) | None => Err EIndex end.

Definition asg := (hpath * hpath)%type.   (* (input, output) *)

Definition connect_value (objs : list obj) (ip op : hpath) : res (list asg) :=
  match traverse objs ip with
  | Err e => Err e
  | Ok iv =>
      match traverse objs op with
      | Err e => Err e
      | Ok ov =>
          match iv with
          | OConst _ cv => match ov with
                           | OConst _ cv' => if cv =? cv' then Ok [] else Err EConstDiff
                           | _ => Err EConstVar
                           end
          | OSig _ _ _ => Ok [(ip, op)]
          | _ => Err ETypeErr
          end
      end
  end.

Definition tagged := (nat * member)%type.
Fixpoint tag_from (k : nat) (ms : list member) : list tagged :=
  match ms with [] => [] | m :: r => (k, m) :: tag_from (S k) r end.
Definition is_out_port (t : tagged) : bool := m_is_port (snd t) && negb (is_in (m_flow (snd t))).
Definition is_in_port (t : tagged) : bool := m_is_port (snd t) && is_in (m_flow (snd t)).
Definition is_sig_kind (t : tagged) : bool := m_is_iface (snd t).
Definition nonempty {A} (l : list A) : bool := match l with [] => false | _ => true end.

Fixpoint check_wi (w0 i0 : Z) (l : list tagged) : option cerr :=
  match l with
  | [] => None
  | (_, m) :: r => if negb (w0 =? width (m_shape m)) then Some EWidth
                   else if negb (i0 =? m_cinit m) then Some EInit
                   else check_wi w0 i0 r
  end.

Definition state := (list asg * bool * bool)%type.   (* connections, any_in, any_out *)

Definition connect_in (objs : list obj) (p : list Z) (out : tagged) (i : tagged) : res (list asg) :=
  if dims_eqb (m_dims (snd out)) (m_dims (snd i)) then
    concat_res (map (fun idx => connect_value objs (fst i, map PN p ++ idx) (fst out, map PN p ++ idx))
                    (idx_paths (m_dims (snd out))))
  else Err EAssertDims.

(* one iteration of the `while True:` loop, given the members found at path p in handle order *)
Definition step (objs : list obj) (p : list Z) (ms : list member) (st : state) : res state :=
  let t := tag_from 0 ms in
  let outs := filter is_out_port t in
  let ins := filter is_in_port t in
  let sigs := filter is_sig_kind t in
  if nonempty sigs && (nonempty outs || nonempty ins) then Err ESigPort else
  if nonempty sigs then Ok st else
  let '(cs, ai, ao) := st in
  let st1 := (ai || nonempty ins, ao || nonempty outs) in
  match ins ++ outs with
  | [] => Ok (cs, fst st1, snd st1)
  | (_, m0) :: r =>
      match check_wi (width (m_shape m0)) (m_cinit m0) r with
      | Some e => Err e
      | None =>
          match outs with
          | [] => Ok (cs, fst st1, snd st1)
          | [o] => match concat_res (map (connect_in objs p o) ins) with
                   | Ok new => Ok (cs ++ new, fst st1, snd st1)
                   | Err e => Err e
                   end
          | _ => Err ESeveral
          end
      end
  end.

(* next() on every other handle: all must yield the same path *)
Fixpoint heads (p : list Z) (rest : list (list entry)) : option (list member * list (list entry)) :=
  match rest with
  | [] => Some ([], [])
  | l :: r =>
      match l with
      | [] => None
      | (q, m) :: t =>
          if path_eqb p q then
            match heads p r with Some (ms, ts) => Some (m :: ms, t :: ts) | None => None end
          else None
      end
  end.
Definition is_nil {A} (l : list A) : bool := match l with [] => true | _ => false end.

Fixpoint conn_loop (objs : list obj) (f0 : list entry) (rest : list (list entry)) (st : state) : res state :=
  match f0 with
  | [] => if forallb is_nil rest then Ok st else Err EMissing
  | (p, m) :: t0 =>
      match heads p rest with
      | None => Err EMissing
      | Some (hs, tails) =>
          match step objs p (m :: hs) st with
          | Err e => Err e
          | Ok st' => conn_loop objs t0 tails st'
          end
      end
  end.

Fixpoint check_args (objs : list obj) : res (list sigt) :=
  match objs with
  | [] => Ok []
  | o :: r =>
      match obj_sig o with
      | None => Err EAttr
      | Some x =>
          match is_compliant x o with
          | Err e => Err e
          | Ok false => match is_compliant_reasons x o with Err e => Err e | Ok _ => Err ENotCompliant end
          | Ok true => match check_args r with Ok xs => Ok (x :: xs) | Err e => Err e end
          end
      end
  end.

Definition connect_sigs (objs : list obj) (sigs : list sigt) : res (list asg) :=
  match map (fun x => sort (flat_members x)) sigs with
  | [] => Ok []
  | [_] => Ok []
  | f0 :: rest =>
      match conn_loop objs f0 rest ([], false, false) with
      | Err e => Err e
      | Ok (cs, ai, ao) => if is_nil cs && ai && negb ao then Err EOnlyIn else Ok cs
      end
  end.

Definition connect (objs : list obj) : res (list asg) :=
  match check_args objs with
  | Err e => Err e
  | Ok sigs => connect_sigs objs sigs
  end.

(* ---------- ComponentMetadata.as_json: nested JSON serialised in preorder ---------- *)
Inductive json :=
| JPort (name : path) (dir : flow) (w : Z) (sg : bool) (init : Z)
| JArr (l : list json)
| JIface (ms : list (Z * json)).

Fixpoint meta_dims (f : path -> json) (dims : list nat) (p : path) : json :=
  match dims with
  | [] => f p
  | d :: rest => JArr (map (fun i => meta_dims f rest (p ++ [PI i])) (seq 0 d))
  end.

Fixpoint meta_m (fl : bool) (m : member) (p : path) {struct m} : json :=
  match m with
  | Port f sh i _ => JPort p (flipif fl f) (width sh) (sgn sh) (norm sh i)
  | Iface f w ms _ =>
      let g := sub_flag fl f w in
      JIface (map (fun nm => (fst nm, meta_dims (meta_m g (snd nm)) (m_dims (snd nm)) (p ++ [PN (fst nm)]))) ms)
  end.
Definition metadata (x : sigt) : json := meta_m false (top x) [].

(* ---------- SPEC: effective direction by counting reversals; leaves with indices; the initial value of a leaf is
   the initial value of its Signal (the given init brought into the port's shape) ---------- *)
Fixpoint iter_flip (k : nat) (f : flow) : flow := match k with O => f | S k' => flip_flow (iter_flip k' f) end.
Definition b2n (b : bool) : nat := if b then 1%nat else 0%nat.

(* one entry per member; k = number of reversals above (FlippedSignature wrappers + In-flow interface members) *)
Fixpoint spec_flat_m (k : nat) (pre : list Z) (n : Z) (m : member) {struct m} : list (list Z * flow) :=
  (pre ++ [n], iter_flip k (m_flow m)) ::
  match m with
  | Port _ _ _ _ => []
  | Iface f w ms _ =>
      flat_map (fun nm => spec_flat_m (k + b2n w + b2n (is_in f)) (pre ++ [n]) (fst nm) (snd nm)) ms
  end.

Record sleaf := SLeaf { s_path : path; s_flow : flow; s_shape : shape; s_init : Z }.

Fixpoint spec_leaves_m (k : nat) (m : member) (p : path) {struct m} : list sleaf :=
  match m with
  | Port f sh i d => map (fun idx => SLeaf (p ++ idx) (iter_flip k f) sh (norm sh i)) (idx_paths d)
  | Iface f w ms d =>
      flat_map (fun idx =>
        flat_map (fun nm => spec_leaves_m (k + b2n w + b2n (is_in f)) (snd nm) (p ++ idx ++ [PN (fst nm)])) ms)
        (idx_paths d)
  end.
Definition spec_leaves (x : sigt) : list sleaf :=
  flat_map (fun nm => spec_leaves_m (b2n (fst x)) (snd nm) [PN (fst nm)]) (snd x).

(* ---------- hypotheses used by the theorems (decidable) ---------- *)
Fixpoint nodupb (l : list Z) : bool :=
  match l with [] => true | a :: r => negb (existsb (Z.eqb a) r) && nodupb r end.
(* dict keys are distinct at every level (no condition on initial values: they need not be representable) *)
Fixpoint names_ok (m : member) : bool :=
  match m with
  | Port _ _ _ _ => true
  | Iface _ _ ms _ => nodupb (map fst ms) && forallb (fun nm => names_ok (snd nm)) ms
  end.
(* no FlippedInterface proxy has to hand out a LIST of interfaces (flipped() rejects lists) *)
Fixpoint safe_mb (fl : bool) (m : member) : bool :=
  match m with
  | Port _ _ _ _ => true
  | Iface f w ms _ =>
      let g := sub_flag fl f w in
      forallb (fun nm => negb (g && m_is_iface (snd nm) && nonempty (m_dims (snd nm))) && safe_mb g (snd nm)) ms
  end.

Definition safe_sig (x : sigt) : bool := safe_mb false (top x).
(* no interface member below the top has dimensions (connect() cannot traverse arrays of interfaces) *)
Fixpoint nodims_m (m : member) : bool :=
  match m with
  | Port _ _ _ _ => true
  | Iface _ _ ms _ => forallb (fun nm => (m_is_port (snd nm) || is_nil (m_dims (snd nm))) && nodims_m (snd nm)) ms
  end.
Definition nodims_sig (x : sigt) : bool := nodims_m (top x).

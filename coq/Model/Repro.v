(* Repro.v — MODEL of the ordering / naming / hashing / reset steps that decide whether elaboration,
   build plans and simulation are reproducible (property C09).  No proofs here.

   Mirrors, as written in the pinned tree:
     amaranth/hdl/_xfrm.py   DomainCollector (used_domains, _local_domains)
     amaranth/hdl/_ir.py     Fragment._propagate_domains_down, _create_missing_domains (sorted iteration
                             since fix 7c54fac), Fragment.prepare (ports of the created domains),
                             _add_name, Design._assign_port_names, Design._assign_names
     amaranth/hdl/_cd.py     ClockDomain._name_for
     amaranth/build/run.py   BuildPlan.add_file / digest / archive / extract
     amaranth/sim/pysim.py   _PyTimeline.reset, _PySignalState.reset, _PyMemoryState.reset,
                             _PyEngineState.reset, PySimEngine.reset; sim/_pyrtl.py, _pyclock.py, _async.py
                             process reset(); sim/core.py Simulator.reset

   Strings are lists of Unicode code points (Z); byte strings are lists of Z in 0..255.
   Every place where the code iterates a Python `set` takes the iteration as an explicit argument
   (`iter : list name -> list name`, to be instantiated by a permutation of the set). *)
From Coq Require Import ZArith List Bool.
Import ListNotations.
Open Scope Z_scope.

Definition name := list Z.
Definition zlen {A} (l : list A) : Z := Z.of_nat (length l).

(* ------------------------------------------------------------------ strings *)
Fixpoint name_eqb (a b : name) : bool :=
  match a, b with
  | [], [] => true
  | x :: a', y :: b' => (x =? y) && name_eqb a' b'
  | _, _ => false
  end.

(* Python `str.__le__`: lexicographic on code points, a proper prefix is smaller *)
Fixpoint lex_leb (a b : name) : bool :=
  match a, b with
  | [], _ => true
  | _ :: _, [] => false
  | x :: a', y :: b' => if x <? y then true else if y <? x then false else lex_leb a' b'
  end.

Fixpoint mem (x : name) (s : list name) : bool :=
  match s with [] => false | y :: r => name_eqb x y || mem x r end.

(* a Python set / dict keyed by str, kept duplicate free; `len` is `zlen` *)
Definition set_add (x : name) (s : list name) : list name := if mem x s then s else s ++ [x].

(* `sorted(...)`: any sorting algorithm gives the same list for a total antisymmetric order; insertion sort *)
Fixpoint insert (x : name) (l : list name) : list name :=
  match l with
  | [] => [x]
  | y :: r => if lex_leb x y then x :: y :: r else y :: insert x r
  end.
Definition sort (l : list name) : list name := fold_right insert [] l.

(* str(n) for n >= 0 *)
Fixpoint dec_rev (fuel : nat) (n : Z) : list Z :=
  match fuel with
  | O => []
  | S f => if n <? 10 then [48 + n] else (48 + n mod 10) :: dec_rev f (n / 10)
  end.
Definition dec (n : Z) : name := rev (dec_rev (S (Z.to_nat n)) n).

Definition s_comb : name := [99; 111; 109; 98].          (* "comb" *)
Definition s_sync : name := [115; 121; 110; 99].         (* "sync" *)
Definition s_clk : name := [99; 108; 107].               (* "clk" *)
Definition s_rst : name := [114; 115; 116].              (* "rst" *)
Definition dollar : Z := 36.
Definition underscore : Z := 95.

(* ------------------------------------------------------------------ (1) missing clock domains *)
(* A fragment as DomainCollector sees it:
   pre   — domains referenced before the fragment's own domains become local (memory ports,
           RequirePosedge, ClockSignal/ResetSignal inside Instance / IOBufferInstance operands);
   doms  — keys of fragment.domains, in order;
   used  — for each entry of fragment.statements in dict order: the domain, then the domains of the
           ClockSignal/ResetSignal occurring in its statements;
   subs  — subfragments in order. *)
Inductive frag := Frag (pre doms used : list name) (subs : list frag).

(* Fragment._propagate_domains_down: every domain of a fragment is added to each subfragment that has
   no domain of that name, recursively *)
Fixpoint prop_down (inh : list name) (f : frag) : frag :=
  match f with
  | Frag pre doms used subs =>
    let doms' := fold_left (fun d x => set_add x d) inh doms in
    Frag pre doms' used (map (prop_down doms') subs)
  end.

(* DomainCollector._add_used_domain *)
Definition add_used (local : list name) (acc : list name) (d : name) : list name :=
  if name_eqb d s_comb then acc else if mem d local then acc else set_add d acc.

(* DomainCollector.on_fragment; `acc` is used_domains (a set: the order of `acc` is an artefact) *)
Fixpoint collect (f : frag) (local acc : list name) : list name :=
  match f with
  | Frag pre doms used subs =>
    let acc1 := fold_left (add_used local) pre acc in
    let local' := fold_left (fun l d => set_add d l) doms local in
    let acc2 := fold_left (add_used local') used acc1 in
    (fix go (ss : list frag) (a : list name) : list name :=
       match ss with [] => a | s :: r => go r (collect s local' a) end) subs acc2
  end.

(* used_domains - defined_domains (defined_domains is never filled in the code: always empty) *)
Definition missing_set (f : frag) : list name := collect (prop_down [] f) [] [].

(* DomainRenamer(domain_map)(elaboratable): every domain name occurring in the subtree (statement domains,
   ClockSignal/ResetSignal, memory ports, declared ClockDomains) is mapped once through domain_map *)
Fixpoint rn (m : list (name * name)) (d : name) : name :=
  match m with [] => d | (s, t) :: r => if name_eqb d s then t else rn r d end.
Fixpoint rename_frag (m : list (name * name)) (f : frag) : frag :=
  match f with
  | Frag pre doms used subs => Frag (map (rn m) pre) (map (rn m) doms) (map (rn m) used) (map (rename_frag m) subs)
  end.

(* Key order of Fragment.statements for one Module: Module._statements is a dict filled with
   `setdefault(domain, [])` as statements are added — a plain `m.d.<domain> +=` at once, an If / Switch / FSM
   block when it is closed, once per domain in the order the domains first occur inside the block
   (Module._pop_ctrl collects them in a dict "to ensure deterministic iteration").  `seq` = that sequence of
   domains; `maps` = the DomainRenamer maps applied to the module, innermost first (map_statements re-inserts the
   statements under the renamed keys in order). *)
Definition stmt_keys (maps : list (list (name * name))) (seq : list name) : list name :=
  fold_left (fun a d => set_add d a) (fold_left (fun sq m => map (rn m) sq) maps seq) [].

(* Order in which the IO ports of a design are first met (Design._collect_used_signals walks a fragment's
   subfragments in order; Module.elaborate adds the NAMED submodules first, then the anonymous ones;
   Design._add_io_ports appends them to the ports in that order).  A design as a tree of submodules:
   KIo n = an (anonymous) IOBufferInstance on an IOPort named n; KSub named kids = any other submodule. *)
Inductive kid := KIo (n : name) | KSub (named : bool) (kids : list kid).
Definition kid_named (k : kid) : bool := match k with KIo _ => false | KSub b _ => b end.
Fixpoint io_kid (k : kid) : list name :=
  match k with
  | KIo n => [n]
  | KSub _ ks =>
    (fix go (l : list kid) (want : bool) : list name :=
       match l with
       | [] => []
       | x :: r => (if Bool.eqb (kid_named x) want then io_kid x else []) ++ go r want
       end) ks true
    ++
    (fix go (l : list kid) (want : bool) : list name :=
       match l with
       | [] => []
       | x :: r => (if Bool.eqb (kid_named x) want then io_kid x else []) ++ go r want
       end) ks false
  end.

(* _create_missing_domains with the default missing_domain callback (ClockDomain(name)):
   `iter` is the order in which the set is visited *)
Definition created (iter : list name -> list name) (s : list name) : list name :=
  filter (fun d => negb (name_eqb d s_comb)) (iter s).
Definition create_missing_sorted (s : list name) : list name := created sort s.          (* the code now *)
Definition create_missing_hashed (order : list name) : list name := created (fun x => x) order.
   (* before 7c54fac: `order` is whatever order the set of str happens to iterate in *)

(* ClockDomain._name_for *)
Definition name_for (d sig : name) : name :=
  if name_eqb d s_sync then sig else d ++ [underscore] ++ sig.
(* Fragment.prepare: clk and rst of every created domain become (unnamed) input ports, in order *)
Definition new_ports (ds : list name) : list name :=
  flat_map (fun d => [name_for d s_clk; name_for d s_rst]) ds.

(* ------------------------------------------------------------------ (2) name assignment *)
(* AssertErr: _add_name ran out of fuel (unreachable, ReproP.port_names_go_total) *)
Inductive res (A : Type) := Ok (a : A) | AssertErr | TypeErr.
Arguments Ok {A} a. Arguments AssertErr {A}. Arguments TypeErr {A}.

(* _add_name(assigned_names, name) since fix cb9d97a (S3):
       if name in assigned_names:
           index = len(assigned_names)
           while f"{name}${index}" in assigned_names: index += 1
           name = f"{name}${index}"
       assigned_names.add(name); return name
   The `while` loop runs on fuel |assigned_names| + 1 (proved never exhausted: ReproP.add_name_total);
   None = out of fuel. *)
Fixpoint find_index (fuel : nat) (assigned : list name) (n : name) (i : Z) : option Z :=
  match fuel with
  | O => None
  | S f => if mem (n ++ [dollar] ++ dec i) assigned then find_index f assigned n (i + 1) else Some i
  end.
Definition add_name (assigned : list name) (n : name) : option (name * list name) :=
  if mem n assigned then
    match find_index (S (length assigned)) assigned n (zlen assigned) with
    | Some i => let n' := n ++ [dollar] ++ dec i in Some (n', set_add n' assigned)
    | None => None
    end
  else Some (n, set_add n assigned).

(* a sequence of _add_name calls on one set *)
Fixpoint add_names (assigned : list name) (ns : list name) : option (list name * list name) :=
  match ns with
  | [] => Some ([], assigned)
  | n :: r =>
    match add_name assigned n with
    | None => None
    | Some (n', a') =>
      match add_names a' r with
      | None => None
      | Some (out, a'') => Some (n' :: out, a'')
      end
    end
  end.

(* Design._assign_port_names: ports are (explicit name or None, conn.name) in order *)
Fixpoint port_names_go (assigned : list name) (ports : list (option name * name)) : res (list name) :=
  match ports with
  | [] => Ok []
  | (Some n, _) :: r =>
    match port_names_go assigned r with Ok l => Ok (n :: l) | e => e end
  | (None, cn) :: r =>
    if name_eqb cn [] then TypeErr else
    match add_name assigned cn with
    | None => AssertErr
    | Some (n', a') =>
      match port_names_go (set_add n' a') r with Ok l => Ok (n' :: l) | e => e end
    end
  end.
Definition prenamed (ports : list (option name * name)) : list name :=
  fold_left (fun a p => match fst p with Some n => set_add n a | None => a end) ports [].
Definition assign_port_names (ports : list (option name * name)) : res (list name) :=
  port_names_go (prenamed ports) ports.

(* Design._assign_names for ONE fragment.
   tports — (port name, conn id, conn.name, conn is an IOPort) for the top fragment, [] otherwise;
   sigs   — frag_info.used_signals: (signal id, signal.name) in first-use order;
   ios    — frag_info.used_io_ports likewise;
   subs   — (explicit name or None, subfragment.name_from_type()) in order. *)
Definition amap := list (Z * name).
Fixpoint alookup (k : Z) (m : amap) : option name :=
  match m with [] => None | (k', v) :: r => if k =? k' then Some v else alookup k r end.
Fixpoint aset (k : Z) (v : name) (m : amap) : amap :=
  match m with
  | [] => [(k, v)]
  | (k', v') :: r => if k =? k' then (k, v) :: r else (k', v') :: aset k v r
  end.

Definition tport := (name * Z * name * bool)%type.
Definition reserve_ports (tports : list tport) : list name * amap * amap :=
  fold_left (fun st p =>
    match st, p with
    | (a, sn, ion), (n, id, cn, isio) =>
      let a' := set_add n a in
      if name_eqb cn n then (if isio : bool then (a', sn, aset id n ion) else (a', aset id n sn, ion))
      else (a', sn, ion)
    end) tports ([], [], []).

(* `private` = True: names "" are skipped (signals); False: IO ports are always named *)
Fixpoint name_conns (private : bool) (a : list name) (m : amap) (cs : list (Z * name)) : option (list name * amap) :=
  match cs with
  | [] => Some (a, m)
  | (id, n) :: r =>
    match alookup id m with
    | Some _ => name_conns private a m r
    | None =>
      if private && name_eqb n [] then name_conns private a m r else
      match add_name a n with
      | None => None
      | Some (n', a') => name_conns private a' (aset id n' m) r
      end
    end
  end.

Definition sub_request (i : Z) (s : option name * name) : name :=
  match fst s with Some n => n | None => snd s ++ [dollar] ++ dec i end.
Fixpoint sub_requests (i : Z) (subs : list (option name * name)) : list name :=
  match subs with [] => [] | s :: r => sub_request i s :: sub_requests (i + 1) r end.

Record naming := mkNaming { nm_signals : amap; nm_ios : amap; nm_subs : list name; nm_assigned : list name }.

Definition assign_names (tports : list tport) (sigs ios : list (Z * name)) (subs : list (option name * name))
  : option naming :=
  match reserve_ports tports with
  | (a0, sn0, ion0) =>
    match name_conns true a0 sn0 sigs with
    | None => None
    | Some (a1, sn1) =>
      match name_conns false a1 ion0 ios with
      | None => None
      | Some (a2, ion1) =>
        match add_names a2 (sub_requests 0 subs) with
        | None => None
        | Some (sub_out, a3) => Some (mkNaming sn1 ion1 sub_out a3)
        end
      end
    end
  end.

(* ------------------------------------------------------------------ (3) build plans *)
Inductive content := CStr (s : name) | CBytes (b : list Z).
Definition files := list (name * content).          (* BuildPlan.files: OrderedDict in insertion order *)

(* str.encode("utf-8") for code points below 0x110000 that are not surrogates *)
Definition utf8_cp (c : Z) : list Z :=
  if c <? 128 then [c]
  else if c <? 2048 then [192 + c / 64; 128 + c mod 64]
  else if c <? 65536 then [224 + c / 4096; 128 + (c / 64) mod 64; 128 + c mod 64]
  else [240 + c / 262144; 128 + (c / 4096) mod 64; 128 + (c / 64) mod 64; 128 + c mod 64].
Definition utf8 (s : name) : list Z := flat_map utf8_cp s.
Definition content_bytes (c : content) : list Z := match c with CStr s => utf8 s | CBytes b => b end.

Fixpoint flookup (k : name) (fs : files) : option content :=
  match fs with [] => None | (k', c) :: r => if name_eqb k k' then Some c else flookup k r end.
Definition fcontent (k : name) (fs : files) : list Z :=
  match flookup k fs with Some c => content_bytes c | None => [] end.

(* BuildPlan.add_file: `assert filename not in self.files` (absolute paths are not modelled) *)
Definition add_file (fs : files) (k : name) (c : content) : option files :=
  if mem k (map fst fs) then None else Some (fs ++ [(k, c)]).

(* the members visited by digest() and archive(): `for filename in sorted(self.files)` *)
Definition members (fs : files) : list (name * list Z) :=
  map (fun k => (k, fcontent k fs)) (sort (map fst fs)).
(* the byte string fed to the hasher by digest() *)
Definition digest_input (fs : files) (script : name) : list Z :=
  flat_map (fun m => utf8 (fst m) ++ snd m) (members fs) ++ utf8 script.
(* archive(): one zip member per entry of `members`, ZipInfo default date (1980,1,1,0,0,0), stored *)
Definition archive_members (fs : files) : list (name * list Z) := members fs.

(* extract(): `for filename, content in self.files.items(): open(filename, "wb").write(content)`;
   the directory is a map from path to bytes; writing an existing path replaces it *)
Definition dir := list (name * list Z).
Fixpoint dwrite (k : name) (b : list Z) (d : dir) : dir :=
  match d with
  | [] => [(k, b)]
  | (k', b') :: r => if name_eqb k k' then (k, b) :: r else (k', b') :: dwrite k b r
  end.
Definition extract (d : dir) (fs : files) : dir :=
  fold_left (fun d f => dwrite (fst f) (content_bytes (snd f)) d) fs d.
Definition plan_dir (fs : files) : dir := map (fun f => (fst f, content_bytes (snd f))) fs.

(* add_file in full: `assert ... filename not in self.files`, then ValueError for a path that is absolute
   for PurePosixPath (leading "/") or PureWindowsPath (ntpath.splitroot: ANY one character, ":", then "/" or
   "\\"; names starting with a backslash — UNC paths — are not modelled) *)
Definition is_abs (k : name) : bool :=
  match k with
  | 47 :: _ => true
  | _ :: 58 :: sep :: _ => (sep =? 47) || (sep =? 92)
  | _ => false
  end.
Inductive fres := FOk (fs : files) | FAssert | FValue.
Definition add_file_checked (fs : files) (k : name) (c : content) : fres :=
  if mem k (map fst fs) then FAssert else if is_abs k then FValue else FOk (fs ++ [(k, c)]).

(* extract() in full: `assert not filename.is_absolute() and ".." not in filename.parts` before each file
   (files before the offending one are already written); parts = the name split at "/" *)
Fixpoint split_at (sep : Z) (cur : name) (k : name) : list name :=
  match k with
  | [] => [rev cur]
  | c :: r => if c =? sep then rev cur :: split_at sep [] r else split_at sep (c :: cur) r
  end.
Definition has_dotdot (k : name) : bool := existsb (fun p => name_eqb p [46; 46]) (split_at 47 [] k).
Fixpoint extract_checked (d : dir) (fs : files) : option dir :=
  match fs with
  | [] => Some d
  | (k, c) :: r => if is_abs k || has_dotdot k then None else extract_checked (dwrite k (content_bytes c) d) r
  end.

(* ------------------------------------------------------------------ (4) Simulator.reset() *)
(* per-slot state; *_wakers is the number of registered waker closures (never touched by reset) *)
Record sigslot := mkSig { sg_init : Z; sg_curr : Z; sg_next : Z; sg_wakers : Z }.
Record memslot := mkMem { mm_init : list Z; mm_data : list Z; mm_wq : list (Z * Z); mm_wakers : Z }.
Inductive slot := SSig (s : sigslot) | SMem (m : memslot).

(* processes: compiled RTL process, clock driver, async process/testbench.
   PAsync: waits_on = id of the trigger awaited or -1; pc = 0 for a coroutine that has not started. *)
Inductive proc :=
| PRtl (is_comb runnable critical : bool)
| PClock (phase period : Z) (runnable critical initial : bool)
| PAsync (background runnable critical first_await : bool) (waits_on pc : Z).

Record engine := mkEng {
  e_slots : list slot;
  e_pending : list Z;            (* _PyEngineState.pending: slot indices *)
  e_now : Z;                     (* timeline.now (fs) *)
  e_wakers : list (Z * Z);       (* timeline.wakers: (closure id, deadline) *)
  e_procs : list proc;           (* PySimEngine._processes *)
  e_tbs : list proc;             (* PySimEngine._testbenches *)
  e_delta : Z;                   (* _delta_cycles        — not reset (only used for VCD time stamps) *)
  e_active : list Z;             (* _active_triggers     — cleared by reset() since fix 3953703 (S5) *)
  e_running : bool               (* Simulator._running *)
}.

Definition reset_slot (s : slot) : slot :=
  match s with
  | SSig g => SSig (mkSig (sg_init g) (sg_init g) (sg_init g) (sg_wakers g))
  | SMem m => SMem (mkMem (mm_init m) (mm_init m) [] (mm_wakers m))
  end.
Definition reset_proc (p : proc) : proc :=
  match p with
  | PRtl c _ _ => PRtl c c false
  | PClock ph pe _ _ _ => PClock ph pe true false true
  | PAsync bg _ _ _ _ _ => PAsync bg true (negb bg) true (-1) 0
  end.
(* Simulator.reset -> PySimEngine.reset -> _PyEngineState.reset (timeline, slots, pending),
   _active_triggers.clear(), processes, testbenches *)
Definition reset (e : engine) : engine :=
  mkEng (map reset_slot (e_slots e)) [] 0 [] (map reset_proc (e_procs e)) (map reset_proc (e_tbs e))
        (e_delta e) [] false.
(* PySimEngine.reset before 3953703: _active_triggers was left alone *)
Definition reset_keeping_triggers (e : engine) : engine :=
  mkEng (map reset_slot (e_slots e)) [] 0 [] (map reset_proc (e_procs e)) (map reset_proc (e_tbs e))
        (e_delta e) (e_active e) false.

(* the engine as the constructors leave it for the same design, clocks, processes and testbenches *)
Definition fresh_slot (s : slot) : slot :=
  match s with
  | SSig g => SSig (mkSig (sg_init g) (sg_init g) (sg_init g) 0)
  | SMem m => SMem (mkMem (mm_init m) (mm_init m) [] 0)
  end.
Definition fresh (e : engine) : engine :=
  mkEng (map fresh_slot (e_slots e)) [] 0 [] (map reset_proc (e_procs e)) (map reset_proc (e_tbs e)) 0 [] false.

(* what a testbench / the user can observe of an engine state and what determines the values computed
   from it: signal values, memory rows and queued writes, pending set, time, scheduled wake-ups,
   active triggers, process flags and coroutine positions, clock phases.  Left out: _delta_cycles (VCD
   time stamps only) and the waker lists of the slots (stale closures switch themselves off). *)
Definition obs_slot (s : slot) : list Z * list Z * list (Z * Z) :=
  match s with
  | SSig g => ([0; sg_init g; sg_curr g; sg_next g], [], [])
  | SMem m => (1 :: mm_init m, mm_data m, mm_wq m)
  end.
Record observation := mkObs {
  o_slots : list (list Z * list Z * list (Z * Z)); o_pending : list Z; o_now : Z; o_wakers : list (Z * Z);
  o_procs : list proc; o_tbs : list proc; o_active : list Z; o_running : bool }.
Definition observe (e : engine) : observation :=
  mkObs (map obs_slot (e_slots e)) (e_pending e) (e_now e) (e_wakers e) (e_procs e) (e_tbs e) (e_active e)
        (e_running e).

(* Why _active_triggers matters, on the timeline alone.  A stale trigger left in
   _active_triggers is run by the first step_design(): _PyTriggerState.run re-arms its delay wakers
   (`set_delay_waker(interval, waker)`), so the timeline of the rerun has one more deadline.
   `stops fuel now wakers`: the successive values of timeline.now over `fuel` calls of advance()
   (nearest deadline; all wakers at that deadline are removed). *)
Definition nearest (ws : list Z) : option Z :=
  fold_left (fun o d => match o with None => Some d | Some m => Some (Z.min m d) end) ws None.
Fixpoint stops (fuel : nat) (ws : list Z) : list Z :=
  match fuel with
  | O => []
  | S f => match nearest ws with
           | None => []
           | Some d => d :: stops f (filter (fun x => negb (x =? d)) ws)
           end
  end.
(* deadlines after the first step_design(): the fresh ones plus one per (stale trigger, interval) *)
Definition rearm (now : Z) (stale : list Z) (ws : list Z) : list Z := ws ++ map (fun i => now + i) stale.

(* A concrete step function for the rerun theorem: _PyEngineState.commit (every pending signal takes its
   next value, every pending memory applies its write queue) followed by _PyTimeline.advance (time moves to
   the nearest deadline, whose wakers are removed).  The process bodies between two commits are compiled
   user code (the subject of C08's Engine model) and are not part of this instance. *)
Fixpoint write_row (a : nat) (v : Z) (data : list Z) : list Z :=
  match data, a with
  | [], _ => []
  | _ :: r, O => v :: r
  | x :: r, S a' => x :: write_row a' v r
  end.
Definition apply_wq (wq : list (Z * Z)) (data : list Z) : list Z :=
  fold_left (fun d w => write_row (Z.to_nat (fst w)) (snd w) d) wq data.
Definition commit_slot (s : slot) : slot :=
  match s with
  | SSig g => SSig (mkSig (sg_init g) (sg_next g) (sg_next g) (sg_wakers g))
  | SMem m => SMem (mkMem (mm_init m) (apply_wq (mm_wq m) (mm_data m)) [] (mm_wakers m))
  end.
Fixpoint commit_from (i : Z) (pend : list Z) (ss : list slot) : list slot :=
  match ss with
  | [] => []
  | s :: r => (if existsb (Z.eqb i) pend then commit_slot s else s) :: commit_from (i + 1) pend r
  end.
Definition step_commit_advance (e : engine) : engine :=
  let slots := commit_from 0 (e_pending e) (e_slots e) in
  match nearest (map snd (e_wakers e)) with
  | None => mkEng slots [] (e_now e) (e_wakers e) (e_procs e) (e_tbs e) (e_delta e + 1) (e_active e) (e_running e)
  | Some d => mkEng slots [] d (filter (fun w => negb (snd w =? d)) (e_wakers e)) (e_procs e) (e_tbs e)
                    (e_delta e + 1) (e_active e) (e_running e)
  end.
Definition out_values (e : engine) : list Z :=
  e_now e :: flat_map (fun s => match s with SSig g => [sg_curr g] | SMem m => mm_data m end) (e_slots e).

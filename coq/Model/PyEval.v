(* PyEval.v — model of amaranth/sim/_pyeval.py eval_value (tree-walking evaluator used by testbenches).
   No proofs here. *)
From Coq Require Import ZArith List Bool.
From V.Model Require Import Bits Shape Ast Denote.
Import ListNotations.
Open Scope Z_scope.

Definition tb_op1 (o : op1) (sa : shape) (a : Z) : Z :=
  let so := op1_shape o sa in
  match o with
  | OU | OS =>
      let width := width so in
      let res := Z.land a (Z.shiftl 1 width - 1) in
      match o with
      | OS => if negb (Z.land res (Z.shiftl 1 (width - 1)) =? 0) then Z.lor res (Z.shiftl (-1) (width - 1)) else res
      | _ => res
      end
  | ONeg => - a
  | ONot => if sgn so then Z.lnot a else Z.land (Z.lnot a) (Z.shiftl 1 (width so) - 1)
  | OBool | ORor => b2z (negb (a =? 0))
  | ORand => let m := Z.shiftl 1 (width sa) - 1 in b2z (Z.land a m =? m)
  | ORxor => let m := Z.shiftl 1 (width sa) - 1 in parity (Z.land a m)
  end.

Definition tb_op2 (o : op2) (a b : Z) : Z :=
  match o with
  | OOr => Z.lor a b
  | OAnd => Z.land a b
  | OXor => Z.lxor a b
  | OAdd => a + b
  | OSub => a - b
  | OMul => a * b
  | ODiv => if b =? 0 then 0 else a / b
  | OMod => if b =? 0 then 0 else a mod b
  | OShl => Z.shiftl a b
  | OShr => Z.shiftr a b
  | OEq => b2z (a =? b)
  | ONe => b2z (negb (a =? b))
  | OLt => b2z (a <? b)
  | OLe => b2z (a <=? b)
  | OGt => b2z (b <? a)
  | OGe => b2z (b <=? a)
  end.

(* Concat branch: res |= (part & mask) << pos *)
Fixpoint tb_cat (ps : list (Z * Z)) (res pos : Z) : Z :=
  match ps with
  | [] => res
  | (v, w) :: r => tb_cat r (Z.lor res (Z.shiftl (Z.land v (Z.shiftl 1 w - 1)) pos)) (pos + w)
  end.

(* _eval_matches on normalised (string) patterns *)
Definition tb_case_match (t : Z) (ps : option (list pattern)) : bool := case_match t ps.

Fixpoint tb_switch (t : Z) (cs : list (option (list pattern) * Z)) : Z :=
  match cs with
  | [] => 0
  | (ps, v) :: r => if tb_case_match t ps then v else tb_switch t r
  end.

Fixpoint eval_tb (en : env) (e : expr) : Z :=
  match e with
  | EConst v s => const_norm s v
  | ESig i _ => en i
  | EOp1 o a => tb_op1 o (shape_of a) (eval_tb en a)
  | EOp2 o a b => tb_op2 o (eval_tb en a) (eval_tb en b)
  | ESlice a lo hi => Z.land (Z.shiftr (eval_tb en a) lo) (Z.shiftl 1 (hi - lo) - 1)
  | EPart a off w stride =>
      Z.land (Z.shiftr (eval_tb en a) (eval_tb en off * stride)) (Z.shiftl 1 w - 1)
  | ECat parts => tb_cat (map (fun p => (eval_tb en p, ewidth p)) parts) 0 0
  | ESwitch test cases =>
      tb_switch (eval_tb en test) (map (fun c => (fst c, eval_tb en (snd c))) cases)
  end.

(* Process.v — per-domain RTL processes as compiled by _FragmentCompiler (sim/_pyrtl.py) for fragments
   without memories, the LHS mask collector (hdl/_xfrm.py LHSMaskCollector) and the signal slot
   (sim/pysim.py _PySignalState: curr / next / masked update / commit).  No proofs here. *)
From Coq Require Import ZArith List Bool.
From V.Model Require Import Bits Shape Ast Denote PyRTL PyEval Stmt.
Import ListNotations.
Open Scope Z_scope.

(* ---------- LHSMaskCollector ---------- *)
Definition maskmap := nat -> Z.
Definition mm_or (m : maskmap) (i : nat) (v : Z) : maskmap := fun j => if Nat.eqb j i then Z.lor (m j) v else m j.

Fixpoint lhs_mask (e : expr) (mask : Z) (acc : maskmap) : maskmap :=
  match e with
  | ESig i s => mm_or acc i (Z.land mask (Z.shiftl 1 (width s) - 1))
  | EOp1 OU a | EOp1 OS a => lhs_mask a mask acc
  | ESlice a lo hi => lhs_mask a (Z.land (Z.shiftl mask lo) (Z.shiftl 1 hi - Z.shiftl 1 lo)) acc
  | EPart a _ _ _ => lhs_mask a (-1) acc          (* Part => whole operand *)
  | ECat parts =>
      (fix go (ps : list expr) (mask : Z) (acc : maskmap) : maskmap :=
         match ps with
         | [] => acc
         | p :: ps' => go ps' (Z.shiftr mask (ewidth p)) (lhs_mask p mask acc)
         end) parts mask acc
  | ESwitch _ cs =>
      (fix go (cs : list (option (list pattern) * expr)) (acc : maskmap) : maskmap :=
         match cs with
         | [] => acc
         | c :: cs' => go cs' (lhs_mask (snd c) mask acc)
         end) cs acc
  | _ => acc
  end.

Fixpoint stmt_mask (s : stmt) (acc : maskmap) : maskmap :=
  match s with
  | SAssign lhs _ => lhs_mask lhs (-1) acc
  | SSwitch _ cs =>
      (fix go (cs : list (option (list pattern) * list stmt)) (acc : maskmap) : maskmap :=
         match cs with
         | [] => acc
         | c :: cs' => go cs' ((fix run (ss : list stmt) (acc : maskmap) : maskmap :=
                                  match ss with [] => acc | s' :: ss' => run ss' (stmt_mask s' acc) end) (snd c) acc)
         end) cs acc
  end.

Definition stmts_mask (ss : list stmt) : maskmap :=
  fold_left (fun acc s => stmt_mask s acc) ss (fun _ => 0).

(* the mask handed to update(): sign bits included for signed signals whose MSB is driven *)
Definition update_mask (s : shape) (mask : Z) : Z :=
  if sgn s && Z.testbit mask (width s - 1) then Z.lor mask (Z.shiftl (-1) (width s)) else mask.

(* ---------- slots ---------- *)
Record slots := { s_curr : env; s_next : env }.

(* _PySignalState.update(value, mask): next = (next & ~mask) | (value & mask) *)
Definition slot_update (old value mask : Z) : Z := Z.lor (Z.land old (Z.lnot mask)) (Z.land value mask).

(* per-signal description of a design: shape, init, reset_less *)
Record sigdesc := { sd_shape : shape; sd_init : Z; sd_reset_less : bool }.
Definition sigtab := nat -> sigdesc.

(* comb process: next_i = init for every driven signal; statements read curr; masked update *)
Definition comb_process (tab : sigtab) (ss : list stmt) (st : slots) : slots :=
  let m := stmts_mask ss in
  let nx0 : env := fun i => if m i =? 0 then s_next st i else sd_init (tab i) in
  let nx1 := exec_rtl_list (s_curr st) ss nx0 in
  {| s_curr := s_curr st;
     s_next := fun i => if m i =? 0 then s_next st i
                        else slot_update (s_next st i) (nx1 i) (update_mask (sd_shape (tab i)) (m i)) |}.

(* sync process (run when its clock edge / async reset fires): next_i = slots.next; statements; reset *)
Definition sync_process (tab : sigtab) (ss : list stmt) (rst : option nat) (st : slots) : slots :=
  let m := stmts_mask ss in
  let nx0 : env := s_next st in
  let nx1 := exec_rtl_list (s_curr st) ss nx0 in
  let rst_on := match rst with
                | Some r => negb (Z.land 1 (s_curr st r) =? 0)
                | None => false
                end in
  let nx2 : env := fun i => if rst_on && negb (m i =? 0) && negb (sd_reset_less (tab i))
                            then sd_init (tab i) else nx1 i in
  {| s_curr := s_curr st;
     s_next := fun i => if m i =? 0 then s_next st i
                        else slot_update (s_next st i) (nx2 i) (update_mask (sd_shape (tab i)) (m i)) |}.

(* commit of every pending slot *)
Definition commit (st : slots) : slots := {| s_curr := s_next st; s_next := s_next st |}.

(* Nir.v — the two whole-design checks of the netlist emitter (amaranth/hdl/_ir.py, _nir.py, _dsl.py):
   Part I  drivers:  emit_assign (which bit ranges an assignment target contributes to a NetlistDriver),
                     the preorder walk of the fragment tree (module indices, per-(module, domain) drivers,
                     instance / read-port / IO-buffer outputs connected at once), emit_drivers
                     (`len(sig_drivers) == 1` shortcut, per-bit `driven_bits`, connect()), emit_top_ports,
                     and the early per-module check of Module._add_statement (LHSMaskCollector masks).
   Part II cycles:   every cell kind's comb_edges_to / comb_edges_is_per_bit / output_nets and the 3-colour
                     DFS of Netlist.check_comb_cycles (checked / busy sets, extra_nets merging) on nat fuel.
   The SPEC predicates (addr / may_drive / conflict, edge / cyclic) are at the end of each part.
   No proofs here. *)
From Coq Require Import ZArith List Bool Arith Cantor.
Import ListNotations.

(* ================================================================================================ *)
(* Part I — drivers                                                                                 *)
(* ================================================================================================ *)

(* An assignment target, abstracted to what addressing needs: signal id and width; Slice; Part with the
   WIDTH of its offset operand (the selector is a free value of that many bits), its own width and stride;
   Concat; SwitchValue (array element) with its width and element targets; the transparent u / s casts. *)
Inductive tgt :=
| TSig (s w : nat)
| TCast (a : tgt)
| TSlice (a : tgt) (lo hi : nat)
| TPart (a : tgt) (offw w stride : nat)
| TCat (parts : list tgt)
| TSwitch (w : nat) (elems : list tgt).

Fixpoint tlen (t : tgt) : nat :=
  match t with
  | TSig _ w => w
  | TCast a => tlen a
  | TSlice _ lo hi => hi - lo
  | TPart _ _ w _ => w
  | TCat ps => fold_right (fun p acc => tlen p + acc) 0 ps
  | TSwitch w _ => w
  end.

(* what the constructors / ArrayProxy lowering guarantee *)
Fixpoint wf_tgt (t : tgt) : bool :=
  match t with
  | TSig _ _ => true
  | TCast a => wf_tgt a
  | TSlice a lo hi => wf_tgt a && (lo <=? hi) && (hi <=? tlen a)
  | TPart a _ _ st => wf_tgt a && (1 <=? st)
  | TCat ps => forallb wf_tgt ps
  | TSwitch w es => forallb (fun e => wf_tgt e && (tlen e <=? w)) es
  end.

(* _nir.Assignment kept by a NetlistDriver: signal (id, width), start, len(value) *)
Record arec := AR { a_sig : nat; a_w : nat; a_start : nat; a_len : nat }.

(* NetlistEmitter.emit_assign(lhs, lhs_start, rhs) with len(rhs) = len; conditions are irrelevant here *)
Fixpoint emit_assign (t : tgt) (start len : nat) : list arec :=
  match t with
  | TSig s w => [AR s w start len]
  | TCast a => emit_assign a start len
  | TSlice a lo _ => emit_assign a (start + lo) len
  | TCat ps =>
      (fix go (ps : list tgt) (part_stop : nat) : list arec :=
         match ps with
         | [] => []
         | p :: ps' =>
             let part_start := part_stop in
             let part_stop := part_start + tlen p in
             if part_stop <=? start then go ps' part_stop
             else if start + len <=? part_start then go ps' part_stop
             else
               let part_lhs_start := if start <? part_start then 0 else start - part_start in
               let part_rhs_start := if start <? part_start then part_start - start else 0 in
               let part_rhs_stop := if part_stop <=? start + len then part_stop - start else len in
               emit_assign p part_lhs_start (part_rhs_stop - part_rhs_start) ++ go ps' part_stop
         end) ps 0
  | TPart a offw _ st =>
      let width := tlen a in
      let num_cases := Nat.min ((width + st - 1) / st) (2 ^ offw) in
      flat_map (fun idx =>
                  let s0 := start + idx * st in
                  if width <=? s0 then []
                  else emit_assign a s0 (if width <=? s0 + len then width - s0 else len))
               (seq 0 num_cases)
  | TSwitch _ es =>
      (* `if lhs_start >= len(val): continue`, `rhs[:len(val) - lhs_start]` (repo 961f42e) *)
      flat_map (fun e => if tlen e <=? start then [] else emit_assign e start (Nat.min len (tlen e - start))) es
  end.

(* emit_lhs (instance outputs, read-port data, IO buffer `i`): Signal / Concat / Slice / u,s only *)
Fixpoint lhs_bits (t : tgt) : list (nat * nat) :=
  match t with
  | TSig s w => map (fun b => (s, b)) (seq 0 w)
  | TCast a => lhs_bits a
  | TSlice a lo hi => firstn (hi - lo) (skipn lo (lhs_bits a))
  | TCat ps => flat_map lhs_bits ps
  | _ => []
  end.

(* A design: tree of fragments.  A module holds its statements in PROGRAM order as (domain, target)
   (domain 0 = comb) — Module._statements groups them per domain in first-use order — and its
   subfragments in order; FOut is an Instance / MemoryInstance read port / IOBufferInstance whose
   outputs are connected to signal bits by emit_lhs + connect. *)
Inductive frag :=
| FMod (stmts : list (nat * tgt)) (subs : list frag)
| FOut (outs : list tgt).

Inductive pdir := PNone | PIn | POut.
Record design := Design { d_top : frag; d_ports : list (nat * nat * pdir) (* signal, width, direction *) }.

(* Module._statements.setdefault(domain, []).append(stmt): dict in first-use order *)
Fixpoint dom_insert (dm : nat) (t : tgt) (acc : list (nat * list tgt)) : list (nat * list tgt) :=
  match acc with
  | [] => [(dm, [t])]
  | (d', ts) :: r => if Nat.eqb d' dm then (d', ts ++ [t]) :: r else (d', ts) :: dom_insert dm t r
  end.
Definition group_by_domain (stmts : list (nat * tgt)) : list (nat * list tgt) :=
  fold_left (fun acc st => dom_insert (fst st) (snd st) acc) stmts [].

(* what emit_fragment does, in order: *)
Inductive ev :=
| EvAssign (m dm : nat) (r : arec)                 (* emit_assign reached a Signal, in module m, domain dm *)
| EvOut (bits : list (nat * nat)).                 (* connect(emit_lhs(...)) of one output *)

Definition stmt_events (m dm : nat) (t : tgt) : list ev :=
  map (EvAssign m dm) (emit_assign t 0 (tlen t)).

(* preorder walk; `next` is len(netlist.modules) *)
Fixpoint walk (f : frag) (next : nat) : list ev * nat :=
  match f with
  | FOut outs => (map (fun t => EvOut (lhs_bits t)) outs, next)
  | FMod stmts subs =>
      let m := next in
      let own := flat_map (fun g => flat_map (stmt_events m (fst g)) (snd g)) (group_by_domain stmts) in
      (fix go (subs : list frag) (acc : list ev) (next : nat) : list ev * nat :=
         match subs with
         | [] => (acc, next)
         | s :: subs' => let '(e, next') := walk s next in go subs' (acc ++ e) next'
         end) subs own (S m)
  end.

Definition bit := (nat * nat)%type.
Definition bit_eqb (a b : bit) : bool := Nat.eqb (fst a) (fst b) && Nat.eqb (snd a) (snd b).
Definition bmem (x : bit) (l : list bit) : bool := existsb (bit_eqb x) l.

(* raised DriverConflict: which check fired, on which signal bit *)
Inductive derr :=
| ErrConnect (s b : nat)       (* connect(): "Bit b of signal s has multiple drivers" *)
| ErrDomain (s b : nat)        (* emit_drivers: "driven from domain ... and domain ..." *)
| ErrModule (s b : nat).       (* emit_drivers: "driven from module ... and module ..." *)

(* connect(lhs, rhs): netlist.connections as the list of connected late nets *)
Fixpoint connect (bits : list bit) (conns : list bit) : list bit + derr :=
  match bits with
  | [] => inl conns
  | x :: r => if bmem x conns then inr (ErrConnect (fst x) (snd x)) else connect r (x :: conns)
  end.

(* self.drivers: SignalDict signal -> dict (module, domain) -> assignments; insertion-ordered *)
Definition drv := ((nat * nat) * list arec)%type.
Definition sigdrv := ((nat * nat) * list drv)%type.     (* (signal, width), drivers *)

Fixpoint drv_add (key : nat * nat) (r : arec) (ds : list drv) : list drv :=
  match ds with
  | [] => [(key, [r])]
  | (k, rs) :: rest =>
      if Nat.eqb (fst k) (fst key) && Nat.eqb (snd k) (snd key) then (k, rs ++ [r]) :: rest
      else (k, rs) :: drv_add key r rest
  end.
Fixpoint sig_add (s w : nat) (key : nat * nat) (r : arec) (tab : list sigdrv) : list sigdrv :=
  match tab with
  | [] => [((s, w), [(key, [r])])]
  | ((s', w'), ds) :: rest =>
      if Nat.eqb s' s then ((s', w'), drv_add key r ds) :: rest
      else ((s', w'), ds) :: sig_add s w key r rest
  end.

(* phase 1: the walk; outputs connect immediately, assignments accumulate *)
Fixpoint run_events (es : list ev) (conns : list bit) (tab : list sigdrv) : (list bit * list sigdrv) + derr :=
  match es with
  | [] => inl (conns, tab)
  | EvOut bits :: r =>
      match connect bits conns with
      | inl conns' => run_events r conns' tab
      | inr e => inr e
      end
  | EvAssign m dm rec :: r => run_events r conns (sig_add (a_sig rec) (a_w rec) (m, dm) rec tab)
  end.

Definition covers (b : nat) (r : arec) : bool := (a_start r <=? b) && (b <? a_start r + a_len r).

(* the inner loops of emit_drivers over one driver's assignments: driven_bits : bit -> (module, domain) *)
Fixpoint mark_bits (s : nat) (key : nat * nat) (bits : list nat) (db : list (nat * (nat * nat)))
  : list (nat * (nat * nat)) + derr :=
  match bits with
  | [] => inl db
  | b :: r =>
      match find (fun p => Nat.eqb (fst p) b) db with
      | Some (_, (om, od)) =>
          if negb (Nat.eqb od (snd key)) then inr (ErrDomain s b)
          else if negb (Nat.eqb om (fst key)) then inr (ErrModule s b)
          else mark_bits s key r db
      | None => mark_bits s key r ((b, key) :: db)
      end
  end.
Fixpoint mark_assigns (s : nat) (key : nat * nat) (rs : list arec) (db : list (nat * (nat * nat)))
  : list (nat * (nat * nat)) + derr :=
  match rs with
  | [] => inl db
  | r :: rs' =>
      match mark_bits s key (seq (a_start r) (a_len r)) db with
      | inl db' => mark_assigns s key rs' db'
      | inr e => inr e
      end
  end.

(* one signal of emit_drivers *)
Fixpoint emit_sig_drivers (s w : nat) (n_drivers : nat) (ds : list drv) (db : list (nat * (nat * nat)))
                          (conns : list bit) : list bit + derr :=
  match ds with
  | [] => inl conns
  | (key, rs) :: rest =>
      let all := seq 0 w in
      if Nat.eqb n_drivers 1 && existsb (fun r => 0 <? a_len r) rs
         && forallb (fun b => negb (bmem (s, b) conns)) all then
        (* sole driver that assigns at least one bit (`any(len(assign.value) ...)`, repo fix of
           C06-zero-width-driver-vs-input-port), no instance-driven bit: the driver covers the whole signal;
           a driver all of whose targets are zero-width takes the per-bit branch and connects nothing *)
        match connect (map (fun b => (s, b)) all) conns with
        | inl conns' => emit_sig_drivers s w n_drivers rest db conns'
        | inr e => inr e
        end
      else
        match mark_assigns s key rs db with
        | inr e => inr e
        | inl db' =>
            (* driver_chunks, ascending; connect(lhs[chunk]) per chunk *)
            let mine := filter (fun b => existsb (covers b) rs) all in
            match connect (map (fun b => (s, b)) mine) conns with
            | inl conns' => emit_sig_drivers s w n_drivers rest db' conns'
            | inr e => inr e
            end
        end
  end.

Fixpoint emit_drivers (tab : list sigdrv) (conns : list bit) : list bit + derr :=
  match tab with
  | [] => inl conns
  | ((s, w), ds) :: rest =>
      match emit_sig_drivers s w (length ds) ds [] conns with
      | inl conns' => emit_drivers rest conns'
      | inr e => inr e
      end
  end.

(* emit_top_ports: dir None becomes Input unless some bit is already driven *)
Fixpoint emit_top_ports (ports : list (nat * nat * pdir)) (conns : list bit) : list bit + derr :=
  match ports with
  | [] => inl conns
  | (s, w, dir) :: rest =>
      let bits := map (fun b => (s, b)) (seq 0 w) in
      let is_input := match dir with
                      | PIn => true
                      | POut => false
                      | PNone => negb (existsb (fun x => bmem x conns) bits)
                      end in
      if is_input then
        match connect bits conns with
        | inl conns' => emit_top_ports rest conns'
        | inr e => inr e
        end
      else emit_top_ports rest conns
  end.

Definition driver_table (d : design) : option derr :=
  match run_events (fst (walk (d_top d) 0)) [] [] with
  | inr e => Some e
  | inl (conns, tab) =>
      match emit_drivers tab conns with
      | inr e => Some e
      | inl conns' =>
          match emit_top_ports (d_ports d) conns' with
          | inr e => Some e
          | inl _ => None
          end
      end
  end.

(* ---------- the early check of Module._add_statement (one module, statements in program order) ---------- *)
Open Scope Z_scope.
(* LHSMaskCollector.visit_value(value, mask): insertion-ordered signal -> mask *)
Fixpoint mask_or (s w : nat) (m : Z) (acc : list (nat * nat * Z)) : list (nat * nat * Z) :=
  match acc with
  | [] => [(s, w, m)]
  | (s', w', m') :: r => if Nat.eqb s' s then (s', w', Z.lor m' m) :: r else (s', w', m') :: mask_or s w m r
  end.
Fixpoint lhs_mask (t : tgt) (mask : Z) (acc : list (nat * nat * Z)) : list (nat * nat * Z) :=
  match t with
  | TSig s w => mask_or s w (Z.land mask (Z.shiftl 1 (Z.of_nat w) - 1)) acc
  | TCast a => lhs_mask a mask acc
  | TSlice a lo hi =>
      lhs_mask a (Z.land (Z.shiftl mask (Z.of_nat lo)) (Z.shiftl 1 (Z.of_nat hi) - Z.shiftl 1 (Z.of_nat lo))) acc
  | TPart a _ _ _ => lhs_mask a (-1) acc        (* "Could be more accurate, but ..." *)
  | TCat ps =>
      (fix go (ps : list tgt) (mask : Z) (acc : list (nat * nat * Z)) :=
         match ps with
         | [] => acc
         | p :: ps' => go ps' (Z.shiftr mask (Z.of_nat (tlen p))) (lhs_mask p mask acc)
         end) ps mask acc
  | TSwitch _ es =>
      (fix go (es : list tgt) (acc : list (nat * nat * Z)) :=
         match es with
         | [] => acc
         | e :: es' => go es' (lhs_mask e mask acc)
         end) es acc
  end.
Close Scope Z_scope.

(* self._driving : signal -> per-bit domain *)
Fixpoint early_bits (s : nat) (dm : nat) (mask : Z) (bits : list nat) (drv : list (bit * nat))
  : list (bit * nat) + bit :=
  match bits with
  | [] => inl drv
  | b :: r =>
      if Z.testbit mask (Z.of_nat b) then
        match find (fun p => bit_eqb (fst p) (s, b)) drv with
        | Some (_, d') => if Nat.eqb d' dm then early_bits s dm mask r drv else inr (s, b)
        | None => early_bits s dm mask r (((s, b), dm) :: drv)
        end
      else early_bits s dm mask r drv
  end.
Fixpoint early_masks (dm : nat) (ms : list (nat * nat * Z)) (drv : list (bit * nat)) : list (bit * nat) + bit :=
  match ms with
  | [] => inl drv
  | (s, w, m) :: r =>
      match early_bits s dm m (seq 0 w) drv with
      | inl drv' => early_masks dm r drv'
      | inr e => inr e
      end
  end.
Fixpoint early_stmts (stmts : list (nat * tgt)) (drv : list (bit * nat)) : option bit :=
  match stmts with
  | [] => None
  | (dm, t) :: r =>
      match early_masks dm (lhs_mask t (-1)%Z []) drv with
      | inl drv' => early_stmts r drv'
      | inr e => Some e
      end
  end.
(* SyntaxError "Driver-driver conflict" raised while the module is being written *)
Definition early_conflict (stmts : list (nat * tgt)) : option bit := early_stmts stmts [].

(* first module (in construction order = preorder here) whose early check fires *)
Fixpoint early_design (f : frag) : option bit :=
  match f with
  | FOut _ => None
  | FMod stmts subs =>
      match early_conflict stmts with
      | Some e => Some e
      | None =>
          (fix go (subs : list frag) : option bit :=
             match subs with
             | [] => None
             | s :: subs' => match early_design s with Some e => Some e | None => go subs' end
             end) subs
      end
  end.

(* ---------- SPEC (drivers) ---------- *)
(* addr t k s b : position k of target t addresses bit b of signal s for SOME selector value *)
Fixpoint addr (t : tgt) (k : nat) (s b : nat) : Prop :=
  match t with
  | TSig s' w => s' = s /\ k = b /\ b < w
  | TCast a => addr a k s b
  | TSlice a lo hi => k + lo < hi /\ addr a (k + lo) s b
  | TPart a offw w st => k < w /\ exists o, o < 2 ^ offw /\ addr a (k + o * st) s b
  | TCat ps =>
      (fix go (ps : list tgt) (off : nat) : Prop :=
         match ps with
         | [] => False
         | p :: ps' => (off <= k /\ k < off + tlen p /\ addr p (k - off) s b) \/ go ps' (off + tlen p)
         end) ps 0
  | TSwitch _ es =>
      (fix go (es : list tgt) : Prop :=
         match es with
         | [] => False
         | e :: es' => (k < tlen e /\ addr e k s b) \/ go es'
         end) es
  end.
Definition may_drive (t : tgt) (s b : nat) : Prop := exists k, k < tlen t /\ addr t k s b.

(* the sources of a signal bit in a design *)
Inductive source :=
| SrcLogic (m dm : nat)        (* some assignment of module m, domain dm may address the bit *)
| SrcOut (k : nat)             (* the k-th connected output bit of the walk (instance / read port / buffer) *)
| SrcPort (k : nat).           (* the k-th port, declared Input *)

(* modules with their preorder index and statements; output bits in walk order *)
Fixpoint mods (f : frag) (next : nat) : list (nat * list (nat * tgt)) * nat :=
  match f with
  | FOut _ => ([], next)
  | FMod stmts subs =>
      (fix go (subs : list frag) (acc : list (nat * list (nat * tgt))) (next : nat) :=
         match subs with
         | [] => (acc, next)
         | s :: subs' => let '(l, next') := mods s next in go subs' (acc ++ l) next'
         end) subs [(next, stmts)] (S next)
  end.
Fixpoint out_bits (f : frag) : list bit :=
  match f with
  | FOut outs => flat_map lhs_bits outs
  | FMod _ subs => flat_map out_bits subs
  end.

Definition has_source (d : design) (x : bit) (src : source) : Prop :=
  match src with
  | SrcLogic m dm => exists stmts t, In (m, stmts) (fst (mods (d_top d) 0)) /\ In (dm, t) stmts
                                     /\ may_drive t (fst x) (snd x)
  | SrcOut k => nth_error (out_bits (d_top d)) k = Some x
  | SrcPort k => exists w, nth_error (d_ports d) k = Some (fst x, w, PIn) /\ snd x < w
                 (* (a dir=None port resolved to Input is counted by the computable n_sources only) *)
  end.
(* some bit has two different sources *)
Definition conflict (d : design) : Prop :=
  exists x s1 s2, s1 <> s2 /\ has_source d x s1 /\ has_source d x s2.

(* computable form of the SPEC (run by the harness next to driver_table; NirP.conflictb_iff) *)
Fixpoint addrb (t : tgt) (k s b : nat) : bool :=
  match t with
  | TSig s' w => Nat.eqb s' s && Nat.eqb k b && (b <? w)
  | TCast a => addrb a k s b
  | TSlice a lo hi => (k + lo <? hi) && addrb a (k + lo) s b
  | TPart a offw w st => (k <? w) && existsb (fun o => addrb a (k + o * st) s b) (seq 0 (2 ^ offw))
  | TCat ps =>
      (fix go (ps : list tgt) (off : nat) : bool :=
         match ps with
         | [] => false
         | p :: ps' => ((off <=? k) && (k <? off + tlen p) && addrb p (k - off) s b) || go ps' (off + tlen p)
         end) ps 0
  | TSwitch _ es => existsb (fun e => (k <? tlen e) && addrb e k s b) es
  end.
Definition may_driveb (t : tgt) (s b : nat) : bool := existsb (fun k => addrb t k s b) (seq 0 (tlen t)).

Fixpoint dedup (l : list nat) : list nat :=
  match l with
  | [] => []
  | x :: r => if existsb (Nat.eqb x) r then dedup r else x :: dedup r
  end.
Definition logic_sources (d : design) (x : bit) : list (nat * nat) :=
  flat_map (fun ms => map (fun dm => (fst ms, dm))
                          (dedup (map fst (filter (fun st => may_driveb (snd st) (fst x) (snd x)) (snd ms)))))
           (fst (mods (d_top d) 0)).
(* a port is a source of its signal's bits when it is an Input: declared so, or dir=None on a signal that nothing
   drives (no logic, no output) and that no earlier port already claimed *)
Definition n_inner (d : design) (x : bit) : nat :=
  length (logic_sources d x) + length (filter (bit_eqb x) (out_bits (d_top d))).
Fixpoint port_sources (d : design) (x : bit) (ports : list (nat * nat * pdir)) (seen : list nat) : nat :=
  match ports with
  | [] => 0
  | (s, w, dir) :: r =>
      (if Nat.eqb s (fst x) && (snd x <? w) &&
          match dir with
          | PIn => true
          | POut => false
          | PNone => negb (existsb (Nat.eqb s) seen)
                     && negb (existsb (fun b => 0 <? n_inner d (s, b)) (seq 0 w))
          end
       then 1 else 0) + port_sources d x r (s :: seen)
  end.
Definition n_sources (d : design) (x : bit) : nat :=
  n_inner d x + port_sources d x (d_ports d) [].
Fixpoint tgt_sigs (t : tgt) : list (nat * nat) :=
  match t with
  | TSig s w => [(s, w)]
  | TCast a => tgt_sigs a
  | TSlice a _ _ => tgt_sigs a
  | TPart a _ _ _ => tgt_sigs a
  | TCat ps => flat_map tgt_sigs ps
  | TSwitch _ es => flat_map tgt_sigs es
  end.
Fixpoint frag_sigs (f : frag) : list (nat * nat) :=
  match f with
  | FOut outs => flat_map tgt_sigs outs
  | FMod stmts subs => flat_map (fun st => tgt_sigs (snd st)) stmts ++ flat_map frag_sigs subs
  end.
Definition universe (d : design) : list bit :=
  flat_map (fun sw => map (fun b => (fst sw, b)) (seq 0 (snd sw)))
           (frag_sigs (d_top d) ++ map (fun p => (fst (fst p), snd (fst p))) (d_ports d)).
Definition conflictb (d : design) : bool := existsb (fun x => 2 <=? n_sources d x) (universe d).

(* ================================================================================================ *)
(* Part II — combinational cycles                                                                   *)
(* ================================================================================================ *)

(* Net: cell output (cell index, bit) — int (cell << 16) | bit, consts are 0.0 and 0.1 — or late net -l *)
Inductive net := NC (c b : nat) | NL (l : nat).
Definition net_eqb (x y : net) : bool :=
  match x, y with
  | NC c b, NC c' b' => Nat.eqb c c' && Nat.eqb b b'
  | NL l, NL l' => Nat.eqb l l'
  | _, _ => false
  end.
Definition nmem (x : net) (l : list net) : bool := existsb (net_eqb x) l.
Definition is_const (n : net) : bool := match n with NC 0 b => b <? 2 | _ => false end.

Inductive opk := KNot | KAnd | KOr | KXor | KMux | KOther.

Inductive cell :=
| CTop (ins : list (nat * nat))                       (* ports_i: (start, width) *)
| COperator (k : opk) (w : nat) (ins : list (list net))
| CPart (w : nat) (value offset : list net)
| CMatch (npat : nat) (en : net) (value : list net)
| CAssign (default : list net) (assigns : list (net * nat * list net))   (* cond, start, value *)
| CFlipFlop (w : nat) (clk arst : net)
| CAsyncRead (w : nat) (addr : list net)
| CSyncRead (w : nat)
| CInitial
| CAnyValue (w : nat)
| CInstance (outs : list (nat * nat))                 (* ports_o: (start, width) *)
| CIOB (is_input is_output : bool) (w : nat) (o : list net) (oe : net)
| CNoOut.                                             (* Memory, SyncWritePort, prints, properties *)

Definition nth_l {A} (l : list A) (i : nat) : list A :=
  match nth_error l i with Some x => [x] | None => [] end.

Definition bitwise2 (k : opk) : bool := match k with KAnd | KOr | KXor => true | _ => false end.

(* comb_edges_is_per_bit *)
Definition per_bit (c : cell) : bool :=
  match c with
  | COperator k _ [_] => match k with KNot => true | _ => false end
  | COperator k _ [_; _] => bitwise2 k
  | COperator _ _ [_; _; _] => true
  | CAssign _ _ => true
  | CIOB _ _ _ _ _ => true
  | _ => false
  end.

(* comb_edges_to(bit) *)
Definition comb_edges (c : cell) (bit : nat) : list net :=
  match c with
  | COperator k _ [a] => match k with KNot => nth_l a bit | _ => a end
  | COperator k _ [a; b] => if bitwise2 k then nth_l a bit ++ nth_l b bit else a ++ b
  | COperator _ _ [s; a; b] => nth_l s 0 ++ nth_l a bit ++ nth_l b bit
  | CPart _ value offset => value ++ offset
  | CMatch _ en value => en :: value
  | CAssign default assigns =>
      nth_l default bit ++
      flat_map (fun a => let '(cond, start, value) := a in
                         if (start <=? bit) && (bit <? start + length value)
                         then cond :: nth_l value (bit - start) else []) assigns
  | CFlipFlop _ clk arst => [clk; arst]
  | CAsyncRead _ addr => addr
  | CIOB is_input _ _ o oe => if is_input then [] else nth_l o bit ++ [oe]
  | _ => []
  end.

Definition ranges (l : list (nat * nat)) : list nat := flat_map (fun p => seq (fst p) (snd p)) l.

(* output_nets(self_idx), in ascending bit order *)
Definition outputs (c : cell) (idx : nat) : list net :=
  map (NC idx)
    match c with
    | CTop ins => ranges ins
    | COperator _ w _ => seq 0 w
    | CPart w _ _ => seq 0 w
    | CMatch npat _ _ => seq 0 npat
    | CAssign default _ => seq 0 (length default)
    | CFlipFlop w _ _ => seq 0 w
    | CAsyncRead w _ => seq 0 w
    | CSyncRead w => seq 0 w
    | CInitial => [0]
    | CAnyValue w => seq 0 w
    | CInstance outs => ranges outs
    | CIOB _ is_output w _ _ => if is_output then [] else seq 0 w
    | CNoOut => []
    end.

Record netlist := Netlist {
  cells : list cell;
  conn : list (nat * net);          (* connections: late net l -> net *)
  sigs : list (list net)            (* signals.values() *)
}.

Definition conn_of (g : netlist) (l : nat) : list net :=
  match find (fun p => Nat.eqb (fst p) l) (conn g) with Some p => [snd p] | None => [] end.

(* the nets `traverse` follows from a net *)
Definition succs (g : netlist) (n : net) : list net :=
  if is_const n then []
  else match n with
       | NL l => conn_of g l
       | NC c b => match nth_error (cells g) c with Some cl => comb_edges cl b | None => [] end
       end.

(* extra_nets: all other outputs of a cell whose edges do not depend on the bit *)
Definition extras (g : netlist) (n : net) : list net :=
  if is_const n then []
  else match n with
       | NL _ => []
       | NC c _ => match nth_error (cells g) c with
                   | Some cl => if per_bit cl then [] else filter (fun e => negb (net_eqb e n)) (outputs cl c)
                   | None => []
                   end
       end.

Record dfs := Dfs { checked : list net; busy : list net }.
Definition cyc := (net * list net)%type.      (* Cycle.start, Cycle.path (appended innermost first) *)
Inductive tres := TOk (st : dfs) (c : option cyc) | TRaise (path : list net) | TFuel.

(* `for src in edges: cycle = traverse(src); if cycle is not None: append; break` *)
Fixpoint trav_loop (trav : net -> dfs -> tres) (n : net) (ss : list net) (st : dfs) : tres :=
  match ss with
  | [] => TOk st None
  | s :: ss' =>
      match trav s st with
      | TOk st' None => trav_loop trav n ss' st'
      | TOk st' (Some (start, p)) => TOk st' (Some (start, p ++ [n]))
      | r => r
      end
  end.

Definition remove_net (x : net) (l : list net) : list net := filter (fun y => negb (net_eqb y x)) l.

Fixpoint traverse (g : netlist) (fuel : nat) (n : net) (st : dfs) : tres :=
  match fuel with
  | O => TFuel
  | S fuel' =>
      if nmem n (checked st) then TOk st None
      else if nmem n (busy st) then TOk st (Some (n, []))
      else
        let ex := extras g n in
        let st1 := Dfs (checked st) (ex ++ n :: busy st) in
        match trav_loop (traverse g fuel') n (succs g n) st1 with
        | TOk st2 cy =>
            match cy with
            | Some (start, p) => if net_eqb start n || nmem start ex then TRaise p else
                TOk (Dfs (rev ex ++ n :: checked st2)
                         (fold_left (fun b e => remove_net e b) ex (remove_net n (busy st2)))) cy
            | None =>
                TOk (Dfs (rev ex ++ n :: checked st2)
                         (fold_left (fun b e => remove_net e b) ex (remove_net n (busy st2)))) None
            end
        | r => r
        end
  end.

Inductive verdict :=
| VAccept
| VCycle (path : list net)      (* CombinationalCycle, len(cycle.path) entries *)
| VAssert                       (* `assert traverse(net) is None` failed: bare AssertionError
                                   (unreachable since the `cycle.start in extra_nets` fix: NirP.dfs_no_assert) *)
| VFuel.

Fixpoint top_loop (g : netlist) (fuel : nat) (roots : list net) (st : dfs) : verdict :=
  match roots with
  | [] => VAccept
  | r :: rest =>
      match traverse g fuel r st with
      | TOk st' None => top_loop g fuel rest st'
      | TOk _ (Some _) => VAssert
      | TRaise p => VCycle p
      | TFuel => VFuel
      end
  end.

Fixpoint cell_roots (cs : list cell) (idx : nat) : list net :=
  match cs with
  | [] => []
  | c :: r => outputs c idx ++ cell_roots r (S idx)
  end.
(* `for cell...: for net in cell.output_nets(): ...; for value in signals.values(): for net in value: ...` *)
Definition roots (g : netlist) : list net := cell_roots (cells g) 0 ++ concat (sigs g).
Definition all_nets (g : netlist) : list net := NC 0 0 :: NC 0 1 :: roots g.

Definition check_cycles (g : netlist) : verdict :=
  top_loop g (S (length (all_nets g))) (roots g) (Dfs [] []).

(* every net mentioned by an edge is a net of the netlist *)
Definition wf_netlist (g : netlist) : bool :=
  forallb (fun n => forallb (fun m => nmem m (all_nets g)) (succs g n)) (all_nets g).
(* "Cell 0 is always Top" (so the constant nets 0.0 / 0.1 are never outputs of a cell with edges) *)
Definition top_first (g : netlist) : bool := match cells g with CTop _ :: _ => true | _ => false end.
(* no cell whose outputs are merged into one DFS node (per-bit, or at most one output) *)
Definition no_merge (g : netlist) : bool :=
  forallb (fun c => per_bit c || match outputs c 0 with [] | [_] => true | _ => false end) (cells g).

(* ---------- SPEC (cycles) ---------- *)
Definition edge (g : netlist) (n m : net) : Prop := In m (succs g n).
(* chain g n p m: n -> ... -> m following edges, p = the intermediate+first nets, innermost first (as Cycle.path) *)
Inductive reach (g : netlist) : net -> net -> Prop :=
| reach_one n m : edge g n m -> reach g n m
| reach_step n k m : edge g n k -> reach g k m -> reach g n m.
Definition cyclic (g : netlist) : Prop := exists n, In n (all_nets g) /\ reach g n n.

(* value-level meaning of the bit-precise cells (for per_bit_precise): output bit `bit` under a valuation *)
Definition vl (v : net -> bool) (l : list net) (i : nat) : bool :=
  match nth_error l i with Some n => v n | None => false end.
Definition cell_bit (v : net -> bool) (c : cell) (bit : nat) : bool :=
  match c with
  | COperator KNot _ [a] => negb (vl v a bit)
  | COperator KAnd _ [a; b] => vl v a bit && vl v b bit
  | COperator KOr _ [a; b] => vl v a bit || vl v b bit
  | COperator KXor _ [a; b] => xorb (vl v a bit) (vl v b bit)
  | COperator _ _ [s; a; b] => if vl v s 0 then vl v a bit else vl v b bit
  | CAssign default assigns =>
      (* the last assignment whose condition holds and which covers the bit wins *)
      fold_left (fun acc a => let '(cond, start, value) := a in
                              if (start <=? bit) && (bit <? start + length value) && v cond
                              then vl v value (bit - start) else acc) assigns (vl v default bit)
  | CIOB false _ _ o oe => vl v o bit && v oe          (* what the pad sees when driven; else high-Z *)
  | _ => false
  end.

(* ================================================================================================ *)
(* Part III — the design-level dependency relation (SPEC side of the cycle clause)                  *)
(* ================================================================================================ *)
(* "signal bit x combinationally depends on signal bit y" for designs written in a small expression /
   statement language: slices, Cat and as_signed are wiring; ~ & | ^ and Mux data are bit-precise (operands
   zero- / sign-extended to the result shape); arithmetic, shifts, comparisons, reductions, part-selects with
   a dynamic offset, pattern matches, Mux / array / If / Switch selectors are word-level: every result bit
   depends on every operand bit.  Assignment targets may themselves read signals (part-select offset, array
   index); a flip-flop output depends on its clock and asynchronous reset; an asynchronous read port on its
   address; a bidirectional I/O buffer's input on its output and enable.  The harness runs this next to the
   real emitter + checker: the design-level oracle is Gallina, not Python. *)
Inductive xw1 := X_neg | X_red.                       (* -x : width+1 signed; bool / any / all / xor : 1 bit *)
Inductive xw2 := X_add | X_sub | X_mul | X_div | X_mod | X_shl | X_shr | X_cmp.
Inductive cexpr :=
| XSl (s lo hi : nat)                 (* s[lo:hi]; a single bit is s[i:i+1] *)
| XConst (w : nat)                    (* Const / AnyConst / Initial(): no dependency *)
| XCat (ps : list cexpr)
| XESl (e : cexpr) (lo hi : nat)
| XSgn (e : cexpr)
| XNot (e : cexpr)
| XBw (a b : cexpr)                   (* & | ^ *)
| XMux (c a b : cexpr)
| XW1 (o : xw1) (e : cexpr)
| XW2 (o : xw2) (a b : cexpr)
| XPart (e off : cexpr) (w : nat)     (* bit_select / word_select with a dynamic offset *)
| XMatches (e : cexpr)
| XArr (idx : cexpr) (es : list cexpr).

Definition xunify (a b : nat * bool) : nat * bool :=
  let '(wa, sa) := a in let '(wb, sb) := b in
  if Bool.eqb sa sb then (Nat.max wa wb, sa)
  else if sa then (Nat.max wa (wb + 1), true) else (Nat.max (wa + 1) wb, true).

(* Value.shape() *)
Fixpoint xshape (e : cexpr) : nat * bool :=
  match e with
  | XSl _ lo hi => (hi - lo, false)
  | XConst w => (w, false)
  | XCat ps => (fold_right (fun p acc => fst (xshape p) + acc) 0 ps, false)
  | XESl _ lo hi => (hi - lo, false)
  | XSgn e => (fst (xshape e), true)
  | XNot e => xshape e
  | XBw a b => xunify (xshape a) (xshape b)
  | XMux _ a b => xunify (xshape a) (xshape b)
  | XW1 X_neg e => (fst (xshape e) + 1, true)
  | XW1 X_red _ => (1, false)
  | XW2 o a b =>
      let '(wa, sa) := xshape a in let '(wb, sb) := xshape b in
      match o with
      | X_add => let '(w, sg) := xunify (wa, sa) (wb, sb) in (w + 1, sg)
      | X_sub => (fst (xunify (wa, sa) (wb, sb)) + 1, true)
      | X_mul => (wa + wb, sa || sb)
      | X_div => (wa + (if sb then 1 else 0), sa || sb)
      | X_mod => (wb, sb)
      | X_shl => (wa + 2 ^ wb - 1, sa)
      | X_shr => (wa, sa)
      | X_cmp => (1, false)
      end
  | XPart _ _ w => (w, false)
  | XMatches _ => (1, false)
  | XArr _ es => match map xshape es with [] => (0, false) | s :: r => fold_left xunify r s end
  end.

(* extension of a value's per-bit dependencies to n bits: zero bits depend on nothing, sign bits on the MSB *)
Definition xext (d : list (list bit)) (signed : bool) (n : nat) : list (list bit) :=
  firstn n d ++ repeat (if signed then last d [] else []) (n - length d).
Definition xall (d : list (list bit)) : list bit := concat d.
Fixpoint zip_app (a b : list (list bit)) : list (list bit) :=
  match a, b with
  | x :: a', y :: b' => (x ++ y) :: zip_app a' b'
  | _, _ => []
  end.

(* per result bit: the signal bits it depends on *)
Fixpoint xdeps (e : cexpr) : list (list bit) :=
  let w := fst (xshape e) in
  match e with
  | XSl s lo hi => map (fun i => [(s, i)]) (seq lo (hi - lo))
  | XConst w => repeat [] w
  | XCat ps => flat_map xdeps ps
  | XESl e lo hi => firstn (hi - lo) (skipn lo (xdeps e))
  | XSgn e => xdeps e
  | XNot e => xdeps e
  | XBw a b => zip_app (xext (xdeps a) (snd (xshape a)) w) (xext (xdeps b) (snd (xshape b)) w)
  | XMux c a b =>
      map (fun d => xall (xdeps c) ++ d)
          (zip_app (xext (xdeps a) (snd (xshape a)) w) (xext (xdeps b) (snd (xshape b)) w))
  | XW1 _ e => repeat (xall (xdeps e)) w
  | XMatches e => repeat (xall (xdeps e)) w
  | XW2 _ a b => repeat (xall (xdeps a) ++ xall (xdeps b)) w
  | XPart e off _ => repeat (xall (xdeps e) ++ xall (xdeps off)) w
  | XArr idx es =>
      map (fun i => xall (xdeps idx) ++ flat_map (fun p => nth i (xext (xdeps p) (snd (xshape p)) w) []) es)
          (seq 0 w)
  end.

(* assignment targets of the statement language *)
Inductive ctgt :=
| CTSl (s lo hi : nat)                                        (* s[lo:hi] *)
| CTPart (s lo hi : nat) (off : cexpr) (w stride : nat)       (* s[lo:hi].bit_select / word_select (off, w) *)
| CTArr (idx : cexpr) (elems : list (nat * nat * nat)).       (* Array([s[lo:hi], ...])[idx] *)

Definition ctlen (t : ctgt) : nat :=
  match t with
  | CTSl _ lo hi => hi - lo
  | CTPart _ _ _ _ w _ => w
  | CTArr _ elems => fold_right (fun e acc => Nat.max (snd e - snd (fst e)) acc) 0 elems
  end.

Inductive cstmt :=
| CSAssign (ff : option (list bit))      (* None: comb; Some l: flip-flop whose clock / async reset are the bits l *)
           (t : ctgt) (e : cexpr) (cond : option cexpr)
| CSMem (async : bool) (addr : cexpr) (s lo hi : nat)    (* read-port data on s[lo:hi] *)
| CSIob (o oe : cexpr) (s lo hi : nat)                   (* bidirectional buffer, i on s[lo:hi] *)
| CSNone.                                                (* instance outputs, prints, asserts, write ports *)

Definition nthd (d : list (list bit)) (k : nat) : list bit := nth k d [].

(* (target bit, the bits it depends on) *)
Definition stmt_deps (st : cstmt) : list (bit * list bit) :=
  match st with
  | CSAssign ff t e cond =>
      let rhs := xext (xdeps e) (snd (xshape e)) (ctlen t) in
      let cd := match cond with Some c => xall (xdeps c) | None => [] end in
      let dep := fun (k : nat) (sel : list bit) =>
                   match ff with Some l => l | None => nthd rhs k ++ sel ++ cd end in
      match t with
      | CTSl s lo hi => map (fun k => ((s, lo + k), dep k [])) (seq 0 (hi - lo))
      | CTPart s lo hi off w stride =>
          let width := hi - lo in
          let ncases := Nat.min ((width + stride - 1) / stride) (2 ^ fst (xshape off)) in
          flat_map (fun o => flat_map (fun k => if o * stride + k <? width
                                                then [((s, lo + o * stride + k), dep k (xall (xdeps off)))]
                                                else []) (seq 0 w)) (seq 0 ncases)
      | CTArr idx elems =>
          flat_map (fun el => let '(s, lo, hi) := el in
                              map (fun k => ((s, lo + k), dep k (xall (xdeps idx)))) (seq 0 (hi - lo))) elems
      end
  | CSMem async addr s lo hi =>
      map (fun k => ((s, lo + k), if async then xall (xdeps addr) else [])) (seq 0 (hi - lo))
  | CSIob o oe s lo hi =>
      map (fun k => ((s, lo + k), nthd (xdeps o) k ++ xall (xdeps oe))) (seq 0 (hi - lo))
  | CSNone => []
  end.

Definition design_deps (sts : list cstmt) : list (bit * list bit) := flat_map stmt_deps sts.

(* SPEC: x depends on y in one step; a design is cyclic when some bit reaches itself *)
Definition dep1 (sts : list cstmt) (x y : bit) : Prop := exists l, In (x, l) (design_deps sts) /\ In y l.
Inductive dreach (sts : list cstmt) : bit -> bit -> Prop :=
| dreach_one x y : dep1 sts x y -> dreach sts x y
| dreach_step x y z : dep1 sts x y -> dreach sts y z -> dreach sts x z.
Definition design_cyclic (sts : list cstmt) : Prop := exists x, dreach sts x x.

(* decision: one single-output word-level cell per driven bit, one late net per bit (Cantor code), then the
   verified DFS *)
Fixpoint bdedup (l : list bit) : list bit :=
  match l with
  | [] => []
  | x :: r => if bmem x r then bdedup r else x :: bdedup r
  end.
Definition bcode (x : bit) : nat := S (Cantor.to_nat x).
Definition benc (x : bit) : net := NL (bcode x).
Definition deps_of (deps : list (bit * list bit)) (x : bit) : list bit :=
  flat_map (fun p => if bit_eqb (fst p) x then snd p else []) deps.
Fixpoint conn_from (D : list bit) (j : nat) : list (nat * net) :=
  match D with
  | [] => []
  | x :: r => (bcode x, NC (S j) 0) :: conn_from r (S j)
  end.
Definition dep_graph_netlist (deps : list (bit * list bit)) : netlist :=
  let D := bdedup (map fst deps) in
  Netlist (CTop [] :: map (fun x => CMatch 1 (NC 0 1) (map benc (deps_of deps x))) D)
          (conn_from D 0)
          [map benc (map fst deps ++ flat_map snd deps)].
Definition design_cyclicb (sts : list cstmt) : bool :=
  match check_cycles (dep_graph_netlist (design_deps sts)) with VCycle _ => true | _ => false end.

(* ---------- targets the public API builds, including arrays of elements of different widths ---------- *)
(* ArrayProxy pushes slices and part-selects into its elements, so a SwitchValue with narrower elements is only
   ever assigned from position 0 (through Cat parts and casts); below a Slice / Part the strict wf_tgt applies *)
Fixpoint wf_tgt_top (t : tgt) : bool :=
  match t with
  | TSig _ _ => true
  | TCast a => wf_tgt_top a
  | TSlice _ _ _ => wf_tgt t
  | TPart _ _ _ _ => wf_tgt t
  | TCat ps => forallb wf_tgt_top ps
  | TSwitch w es => forallb (fun e => wf_tgt_top e && (tlen e <=? w)) es
  end.

(* ---------- structural well-formedness of a netlist (what the emitter guarantees) ---------- *)
Fixpoint nodupb (l : list net) : bool :=
  match l with
  | [] => true
  | x :: r => negb (nmem x r) && nodupb r
  end.
(* cell outputs are never the constant nets and never listed twice; signals hold late, constant or cell-output nets;
   every late net of the netlist is connected *)
Definition wf_struct (g : netlist) : bool :=
  forallb (fun n => negb (is_const n)) (cell_roots (cells g) 0)
  && nodupb (cell_roots (cells g) 0)
  && forallb (fun n => match n with NL _ => true | _ => is_const n || nmem n (cell_roots (cells g) 0) end)
             (concat (sigs g))
  && forallb (fun n => match n with NL l => match conn_of g l with [] => false | _ => true end | _ => true end)
             (all_nets g).

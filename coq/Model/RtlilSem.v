(* RtlilSem.v — C04.
   (1) Semantics of the RTLIL cells amaranth/back/rtlil.py emits, on bit vectors given as (width, unsigned value);
       written from the Yosys manual (internal cell library) / kernel/calc.cc / techlibs/common/simlib.v as known
       (no Yosys offline: trusted assumption).
   (2) A document model (modules, wires, cells, processes, flip-flops, memories, hierarchy) and its evaluator
       `run` used for per-design translation validation.
   (3) Models of the lowering code: _ir.NetlistEmitter.extend / emit_rhs (operand extension, operator variant),
       rtlil.ModuleEmitter.shorten_operand / emit_operator / emit_part on symbolic nets.
   No proofs here (Proofs/RtlilSemP.v). *)
From Coq Require Import ZArith List Bool.
From V.Model Require Import Bits Shape Ast Denote.
Import ListNotations.
Open Scope Z_scope.

(* ====================================================================== *)
(* 1. Cell semantics                                                      *)
(* ====================================================================== *)

(* integer denoted by the low w bits of v, read signed or unsigned (a zero-width operand denotes 0:
   extend_u0 pads with S0 when the vector is empty) *)
Definition ival (sg : bool) (w v : Z) : Z := if sg && (0 <? w) then sext w v else mask w v.

(* operand (sg, w, v) extended (or truncated) to `to` bits *)
Definition ext (sg : bool) (w v to : Z) : Z := mask to (ival sg w v).

Definition ones (w : Z) : Z := 2 ^ w - 1.

(* ---- unary: A_SIGNED, A_WIDTH, Y_WIDTH, A ---- *)
Definition cell_not (sg : bool) (aw yw a : Z) : Z := ones yw - ext sg aw a yw.
Definition cell_neg (sg : bool) (aw yw a : Z) : Z := mask yw (- ival sg aw a).
Definition cell_reduce_and (aw yw a : Z) : Z := mask yw (b2z (mask aw a =? ones aw)).
Definition cell_reduce_or (aw yw a : Z) : Z := mask yw (b2z (negb (mask aw a =? 0))).
Definition cell_reduce_xor (aw yw a : Z) : Z := mask yw (parity (mask aw a)).
Definition cell_reduce_bool := cell_reduce_or.

(* ---- binary: A_SIGNED, B_SIGNED, A_WIDTH, B_WIDTH, Y_WIDTH, A, B.
   Arithmetic, bitwise and comparison cells treat the operands as signed iff both are flagged signed. ---- *)
Definition cell_add (asg bsg : bool) (aw bw yw a b : Z) : Z :=
  let sg := asg && bsg in mask yw (ival sg aw a + ival sg bw b).
Definition cell_sub (asg bsg : bool) (aw bw yw a b : Z) : Z :=
  let sg := asg && bsg in mask yw (ival sg aw a - ival sg bw b).
Definition cell_mul (asg bsg : bool) (aw bw yw a b : Z) : Z :=
  let sg := asg && bsg in mask yw (ival sg aw a * ival sg bw b).
(* floor division / modulo; undefined (all x) when the divisor is zero *)
Definition cell_divfloor (asg bsg : bool) (aw bw yw a b : Z) : option Z :=
  let sg := asg && bsg in
  if ival sg bw b =? 0 then None else Some (mask yw (ival sg aw a / ival sg bw b)).
Definition cell_modfloor (asg bsg : bool) (aw bw yw a b : Z) : option Z :=
  let sg := asg && bsg in
  if ival sg bw b =? 0 then None else Some (mask yw (ival sg aw a mod ival sg bw b)).
Definition cell_and (asg bsg : bool) (aw bw yw a b : Z) : Z :=
  let sg := asg && bsg in Z.land (ext sg aw a yw) (ext sg bw b yw).
Definition cell_or (asg bsg : bool) (aw bw yw a b : Z) : Z :=
  let sg := asg && bsg in Z.lor (ext sg aw a yw) (ext sg bw b yw).
Definition cell_xor (asg bsg : bool) (aw bw yw a b : Z) : Z :=
  let sg := asg && bsg in Z.lxor (ext sg aw a yw) (ext sg bw b yw).
(* comparisons: both operands extended to max(A_WIDTH, B_WIDTH); 1-bit result zero-extended to Y_WIDTH *)
Definition cell_eq (asg bsg : bool) (aw bw yw a b : Z) : Z :=
  let sg := asg && bsg in let w := Z.max aw bw in
  mask yw (b2z (ext sg aw a w =? ext sg bw b w)).
Definition cell_ne (asg bsg : bool) (aw bw yw a b : Z) : Z :=
  let sg := asg && bsg in let w := Z.max aw bw in
  mask yw (b2z (negb (ext sg aw a w =? ext sg bw b w))).
Definition cell_lt (asg bsg : bool) (aw bw yw a b : Z) : Z :=
  let sg := asg && bsg in mask yw (b2z (ival sg aw a <? ival sg bw b)).
Definition cell_le (asg bsg : bool) (aw bw yw a b : Z) : Z :=
  let sg := asg && bsg in mask yw (b2z (ival sg aw a <=? ival sg bw b)).
Definition cell_gt (asg bsg : bool) (aw bw yw a b : Z) : Z :=
  let sg := asg && bsg in mask yw (b2z (ival sg bw b <? ival sg aw a)).
Definition cell_ge (asg bsg : bool) (aw bw yw a b : Z) : Z :=
  let sg := asg && bsg in mask yw (b2z (ival sg bw b <=? ival sg aw a)).
(* shifts; B is unsigned (the emitter never sets B_SIGNED on a shift).
   $shl: A extended to Y_WIDTH (by A_SIGNED), shifted left, truncated.
   $shr: A extended to max(Y_WIDTH, A_WIDTH) (by A_SIGNED), LOGICAL shift right (zeros shifted in), truncated.
   $sshr: with A_SIGNED an arithmetic shift right (sign bit shifted in), else $shr.
   $shift (B unsigned): as $shr — the manual: "a right logical shift"; calc.cc const_shift: extend_u0 to
   max(result_len, size) by signed1, then const_shift_worker with sign_ext = false. *)
Definition cell_shl (asg : bool) (aw bw yw a b : Z) : Z := mask yw (ext asg aw a yw * 2 ^ mask bw b).
Definition cell_shr (asg : bool) (aw bw yw a b : Z) : Z :=
  mask yw (ext asg aw a (Z.max yw aw) / 2 ^ mask bw b).
Definition cell_sshr (asg : bool) (aw bw yw a b : Z) : Z :=
  if asg then mask yw (ival true aw a / 2 ^ mask bw b) else cell_shr false aw bw yw a b.
Definition cell_shift_logical (asg : bool) (aw bw yw a b : Z) : Z := cell_shr asg aw bw yw a b.
(* the OTHER reading of $shift with A_SIGNED (every position above A's MSB filled with the sign bit, whatever the
   shift amount) — what rtlil.emit_part needs for part-selects of signed values (Proofs: lower_part_signfill) *)
Definition cell_shift_signfill (asg : bool) (aw bw yw a b : Z) : Z := mask yw (ival asg aw a / 2 ^ mask bw b).
(* the reading used by the document evaluator (layer B); see Props/C04.v C04_part_select_* for both *)
Definition SHIFT_SIGNED_FILLS_SIGN : bool := false.
Definition cell_shift (asg : bool) (aw bw yw a b : Z) : Z :=
  if SHIFT_SIGNED_FILLS_SIGN then cell_shift_signfill asg aw bw yw a b else cell_shift_logical asg aw bw yw a b.
(* $mux: Y = S ? B : A *)
Definition cell_mux (w a b s : Z) : Z := if mask 1 s =? 0 then mask w a else mask w b.

(* ====================================================================== *)
(* 2. Documents and their evaluation                                      *)
(* ====================================================================== *)

(* sigspec: list of chunks, LSB chunk first (the text is MSB first; the reader reverses) *)
Inductive chunk := KC (w v : Z) | KW (wire : nat) (lo w : Z).
Definition sigspec := list chunk.

Inductive ckind :=
| KNot | KNeg | KRand | KRor | KRxor | KRbool
| KAdd | KSub | KMul | KDivF | KModF | KShl | KShr | KSshr | KShift
| KAnd | KOr | KXor | KEq | KNe | KLt | KLe | KGt | KGe.

(* process bodies: `assign`, `switch sel` with cases; an empty pattern list is the default case *)
Inductive pstmt :=
| PAssign (lhs rhs : sigspec)
| PSwitch (sel : sigspec) (cases : list (list pattern * list pstmt)).

Inductive item :=
| ICell1 (k : ckind) (asg : bool) (aw yw : Z) (a y : sigspec)
| ICell2 (k : ckind) (asg bsg : bool) (aw bw yw : Z) (a b y : sigspec)
| IMux (w : Z) (a b s y : sigspec)
| IConn (lhs rhs : sigspec)
| IProc (body : list pstmt)
| IDff (w : Z) (pol : bool) (d clk q : sigspec)
| IAdff (w : Z) (pol apol : bool) (arstv : Z) (d clk arst q : sigspec)
(* memory `mem` (index into the module's memory list): read port (clocked or not), write port *)
| IMemRd (mem : nat) (abits w : Z) (clocked pol : bool) (transp : Z) (addr en clk data : sigspec)
| IMemWr (mem : nat) (abits w : Z) (pol : bool) (portid : Z) (addr data en clk : sigspec)
| ISub (m : nat) (conns : list (nat * sigspec)).

Inductive wkind := WNone | WIn | WOut | WInout.
Record wire := Wire { w_width : Z; w_kind : wkind; w_init : option Z }.
(* memory declaration: width, size, initial rows ($meminit_v2 with ABITS 0 / ADDR {} : rows from address 0) *)
Record memdecl := Mem { m_width : Z; m_size : Z; m_rows : list Z }.
Record module := Mod { md_wires : list wire; md_mems : list memdecl; md_items : list item }.
Definition doc := list module.    (* module 0 is the top *)

(* ---------- flattening through declared ports ---------- *)
Definition shift_chunk (b : nat) (c : chunk) : chunk :=
  match c with KC w v => KC w v | KW i lo w => KW (b + i) lo w end.
Definition shift_spec (b : nat) (s : sigspec) : sigspec := map (shift_chunk b) s.
Fixpoint shift_pstmt (b : nat) (p : pstmt) : pstmt :=
  match p with
  | PAssign l r => PAssign (shift_spec b l) (shift_spec b r)
  | PSwitch sel cs =>
      PSwitch (shift_spec b sel)
        (map (fun c => (fst c, map (shift_pstmt b) (snd c))) cs)
  end.

(* number of wires / memories of the instance tree rooted at module m *)
Fixpoint tree_wires (fuel : nat) (d : doc) (m : nat) : nat :=
  match fuel with
  | O => 0%nat
  | S f =>
      match nth_error d m with
      | None => 0%nat
      | Some md =>
          (length (md_wires md) +
           fold_right (fun it acc => match it with ISub c _ => (tree_wires f d c + acc)%nat | _ => acc end)
                      0%nat (md_items md))%nat
      end
  end.
Fixpoint tree_mems (fuel : nat) (d : doc) (m : nat) : nat :=
  match fuel with
  | O => 0%nat
  | S f =>
      match nth_error d m with
      | None => 0%nat
      | Some md =>
          (length (md_mems md) +
           fold_right (fun it acc => match it with ISub c _ => (tree_mems f d c + acc)%nat | _ => acc end)
                      0%nat (md_items md))%nat
      end
  end.

Record flat := Flat { f_wires : list wire; f_mems : list memdecl; f_items : list item; f_ok : bool }.

(* wires of the instance of m at wire base wb / memory base mb come first, then the instances of its submodule
   cells in item order.  A port connection is a `connect`: child input := parent sigspec,
   parent sigspec := child output (direction from the child's wire declaration). *)
Fixpoint flatten (fuel : nat) (d : doc) (m : nat) (wb mb : nat) : flat :=
  match fuel with
  | O => Flat [] [] [] false
  | S f =>
      match nth_error d m with
      | None => Flat [] [] [] false
      | Some md =>
          let go :=
            fold_left
              (fun (st : nat * nat * flat) it =>
                 let '(cw, cm, acc) := st in
                 match it with
                 | ISub c conns =>
                     let sub := flatten f d c cw cm in
                     let cwires := match nth_error d c with Some cmd => md_wires cmd | None => [] end in
                     let pc :=
                       map (fun pr : nat * sigspec =>
                              let '(p, sp) := pr in
                              let pw := nth p cwires (Wire 0 WNone None) in
                              let child := [KW (cw + p) 0 (w_width pw)] in
                              match w_kind pw with
                              | WIn => (true, IConn child (shift_spec wb sp))
                              | WOut => (true, IConn (shift_spec wb sp) child)
                              | _ => (false, IConn [] [])
                              end) conns in
                     ((cw + tree_wires f d c)%nat, (cm + tree_mems f d c)%nat,
                      Flat (f_wires acc ++ f_wires sub) (f_mems acc ++ f_mems sub)
                           (f_items acc ++ map snd pc ++ f_items sub)
                           (f_ok acc && f_ok sub && forallb fst pc))
                 | ICell1 k sg aw yw a y =>
                     (cw, cm, Flat (f_wires acc) (f_mems acc)
                        (f_items acc ++ [ICell1 k sg aw yw (shift_spec wb a) (shift_spec wb y)]) (f_ok acc))
                 | ICell2 k sa sb aw bw yw a b y =>
                     (cw, cm, Flat (f_wires acc) (f_mems acc)
                        (f_items acc ++ [ICell2 k sa sb aw bw yw (shift_spec wb a) (shift_spec wb b) (shift_spec wb y)])
                        (f_ok acc))
                 | IMux w a b s y =>
                     (cw, cm, Flat (f_wires acc) (f_mems acc)
                        (f_items acc ++ [IMux w (shift_spec wb a) (shift_spec wb b) (shift_spec wb s) (shift_spec wb y)])
                        (f_ok acc))
                 | IConn l r =>
                     (cw, cm, Flat (f_wires acc) (f_mems acc)
                        (f_items acc ++ [IConn (shift_spec wb l) (shift_spec wb r)]) (f_ok acc))
                 | IProc body =>
                     (cw, cm, Flat (f_wires acc) (f_mems acc)
                        (f_items acc ++ [IProc (map (shift_pstmt wb) body)]) (f_ok acc))
                 | IDff w pol dd clk q =>
                     (cw, cm, Flat (f_wires acc) (f_mems acc)
                        (f_items acc ++ [IDff w pol (shift_spec wb dd) (shift_spec wb clk) (shift_spec wb q)]) (f_ok acc))
                 | IAdff w pol apol av dd clk ar q =>
                     (cw, cm, Flat (f_wires acc) (f_mems acc)
                        (f_items acc ++ [IAdff w pol apol av (shift_spec wb dd) (shift_spec wb clk)
                                               (shift_spec wb ar) (shift_spec wb q)]) (f_ok acc))
                 | IMemRd mem ab w ck pol tr addr en clk data =>
                     (cw, cm, Flat (f_wires acc) (f_mems acc)
                        (f_items acc ++ [IMemRd (mb + mem) ab w ck pol tr (shift_spec wb addr) (shift_spec wb en)
                                                (shift_spec wb clk) (shift_spec wb data)]) (f_ok acc))
                 | IMemWr mem ab w pol pid addr data en clk =>
                     (cw, cm, Flat (f_wires acc) (f_mems acc)
                        (f_items acc ++ [IMemWr (mb + mem) ab w pol pid (shift_spec wb addr) (shift_spec wb data)
                                                (shift_spec wb en) (shift_spec wb clk)]) (f_ok acc))
                 end)
              (md_items md)
              ((wb + length (md_wires md))%nat, (mb + length (md_mems md))%nat,
               Flat (md_wires md) (md_mems md) [] true) in
          snd go
      end
  end.

(* global wire id of (instance path, local wire): path elements count the submodule cells of a module in item order *)
Fixpoint nth_sub (items : list item) (k : nat) (skipped : nat) (fuel : nat) (d : doc) : option (nat * nat) :=
  match items with
  | [] => None
  | ISub c _ :: r =>
      match k with
      | O => Some (c, skipped)
      | S k' => nth_sub r k' (skipped + tree_wires fuel d c)%nat fuel d
      end
  | _ :: r => nth_sub r k skipped fuel d
  end.

Fixpoint resolve (fuel : nat) (d : doc) (m : nat) (wb : nat) (path : list nat) (w : nat) : option nat :=
  match path with
  | [] => match nth_error d m with
          | Some md => if Nat.ltb w (length (md_wires md)) then Some (wb + w)%nat else None
          | None => None
          end
  | k :: p =>
      match fuel with
      | O => None
      | S f =>
          match nth_error d m with
          | None => None
          | Some md =>
              match nth_sub (md_items md) k 0%nat f d with
              | Some (c, skipped) => resolve f d c (wb + length (md_wires md) + skipped)%nat p w
              | None => None
              end
          end
      end
  end.

(* ---------- environments: per wire (mask of defined bits, value on the defined bits) ---------- *)
Definition wenv := list (Z * Z).
Definition rdw (e : wenv) (i : nat) : Z * Z := nth i e (0, 0).

Fixpoint upd_nth {A} (l : list A) (i : nat) (x : A) : list A :=
  match l, i with
  | [], _ => []
  | _ :: r, O => x :: r
  | a :: r, S i' => a :: upd_nth r i' x
  end.

Definition chunk_w (c : chunk) : Z := match c with KC w _ => w | KW _ _ w => w end.
Definition spec_w (s : sigspec) : Z := fold_right (fun c a => chunk_w c + a) 0 s.

Definition rd_chunk (e : wenv) (c : chunk) : option Z :=
  match c with
  | KC w v => Some (mask w v)
  | KW i lo w =>
      let '(dm, v) := rdw e i in
      if (0 <=? lo) && (0 <=? w) && (mask w (Z.shiftr dm lo) =? ones w)
      then Some (mask w (Z.shiftr v lo)) else None
  end.

Fixpoint rd_spec (e : wenv) (s : sigspec) : option Z :=
  match s with
  | [] => Some 0
  | c :: r =>
      match rd_chunk e c, rd_spec e r with
      | Some v, Some u => Some (v + 2 ^ chunk_w c * u)
      | _, _ => None
      end
  end.

(* write (Some value | None = undefined) on a chunk of a wire; bits beyond the wire's width are never defined *)
Definition wr_chunk (ws : list wire) (e : wenv) (c : chunk) (ov : option Z) : wenv :=
  match c with
  | KC _ _ => e
  | KW i lo w =>
      let ww := w_width (nth i ws (Wire 0 WNone None)) in
      if (0 <=? lo) && (0 <=? w) && (lo + w <=? ww) then
        let '(dm, v) := rdw e i in
        let fm := Z.shiftl (ones w) lo in
        let dm' := Z.land dm (Z.lnot fm) in
        let v' := Z.land v (Z.lnot fm) in
        match ov with
        | Some x => upd_nth e i (Z.lor dm' fm, Z.lor v' (Z.shiftl (mask w x) lo))
        | None => upd_nth e i (dm', v')
        end
      else e
  end.

Fixpoint wr_spec (ws : list wire) (e : wenv) (s : sigspec) (ov : option Z) : wenv :=
  match s with
  | [] => e
  | c :: r =>
      let e' := wr_chunk ws e c (match ov with Some x => Some (mask (chunk_w c) x) | None => None end) in
      wr_spec ws e' r (match ov with Some x => Some (Z.shiftr x (chunk_w c)) | None => None end)
  end.

(* ---------- cells ---------- *)
Definition cell1 (k : ckind) (sg : bool) (aw yw a : Z) : option Z :=
  match k with
  | KNot => Some (cell_not sg aw yw a)
  | KNeg => Some (cell_neg sg aw yw a)
  | KRand => Some (cell_reduce_and aw yw a)
  | KRor => Some (cell_reduce_or aw yw a)
  | KRxor => Some (cell_reduce_xor aw yw a)
  | KRbool => Some (cell_reduce_bool aw yw a)
  | _ => None
  end.

Definition cell2 (k : ckind) (asg bsg : bool) (aw bw yw a b : Z) : option Z :=
  match k with
  | KAdd => Some (cell_add asg bsg aw bw yw a b)
  | KSub => Some (cell_sub asg bsg aw bw yw a b)
  | KMul => Some (cell_mul asg bsg aw bw yw a b)
  | KDivF => cell_divfloor asg bsg aw bw yw a b
  | KModF => cell_modfloor asg bsg aw bw yw a b
  | KAnd => Some (cell_and asg bsg aw bw yw a b)
  | KOr => Some (cell_or asg bsg aw bw yw a b)
  | KXor => Some (cell_xor asg bsg aw bw yw a b)
  | KEq => Some (cell_eq asg bsg aw bw yw a b)
  | KNe => Some (cell_ne asg bsg aw bw yw a b)
  | KLt => Some (cell_lt asg bsg aw bw yw a b)
  | KLe => Some (cell_le asg bsg aw bw yw a b)
  | KGt => Some (cell_gt asg bsg aw bw yw a b)
  | KGe => Some (cell_ge asg bsg aw bw yw a b)
  (* shifts are only given a meaning for unsigned B *)
  | KShl => if bsg then None else Some (cell_shl asg aw bw yw a b)
  | KShr => if bsg then None else Some (cell_shr asg aw bw yw a b)
  | KSshr => if bsg then None else Some (cell_sshr asg aw bw yw a b)
  | KShift => if bsg then None else Some (cell_shift asg aw bw yw a b)
  | _ => None
  end.

(* ---------- processes ---------- *)
(* pattern (MSB first) against the selector value; the pattern length must be the selector width *)
Definition pat_ok (sw : Z) (p : pattern) : bool := Z.of_nat (length p) =? sw.

(* statements read the environment `e0` (before the process) and write `acc`; None = a selector was undefined
   or a pattern was ill-sized *)
Fixpoint exec_pstmt (ws : list wire) (e0 : wenv) (p : pstmt) (acc : wenv) : option wenv :=
  match p with
  | PAssign l r =>
      if spec_w l =? spec_w r then Some (wr_spec ws acc l (rd_spec e0 r)) else None
  | PSwitch sel cs =>
      match rd_spec e0 sel with
      | None => None
      | Some sv =>
          (fix go (cs : list (list pattern * list pstmt)) : option wenv :=
             match cs with
             | [] => Some acc
             | c :: cs' =>
                 if negb (forallb (pat_ok (spec_w sel)) (fst c)) then None
                 else if match fst c with [] => true | ps => existsb (fun p => pat_sem p sv) ps end
                 then (fix run (ss : list pstmt) (acc : wenv) : option wenv :=
                         match ss with
                         | [] => Some acc
                         | s' :: ss' => match exec_pstmt ws e0 s' acc with
                                        | Some acc' => run ss' acc'
                                        | None => None
                                        end
                         end) (snd c) acc
                 else go cs'
             end) cs
      end
  end.

Fixpoint exec_pstmts (ws : list wire) (e0 : wenv) (ss : list pstmt) (acc : wenv) : option wenv :=
  match ss with
  | [] => Some acc
  | s :: r => match exec_pstmt ws e0 s acc with Some acc' => exec_pstmts ws e0 r acc' | None => None end
  end.

(* all assignment targets of a process (to make them undefined when the process cannot be evaluated) *)
Fixpoint pstmt_lhs (p : pstmt) : list sigspec :=
  match p with
  | PAssign l _ => [l]
  | PSwitch _ cs => flat_map (fun c => flat_map pstmt_lhs (snd c)) cs
  end.

(* ---------- memories ---------- *)
Definition menv := list (list Z).     (* rows of every memory *)
Definition mem_row (me : menv) (m : nat) (a : Z) : Z := nth (Z.to_nat a) (nth m me []) 0.

(* ---------- one combinational sweep ---------- *)
(* sf: the reading of $shift with A_SIGNED used for this run (true = sign fill, false = logical; see cell_shift) *)
Definition eval_item (sf : bool) (ws : list wire) (ms : list memdecl) (me : menv) (e : wenv) (it : item) : wenv :=
  match it with
  | ICell1 k sg aw yw a y =>
      let r := if (spec_w a =? aw) && (spec_w y =? yw) && (0 <=? aw) && (0 <=? yw)
               then match rd_spec e a with Some av => cell1 k sg aw yw av | None => None end
               else None in
      wr_spec ws e y r
  | ICell2 k sa sb aw bw yw a b y =>
      let r := if (spec_w a =? aw) && (spec_w b =? bw) && (spec_w y =? yw) && (0 <=? aw) && (0 <=? bw) && (0 <=? yw)
               then match rd_spec e a, rd_spec e b with
                    | Some av, Some bv =>
                        match k with
                        | KShift => if sb then None
                                    else Some (if sf then cell_shift_signfill sa aw bw yw av bv
                                               else cell_shift_logical sa aw bw yw av bv)
                        | _ => cell2 k sa sb aw bw yw av bv
                        end
                    | _, _ => None
                    end
               else None in
      wr_spec ws e y r
  | IMux w a b s y =>
      let r := if (spec_w a =? w) && (spec_w b =? w) && (spec_w y =? w) && (spec_w s =? 1)
               then match rd_spec e s with
                    | Some sv => if sv =? 0 then rd_spec e a else rd_spec e b
                    | None => None
                    end
               else None in
      wr_spec ws e y r
  | IConn l r =>
      wr_spec ws e l (if spec_w l =? spec_w r then rd_spec e r else None)
  | IProc body =>
      match exec_pstmts ws e body e with
      | Some e' => e'
      | None => fold_left (fun e l => wr_spec ws e l None) (flat_map pstmt_lhs body) e
      end
  | IMemRd mem ab w false _ _ addr en clk data =>
      (* asynchronous read port; a row beyond the declared size is undefined ('x') in RTLIL: any value refines it,
         0 is chosen (the simulator's value), as for INIT_VALUE below *)
      let md := nth mem ms (Mem 0 0 []) in
      let r := if (spec_w addr =? ab) && (spec_w data =? w) && (w =? m_width md)
               then match rd_spec e addr with
                    | Some a => if a <? m_size md then Some (mem_row me mem a) else Some 0
                    | None => None
                    end
               else None in
      wr_spec ws e data r
  | _ => e
  end.

Definition sweep (sf : bool) (ws : list wire) (ms : list memdecl) (me : menv) (items : list item) (e : wenv) : wenv :=
  fold_left (eval_item sf ws ms me) items e.

Fixpoint wenv_eqb (a b : wenv) : bool :=
  match a, b with
  | [], [] => true
  | (d1, v1) :: a', (d2, v2) :: b' => (d1 =? d2) && (v1 =? v2) && wenv_eqb a' b'
  | _, _ => false
  end.

(* sweeps until nothing changes (the emitted netlists have no combinational loop at bit level, so this is the
   unique solution, independent of the order of the items); (env, converged) *)
Fixpoint settle (sf : bool) (fuel : nat) (ws : list wire) (ms : list memdecl) (me : menv) (items : list item) (e : wenv)
  : wenv * bool :=
  match fuel with
  | O => (e, false)
  | S f => let e' := sweep sf ws ms me items e in
           if wenv_eqb e e' then (e', true) else settle sf f ws ms me items e'
  end.

(* ---------- clocked elements ---------- *)
Definition edge (pol : bool) (c0 c1 : Z) : bool :=
  if pol then (c0 =? 0) && (c1 =? 1) else (c0 =? 1) && (c1 =? 0).

Inductive ffupd := FU (q : sigspec) (v : option Z).

(* e0: settled environment before the inputs changed; e1: settled with the new inputs and the old state.
   A flip-flop whose clock has its active edge between k0 and k1 takes D as it was before the edge (in e0).
   Ordinarily (k0, k1) = (e0, e1); with a virtual clock pulse (see step; the simulator's behaviour before the repair
   of F7, not used by the check any more) they are e1 with the domain's clock
   input forced to its inactive / active level. *)
Definition ff_update (k0 k1 e0 e1 : wenv) (it : item) : list ffupd :=
  match it with
  | IDff w pol d clk q =>
      if (spec_w d =? w) && (spec_w q =? w) && (spec_w clk =? 1) then
        match rd_spec k0 clk, rd_spec k1 clk with
        | Some c0, Some c1 => if edge pol c0 c1 then [FU q (rd_spec e0 d)] else []
        | _, _ => [FU q None]
        end
      else [FU q None]
  | IAdff w pol apol av d clk ar q =>
      if (spec_w d =? w) && (spec_w q =? w) && (spec_w clk =? 1) && (spec_w ar =? 1) then
        match rd_spec e1 ar with
        | Some a =>
            if Bool.eqb (negb (a =? 0)) apol then [FU q (Some (mask w av))]
            else match rd_spec k0 clk, rd_spec k1 clk with
                 | Some c0, Some c1 => if edge pol c0 c1 then [FU q (rd_spec e0 d)] else []
                 | _, _ => [FU q None]
                 end
        | None => [FU q None]
        end
      else [FU q None]
  | IMemRd mem ab w true pol tr addr en clk data => []   (* handled with the memories *)
  | _ => []
  end.

(* write ports active on this step: (mem, portid, addr, data, enable mask), all sampled before the edge *)
Record wrop := WrOp { wo_mem : nat; wo_port : Z; wo_addr : option Z; wo_data : option Z; wo_en : option Z }.

Definition wr_ops (k0 k1 e0 : wenv) (items : list item) : list wrop :=
  flat_map (fun it =>
    match it with
    | IMemWr mem ab w pol pid addr data en clk =>
        match rd_spec k0 clk, rd_spec k1 clk with
        | Some c0, Some c1 =>
            if edge pol c0 c1 then [WrOp mem pid (rd_spec e0 addr) (rd_spec e0 data) (rd_spec e0 en)] else []
        | _, _ => [WrOp mem pid None None None]
        end
    | _ => []
    end) items.

Definition set_row (me : menv) (m : nat) (a : Z) (v : Z) : menv :=
  upd_nth me m (upd_nth (nth m me []) (Z.to_nat a) v).

(* apply the write ports in order (PRIORITY_MASK 0: same-address collisions of distinct ports are undefined in
   RTLIL; the generator never produces them) ; second component false when something was undefined *)
Definition apply_writes (ms : list memdecl) (me : menv) (ops : list wrop) : menv * bool :=
  fold_left (fun (st : menv * bool) op =>
    let '(me, ok) := st in
    match wo_addr op, wo_data op, wo_en op with
    | Some a, Some dv, Some en =>
        if a <? m_size (nth (wo_mem op) ms (Mem 0 0 [])) then
          let old := mem_row me (wo_mem op) a in
          (set_row me (wo_mem op) a (Z.lor (Z.land old (Z.lnot en)) (Z.land dv en)), ok)
        else (me, ok)
    | _, _, _ => (me, false)
    end) ops (me, true).

(* clocked read ports: on the active edge with EN, DATA := row before the writes, except that bits written on the
   same edge through a port of TRANSPARENCY_MASK to the same address show the written data *)
Definition rd_updates (ms : list memdecl) (me : menv) (ops : list wrop) (k0 k1 e0 : wenv) (items : list item) : list ffupd :=
  flat_map (fun it =>
    match it with
    | IMemRd mem ab w true pol tr addr en clk data =>
        match rd_spec k0 clk, rd_spec k1 clk with
        | Some c0, Some c1 =>
            if edge pol c0 c1 then
              match rd_spec e0 en, rd_spec e0 addr with
              | Some env, Some a =>
                  if env =? 0 then []
                  else if a <? m_size (nth mem ms (Mem 0 0 [])) then
                    let base := mem_row me mem a in
                    let v := fold_left (fun acc op =>
                               if Nat.eqb (wo_mem op) mem && Z.testbit tr (wo_port op) then
                                 match wo_addr op, wo_data op, wo_en op with
                                 | Some wa, Some wd, Some wen =>
                                     if wa =? a then Some (Z.lor (Z.land (match acc with Some x => x | None => 0 end) (Z.lnot wen))
                                                                 (Z.land wd wen))
                                     else acc
                                 | _, _, _ => None
                                 end
                               else acc) ops (Some base) in
                    [FU data v]
                  else [FU data (Some 0)]
              | _, _ => [FU data None]
              end
            else []
        | _, _ => [FU data None]
        end
    | _ => []
    end) items.

Record state := St { st_env : wenv; st_mem : menv }.

(* status codes prefixed to the observations of a step *)
Definition ST_OK := 0.
Definition ST_NOCONV := 1.
Definition ST_DERIVED_CLOCK := 2.
Definition ST_UNDEF_WRITE := 3.

Definition set_inputs (ws : list wire) (e : wenv) (ins : list (nat * Z)) : wenv :=
  fold_left (fun e (p : nat * Z) =>
               let w := nth (fst p) ws (Wire 0 WNone None) in
               match w_kind w with
               | WIn => wr_spec ws e [KW (fst p) 0 (w_width w)] (Some (snd p))
               | _ => e
               end) ins e.

(* does any clock (or async reset) differ between two settled environments? *)
Definition clocks_of (items : list item) : list sigspec :=
  flat_map (fun it => match it with
                      | IDff _ _ _ clk _ => [clk]
                      | IAdff _ _ _ _ _ clk ar _ => [clk; ar]
                      | IMemRd _ _ _ true _ _ _ _ clk _ => [clk]
                      | IMemWr _ _ _ _ _ _ _ _ clk => [clk]
                      | _ => []
                      end) items.
Definition opt_eqb (a b : option Z) : bool :=
  match a, b with Some x, Some y => x =? y | None, None => true | _, _ => false end.
Definition clocks_stable (items : list item) (e1 e2 : wenv) : bool :=
  forallb (fun c => opt_eqb (rd_spec e1 c) (rd_spec e2 c)) (clocks_of items).

(* vclk = [] : the RTLIL semantics (what the check uses).  vclk = [(clock input, inactive level, active level)] : the
   behaviour the simulator had before /repo commit 574e1db (finding F7, repaired) on a rise of an async reset — every clocked element that would see an active edge if that clock input pulsed
   behaves as if it did (the sync process of the domain runs), with D taken before the step as usual. *)
Definition step (sf : bool) (fl : flat) (fuel : nat) (st : state) (ins : list (nat * Z))
                (vclk : list (nat * Z * Z)) : state * Z :=
  let ws := f_wires fl in let ms := f_mems fl in let items := f_items fl in
  let e0 := st_env st in
  let '(e1, ok1) := settle sf fuel ws ms (st_mem st) items (set_inputs ws e0 ins) in
  let '(k0, k1, okk) :=
    match vclk with
    | [] => (e0, e1, true)
    | _ =>
        let '(a0, oa) := settle sf fuel ws ms (st_mem st) items
                                (set_inputs ws e1 (map (fun v => (fst (fst v), snd (fst v))) vclk)) in
        let '(a1, ob) := settle sf fuel ws ms (st_mem st) items
                                (set_inputs ws e1 (map (fun v => (fst (fst v), snd v)) vclk)) in
        (a0, a1, oa && ob)
    end in
  let ups := flat_map (ff_update k0 k1 e0 e1) items in
  let ops := wr_ops k0 k1 e0 items in
  let rups := rd_updates ms (st_mem st) ops k0 k1 e0 items in
  let '(me', okw) := apply_writes ms (st_mem st) ops in
  let e1' := fold_left (fun e u => match u with FU q v => wr_spec ws e q v end) (ups ++ rups) e1 in
  let '(e2, ok2) := settle sf fuel ws ms me' items e1' in
  let code := if negb (ok1 && ok2 && okk) then ST_NOCONV
              else if negb (clocks_stable items e1 e2) then ST_DERIVED_CLOCK
              else if negb okw then ST_UNDEF_WRITE else ST_OK in
  (St e2 me', code).

(* initial state: every wire undefined, except the outputs of flip-flops, which hold the `init` attribute of the
   wire connected to Q (Yosys convention), and clocked read-port outputs (INIT_VALUE is 'x' in the emitted cell:
   any value refines it; 0 is chosen — the simulator's value) *)
Definition init_env (fl : flat) : wenv :=
  let ws := f_wires fl in
  let e := map (fun _ => (0, 0)) ws in
  fold_left (fun e it =>
    match it with
    | IDff _ _ _ _ q | IAdff _ _ _ _ _ _ _ q =>
        match q with
        | [KW i 0 w] => wr_spec ws e q (w_init (nth i ws (Wire 0 WNone None)))
        | _ => e
        end
    | IMemRd _ _ _ true _ _ _ _ _ data => wr_spec ws e data (Some 0)
    | _ => e
    end) (f_items fl) e.

Definition init_mem (fl : flat) : menv :=
  map (fun md => map (fun k => nth k (m_rows md) 0) (seq 0 (Z.to_nat (m_size md)))) (f_mems fl).

(* observation points: None = deliberately skipped (-2); Some (None, _) = not found in the document (-4);
   an undefined wire reads -1 *)
Definition observe (e : wenv) (obs : list (option (option nat * Z))) : list Z :=
  map (fun o : option (option nat * Z) =>
         match o with
         | None => -2
         | Some (Some i, w) => match rd_chunk e (KW i 0 w) with Some v => v | None => -1 end
         | Some (None, _) => -4
         end) obs.

(* run: flatten, initial inputs, settle, observe; then one observation row per stimulus step.
   obs: (instance path, local wire, width) ; stimulus: per step, (top-level input wire, value) *)
(* all rows of all memories (instance order), observed after the wires when `obsmem` *)
Definition observe_mem (obsmem : bool) (me : menv) : list Z := if obsmem then concat me else [].

(* a stimulus step: (emit an observation row after it?, input changes, virtual clock pulses (always [] in the check)) *)
Definition sstep := (bool * list (nat * Z) * list (nat * Z * Z))%type.

Definition run_gen (sf : bool) (obsmem : bool) (d : doc) (obs : list (option (list nat * nat * Z)))
                   (init_ins : list (nat * Z)) (stim : list sstep) : list Z :=
  let n := length d in
  let fl := flatten (S n) d 0 0 0 in
  if negb (f_ok fl) then [-3]
  else
    let fuel := S (S (length (f_items fl))) in
    let robs := map (fun o : option (list nat * nat * Z) =>
                       match o with
                       | Some (p, w, wd) => Some (resolve (S n) d 0 0 p w, wd)
                       | None => None
                       end) obs in
    let '(e0, ok0) := settle sf fuel (f_wires fl) (f_mems fl) (init_mem fl) (f_items fl)
                             (set_inputs (f_wires fl) (init_env fl) init_ins) in
    let st0 := St e0 (init_mem fl) in
    let row0 := (if ok0 then ST_OK else ST_NOCONV) :: observe e0 robs ++ observe_mem obsmem (st_mem st0) in
    row0 ++
    snd (fold_left (fun (acc : state * Z * list Z) (sp : sstep) =>
                      let '(st, worst, out) := acc in
                      let '(emit, ins, vclk) := sp in
                      let '(st', code) := step sf fl fuel st ins vclk in
                      let worst' := Z.max worst code in
                      if emit then (st', 0, out ++ worst' :: observe (st_env st') robs ++ observe_mem obsmem (st_mem st'))
                      else (st', worst', out))
                   stim (st0, 0, [])).

Definition run_with (sf : bool) (d : doc) (obs : list (option (list nat * nat * Z))) (init_ins : list (nat * Z))
                    (stim : list (list (nat * Z))) : list Z :=
  run_gen sf false d obs init_ins (map (fun ins => (true, ins, [])) stim).
Definition run := run_with SHIFT_SIGNED_FILLS_SIGN.

(* ====================================================================== *)
(* 3. Models of the lowering code                                         *)
(* ====================================================================== *)

(* symbolic nets: constants and everything else (cell output bits, late-bound signal bits) *)
Inductive net := NC (b : bool) | NV (id : nat).
Definition net_eqb (a b : net) : bool :=
  match a, b with
  | NC x, NC y => Bool.eqb x y
  | NV i, NV j => Nat.eqb i j
  | _, _ => false
  end.
Definition valuation := nat -> bool.
Definition net_val (rho : valuation) (n : net) : bool := match n with NC b => b | NV i => rho i end.

(* _nir.Value: list of nets, LSB first; its unsigned value under a valuation *)
Fixpoint nval (rho : valuation) (l : list net) : Z :=
  match l with
  | [] => 0
  | n :: r => b2z (net_val rho n) + 2 * nval rho r
  end.
Definition nlen (l : list net) : Z := Z.of_nat (length l).
(* integer denoted by a net list read with a signedness *)
Definition sval (rho : valuation) (sg : bool) (l : list net) : Z := ival sg (nlen l) (nval rho l).

(* NetlistEmitter.extend: append copies of the last net (signed) / constant zeros until `width` nets *)
Fixpoint extend_by (l : list net) (sg : bool) (k : nat) : list net :=
  match k with
  | O => l
  | S k' => extend_by (l ++ [if sg then last l (NC false) else NC false]) sg k'
  end.
Definition extend (l : list net) (sg : bool) (w : Z) : list net :=
  extend_by l sg (Z.to_nat (w - nlen l)).

(* ModuleEmitter.shorten_operand on the reversed list (MSB first) *)
Fixpoint shorten_s_rev (r : list net) : list net :=
  match r with
  | a :: ((b :: _) as t) => if net_eqb a b then shorten_s_rev t else r
  | _ => r
  end.
Fixpoint shorten_u_rev (r : list net) : list net :=
  match r with
  | a :: t => if net_eqb a (NC false) then shorten_u_rev t else r
  | [] => []
  end.
Definition shorten (l : list net) (sg : bool) : list net :=
  rev (if sg then shorten_s_rev (rev l) else shorten_u_rev (rev l)).

Definition is_const (l : list net) : bool := forallb (fun n => match n with NC _ => true | NV _ => false end) l.

(* ---- _nir.Operator kinds ---- *)
Inductive nop1 := N1Neg | N1Not | N1Bool | N1Ror | N1Rand | N1Rxor.
Inductive nop2 := N2Add | N2Sub | N2Mul | N2DivU | N2DivS | N2ModU | N2ModS | N2Shl | N2ShrU | N2ShrS
                | N2And | N2Or | N2Xor | N2Eq | N2Ne | N2LtU | N2GtU | N2LeU | N2GeU | N2LtS | N2GtS | N2LeS | N2GeS.

(* _nir.Operator.width *)
Definition nop1_width (o : nop1) (a : list net) : Z :=
  match o with N1Neg | N1Not => nlen a | _ => 1 end.
Definition nop2_width (o : nop2) (a : list net) : Z :=
  match o with
  | N2Add | N2Sub | N2Mul | N2DivU | N2DivS | N2ModU | N2ModS | N2Shl | N2ShrU | N2ShrS | N2And | N2Or | N2Xor => nlen a
  | _ => 1
  end.

(* ---- rtlil.emit_operator: the cell(s) emitted for a NIR operator, evaluated under a valuation ---- *)
(* BINARY_OPERATORS table: cell, A_SIGNED, B_SIGNED *)
Definition bin_table (o : nop2) : ckind * bool * bool :=
  match o with
  | N2Add => (KAdd, false, false) | N2Sub => (KSub, false, false) | N2Mul => (KMul, false, false)
  | N2DivU => (KDivF, false, false) | N2DivS => (KDivF, true, true)
  | N2ModU => (KModF, false, false) | N2ModS => (KModF, true, true)
  | N2Shl => (KShl, false, false) | N2ShrU => (KShr, false, false) | N2ShrS => (KSshr, true, false)
  | N2And => (KAnd, false, false) | N2Or => (KOr, false, false) | N2Xor => (KXor, false, false)
  | N2Eq => (KEq, false, false) | N2Ne => (KNe, false, false)
  | N2LtU => (KLt, false, false) | N2GtU => (KGt, false, false) | N2LeU => (KLe, false, false) | N2GeU => (KGe, false, false)
  | N2LtS => (KLt, true, true) | N2GtS => (KGt, true, true) | N2LeS => (KLe, true, true) | N2GeS => (KGe, true, true)
  end.

Definition un_table (o : nop1) : ckind :=
  match o with
  | N1Neg => KNeg | N1Not => KNot | N1Bool => KRbool | N1Ror => KRor | N1Rand => KRand | N1Rxor => KRxor
  end.

(* the unary branch: only "-" is shortened, with whichever signedness gives the shorter operand *)
Definition emit_unary (rho : valuation) (o : nop1) (a : list net) : option Z :=
  let yw := nop1_width o a in
  match o with
  | N1Neg =>
      let au := shorten a false in let as_ := shorten a true in
      let '(sg, opd) := if nlen as_ <? nlen au then (true, as_) else (false, au) in
      cell1 KNeg sg (nlen opd) yw (nval rho opd)
  | _ => cell1 (un_table o) false (nlen a) yw (nval rho a)
  end.

Definition forced (o : nop2) : bool :=      (* cell.operator[0] in "us" *)
  match o with
  | N2DivU | N2DivS | N2ModU | N2ModS | N2ShrU | N2ShrS
  | N2LtU | N2GtU | N2LeU | N2GeU | N2LtS | N2GtS | N2LeS | N2GeS => true
  | _ => false
  end.
Definition free_sign (o : nop2) : bool :=   (* "+", "-", "*", "==", "!=" *)
  match o with N2Add | N2Sub | N2Mul | N2Eq | N2Ne => true | _ => false end.
Definition is_divmod (o : nop2) : bool :=
  match o with N2DivU | N2DivS | N2ModU | N2ModS => true | _ => false end.

(* operands and signedness flags as emit_operator chooses them: (A_SIGNED, B_SIGNED, A nets, B nets) *)
Definition choose_operands (o : nop2) (a b : list net) : bool * bool * list net * list net :=
  let '(_, asg, bsg) := bin_table o in
  if free_sign o then
    let au := shorten a false in let bu := shorten b false in
    let as_ := shorten a true in let bs := shorten b true in
    let sg :=
      if is_const a then nlen bs <? nlen bu
      else if is_const b then nlen as_ <? nlen au
      else if (nlen as_ <? nlen a) && (nlen au =? nlen a) then true
      else if (nlen bs <? nlen b) && (nlen bu =? nlen b) then true
      else false in
    if sg then (true, true, as_, bs) else (false, false, au, bu)
  else if forced o then (asg, bsg, shorten a asg, shorten b bsg)
  else match o with
       | N2Shl =>
           let au := shorten a false in let as_ := shorten a true in
           if nlen as_ <? nlen au then (true, bsg, as_, shorten b bsg) else (false, bsg, au, shorten b bsg)
       | _ => (asg, bsg, a, b)      (* & | ^ : operands as they are *)
       end.

Definition emit_binary (rho : valuation) (o : nop2) (a b : list net) : option Z :=
  let yw := nop2_width o a in
  let '(k, _, _) := bin_table o in
  let '(asg, bsg, oa, ob) := choose_operands o a b in
  if is_divmod o then
    (* $divfloor/$modfloor -> result ; $reduce_bool(B) -> nonzero ; $mux(S=nonzero, A=zeros, B=result) *)
    let result := cell2 k asg bsg (nlen oa) (nlen ob) yw (nval rho oa) (nval rho ob) in
    let nonzero := cell_reduce_bool (nlen ob) 1 (nval rho ob) in
    if mask 1 nonzero =? 0 then Some (mask yw 0) else result
  else cell2 k asg bsg (nlen oa) (nlen ob) yw (nval rho oa) (nval rho ob).

(* ---- _ir.emit_rhs for one operator node: NIR operator, extended inputs, result slice, result signedness ---- *)
(* operands: (nets, signed) as returned by the recursive emit_rhs calls; result: value of the returned nets *)
Definition unify_bitwise (a : list net) (sa : bool) (b : list net) (sb : bool) : list net * list net * bool :=
  let sh := unify2 (Sh (nlen a) sa) (Sh (nlen b) sb) in
  (extend a sa (width sh), extend b sb (width sh), sgn sh).

(* (bit pattern of the result, its width, its signedness); None = the emitter has no such case *)
Definition lower_op1 (rho : valuation) (o : op1) (a : list net) (sa : bool) : option (Z * Z * bool) :=
  match o with
  | OS => Some (nval rho a, nlen a, true)
  | OU => Some (nval rho a, nlen a, false)
  | ONeg =>
      let a' := extend a sa (nlen a + 1) in
      match emit_unary rho N1Neg a' with Some y => Some (y, nlen a', true) | None => None end
  | ONot => match emit_unary rho N1Not a with Some y => Some (y, nlen a, sa) | None => None end
  | OBool => match emit_unary rho N1Bool a with Some y => Some (y, 1, false) | None => None end
  | ORor => match emit_unary rho N1Ror a with Some y => Some (y, 1, false) | None => None end
  | ORand => match emit_unary rho N1Rand a with Some y => Some (y, 1, false) | None => None end
  | ORxor => match emit_unary rho N1Rxor a with Some y => Some (y, 1, false) | None => None end
  end.

Definition lower_op2 (rho : valuation) (o : op2) (a : list net) (sa : bool) (b : list net) (sb : bool)
  : option (Z * Z * bool) :=
  match o with
  | OAnd | OOr | OXor =>
      let '(a', b', sg) := unify_bitwise a sa b sb in
      let n := match o with OAnd => N2And | OOr => N2Or | _ => N2Xor end in
      match emit_binary rho n a' b' with Some y => Some (y, nlen a', sg) | None => None end
  | OAdd | OSub =>
      let '(a', b', sg) := unify_bitwise a sa b sb in
      let w := nlen a' + 1 in
      let a'' := extend a' sg w in let b'' := extend b' sg w in
      let n := match o with OAdd => N2Add | _ => N2Sub end in
      match emit_binary rho n a'' b'' with
      | Some y => Some (y, nlen a'', match o with OSub => true | _ => sg end)
      | None => None
      end
  | OMul =>
      let w := nlen a + nlen b in
      let a' := extend a sa w in let b' := extend b sb w in
      match emit_binary rho N2Mul a' b' with Some y => Some (y, nlen a', sa || sb) | None => None end
  | ODiv =>
      let w := nlen a + (if sb then 1 else 0) in
      let '(a', b', sg) := unify_bitwise a sa b sb in
      let '(a'', b'') := if nlen a' <? w then (extend a' sg w, extend b' sg w) else (a', b') in
      match emit_binary rho (if sg then N2DivS else N2DivU) a'' b'' with
      | Some y => Some (mask w y, w, sg)           (* [:width] *)
      | None => None
      end
  | OMod =>
      let w := nlen b in
      let '(a', b', sg) := unify_bitwise a sa b sb in
      match emit_binary rho (if sg then N2ModS else N2ModU) a' b' with
      | Some y => Some (mask w y, w, sb)
      | None => None
      end
  | OShl =>
      let a' := extend a sa (nlen a + 2 ^ nlen b - 1) in
      match emit_binary rho N2Shl a' b with Some y => Some (y, nlen a', sa) | None => None end
  | OShr =>
      match emit_binary rho (if sa then N2ShrS else N2ShrU) a b with Some y => Some (y, nlen a, sa) | None => None end
  | OEq | ONe =>
      let '(a', b', _) := unify_bitwise a sa b sb in
      match emit_binary rho (match o with OEq => N2Eq | _ => N2Ne end) a' b' with
      | Some y => Some (y, 1, false) | None => None end
  | OLt | OLe | OGt | OGe =>
      let '(a', b', sg) := unify_bitwise a sa b sb in
      let n := match o, sg with
               | OLt, false => N2LtU | OLt, true => N2LtS | OLe, false => N2LeU | OLe, true => N2LeS
               | OGt, false => N2GtU | OGt, true => N2GtS | OGe, false => N2GeU | _, _ => N2GeS
               end in
      match emit_binary rho n a' b' with Some y => Some (y, 1, false) | None => None end
  end.

(* ---- rtlil.emit_part: $shift (preceded by $mul by the stride constant when stride <> 1) ---- *)
(* Const(stride): unsigned, bits_for(stride) wide *)
Definition emit_part_with (shiftcell : bool -> Z -> Z -> Z -> Z -> Z -> Z)
                          (rho : valuation) (v : list net) (vsg : bool) (off : list net) (w stride : Z) : Z :=
  let '(ow, ov) :=
    if stride =? 1 then (nlen off, nval rho off)
    else let sw := bits_for stride false in
         let ow := nlen off + sw in
         (ow, cell_mul false false (nlen off) sw ow (nval rho off) stride) in
  shiftcell vsg (nlen v) ow w (nval rho v) ov.
Definition emit_part := emit_part_with cell_shift_logical.
Definition emit_part_signfill := emit_part_with cell_shift_signfill.

(* ---- processes: a decision tree of assignments to one output, its RTLIL rendering and its flat NIR form ---- *)
(* source tree as _ir.emit_stmt walks it for one driver: assignments of `value` (width vw) at bit `start` of the
   output, and switches on a selector value with first-match cases *)
Inductive atree :=
| TAssign (start vw value : Z)
| TSwitch (selw sel : Z) (cases : list (list pattern * list atree)).

(* the assignment cell semantics: bits [start, start+vw) of the w-bit output replaced *)
Definition put (w old start vw value : Z) : Z :=
  let m := Z.land (Z.shiftl (ones vw) start) (ones w) in
  Z.lor (Z.land old (Z.lnot m)) (Z.land (Z.shiftl (mask vw value) start) m).

(* RTLIL process semantics of the nested switches *)
Fixpoint exec_atree (w : Z) (t : atree) (acc : Z) : Z :=
  match t with
  | TAssign s vw v => put w acc s vw v
  | TSwitch selw sel cs =>
      (fix go (cs : list (list pattern * list atree)) : Z :=
         match cs with
         | [] => acc
         | c :: cs' =>
             if match fst c with [] => true | ps => existsb (fun p => pat_sem p sel) ps end
             then (fix run (ts : list atree) (acc : Z) : Z :=
                     match ts with [] => acc | t' :: ts' => run ts' (exec_atree w t' acc) end) (snd c) acc
             else go cs'
         end) cs
  end.
Definition exec_atrees (w : Z) (ts : list atree) (acc : Z) : Z :=
  fold_left (fun acc t => exec_atree w t acc) ts acc.

(* _nir: Match outputs (first matching pattern set, gated by `en`) and the flat AssignmentList:
   (cond, start, vw, value) in program order *)
Fixpoint flat_atree (en : bool) (t : atree) : list (bool * Z * Z * Z) :=
  match t with
  | TAssign s vw v => [(en, s, vw, v)]
  | TSwitch selw sel cs =>
      (fix go (cs : list (list pattern * list atree)) (still : bool) : list (bool * Z * Z * Z) :=
         match cs with
         | [] => []
         | c :: cs' =>
             let m := match fst c with [] => true | ps => existsb (fun p => pat_sem p sel) ps end in
             let sub := en && still && m in
             (fix run (ts : list atree) : list (bool * Z * Z * Z) :=
                match ts with [] => [] | t' :: ts' => flat_atree sub t' ++ run ts' end) (snd c)
             ++ go cs' (still && negb m)
         end) cs true
  end.
Definition flat_atrees (en : bool) (ts : list atree) : list (bool * Z * Z * Z) :=
  flat_map (flat_atree en) ts.

(* AssignmentList semantics: default, then every assignment in order, executed iff its condition holds *)
Definition exec_flat (w : Z) (l : list (bool * Z * Z * Z)) (acc : Z) : Z :=
  fold_left (fun acc (a : bool * Z * Z * Z) =>
               let '(c, s, vw, v) := a in if c then put w acc s vw v else acc) l acc.

(* ---- flip-flops ---- *)
(* one clock/reset event on a w-bit register chunk: (clock edge present, arst level) *)
Definition dff_next (q d : Z) (clk_edge : bool) : Z := if clk_edge then d else q.
Definition adff_next (w q d arstv : Z) (clk_edge arst : bool) : Z :=
  if arst then mask w arstv else if clk_edge then d else q.
(* emit_drivers for a sync-reset domain: the reset assignment is appended last to the assignment list *)
Definition d_with_sync_reset (w d_user init : Z) (rst : bool) : Z := if rst then put w d_user 0 w init else d_user.

(* ====================================================================== *)
(* 4. AssignmentList: _ir.NetlistDriver.emit_value (chunk windows, folding of an unconditional assignment into   *)
(*    the default) and rtlil.ModuleEmitter.emit_assignment_list (reconstruction of nested switches)             *)
(* ====================================================================== *)

(* a condition net: Net.from_const(1), or output `bit` of Match cell number `cell` *)
Inductive cnd := CTrue | CM (cell bit : nat).
Definition cnd_eqb (a b : cnd) : bool :=
  match a, b with
  | CTrue, CTrue => true
  | CM k i, CM k' i' => Nat.eqb k k' && Nat.eqb i i'
  | _, _ => false
  end.

(* _nir.Match: enable net, matched value, one pattern set per output bit *)
Record mcell := MC { mc_en : cnd; mc_sel : list net; mc_pats : list (list pattern) }.
Definition mtab := list mcell.          (* Match cell k is the k-th entry *)

(* _nir.Assignment *)
Record nassign := NA { na_cond : cnd; na_start : Z; na_val : list net }.

(* ---- NIR semantics ---- *)
Definition pl_match (sel : Z) (pl : list pattern) : bool := existsb (fun p => pat_sem p sel) pl.
(* Match output `bit` (enable aside): its pattern set matches and no earlier one does *)
Fixpoint first_match (sel : Z) (pats : list (list pattern)) (bit : nat) : bool :=
  match pats, bit with
  | [], _ => false
  | pl :: _, O => pl_match sel pl
  | pl :: r, S b => negb (pl_match sel pl) && first_match sel r b
  end.
Fixpoint cnd_val (fuel : nat) (rho : valuation) (tab : mtab) (c : cnd) : bool :=
  match c with
  | CTrue => true
  | CM k b =>
      match fuel with
      | O => false
      | S f =>
          match nth_error tab k with
          | None => false
          | Some mc => cnd_val f rho tab (mc_en mc) && first_match (nval rho (mc_sel mc)) (mc_pats mc) b
          end
      end
  end.
Definition cval (rho : valuation) (tab : mtab) (c : cnd) : bool := cnd_val (S (length tab)) rho tab c.

(* AssignmentList: start from the default; every assignment in order, executed iff its condition is 1, replaces
   len(value) bits at `start` (bits beyond the output width are ignored) *)
Definition nir_step (cv : cnd -> bool) (rho : valuation) (w : Z) (acc : Z) (a : nassign) : Z :=
  if cv (na_cond a) then put w acc (na_start a) (nlen (na_val a)) (nval rho (na_val a)) else acc.
Definition nir_run (cv : cnd -> bool) (rho : valuation) (w : Z) (l : list nassign) (acc : Z) : Z :=
  fold_left (nir_step cv rho w) l acc.

(* ---- NetlistDriver.emit_value for the chunk [cs, ce) of the signal ---- *)
Definition nslice (v : list net) (lo hi : Z) : list net := firstn (Z.to_nat (hi - lo)) (skipn (Z.to_nat lo) v).

Fixpoint emit_value_loop (cs ce : Z) (l : list nassign) (default : list net) (kept : list nassign)
  : list net * list nassign :=
  match l with
  | [] => (default, kept)
  | a :: r =>
      let len := nlen (na_val a) in
      if ce <=? na_start a then emit_value_loop cs ce r default kept
      else if na_start a + len <=? cs then emit_value_loop cs ce r default kept
      else if cnd_eqb (na_cond a) CTrue && (na_start a =? cs) && (len =? ce - cs)
              && (match kept with [] => true | _ => false end)
      then emit_value_loop cs ce r (na_val a) kept
      else
        let '(start, value) :=
          if na_start a <? cs then (0, skipn (Z.to_nat (cs - na_start a)) (na_val a))
          else (na_start a - cs, na_val a) in
        let value := if ce - cs <? start + nlen value then firstn (Z.to_nat (ce - cs - start)) value else value in
        emit_value_loop cs ce r default (kept ++ [NA (na_cond a) start value])
  end.
(* sigdefault: the nets of the whole signal the chunk defaults to (init constant / the register's own output) *)
Definition emit_value (cs ce : Z) (sigdefault : list net) (l : list nassign) : list net * list nassign :=
  emit_value_loop cs ce l (nslice sigdefault cs ce) [].

(* ---- rtlil.emit_assignment_list ---- *)
(* the process body it builds (before _emit_process_contents prints it): assignments of nets at a bit offset of the
   cell's own output, switches on a Match cell's value; an empty pattern list is the `default()` case *)
Inductive ptree :=
| PA (start : Z) (v : list net)
| PS (sel : list net) (cases : list (list pattern * list ptree)).

(* pattern_list == ("-" * len(match_cell.value),) *)
Definition is_default (n : nat) (pl : list pattern) : bool :=
  match pl with
  | [p] => Nat.eqb (length p) n && forallb (fun b => match b with None => true | Some _ => false end) p
  | _ => false
  end.

(* the `while True` search: climb from the assignment's condition through the `en` nets until `cond` (the Match cell
   visited last is the one to enter) or until const 1 (not nested: back to the parent invocation) *)
Inductive climb_res := Found (cell : nat) | NotNested | Stuck.
Fixpoint climb (fuel : nat) (tab : mtab) (cond c : cnd) (last : option nat) : climb_res :=
  match fuel with
  | O => Stuck
  | S f =>
      if cnd_eqb c cond then match last with Some k => Found k | None => Stuck end
      else match c with
           | CTrue => NotNested
           | CM k _ => match nth_error tab k with
                       | Some mc => climb f tab cond (mc_en mc) (Some k)
                       | None => Stuck
                       end
           end
  end.

(* emit_assignments(case, cond) over the not yet consumed assignments (`pos` = the head of the list):
   (statements put into `case`, assignments left for the caller) *)
Fixpoint emit_as (fuel : nat) (tab : mtab) (cond : cnd) (l : list nassign) : list ptree * list nassign :=
  match fuel with
  | O => ([], l)
  | S f =>
      match l with
      | [] => ([], [])
      | a :: r =>
          if cnd_eqb (na_cond a) cond then
            let '(ts, rest) := emit_as f tab cond r in (PA (na_start a) (na_val a) :: ts, rest)
          else
            match climb (S (S (length tab))) tab cond (na_cond a) None with
            | Found k =>
                match nth_error tab k with
                | Some mc =>
                    let '(cases, rest) := emit_cases f tab k (length (mc_sel mc)) (mc_pats mc) 0 l in
                    let '(ts, rest') := emit_as f tab cond rest in
                    (PS (mc_sel mc) cases :: ts, rest')
                | None => ([], l)
                end
            | _ => ([], l)
            end
      end
  end
(* `for bit, pattern_list in enumerate(match_cell.patterns)`: one case per output bit, in order; a case with an empty
   pattern list is filled but not added to the switch *)
with emit_cases (fuel : nat) (tab : mtab) (k : nat) (selw : nat) (pats : list (list pattern)) (bit : nat)
                (l : list nassign) : list (list pattern * list ptree) * list nassign :=
  match fuel with
  | O => ([], l)
  | S f =>
      match pats with
      | [] => ([], l)
      | pl :: ps =>
          let '(body, rest) := emit_as f tab (CM k bit) l in
          let '(cs, rest') := emit_cases f tab k selw ps (S bit) rest in
          if is_default selw pl then (([], body) :: cs, rest')
          else match pl with
               | [] => (cs, rest')
               | _ => ((pl, body) :: cs, rest')
               end
      end
  end.

Definition max_pats (tab : mtab) : nat := fold_right (fun mc m => Nat.max (length (mc_pats mc)) m) 0%nat tab.
Definition al_fuel (tab : mtab) (l : list nassign) : nat :=
  S (length l * S (S (length tab) * (max_pats tab + 3)))%nat.

(* proc.assign(lhs, default); emit_assignments(proc, const 1); assert pos == len(cell.assignments)  (None = the assert) *)
Definition emit_assignment_list (tab : mtab) (default : list net) (l : list nassign) : option (list ptree) :=
  let '(ts, rest) := emit_as (al_fuel tab l) tab CTrue l in
  match rest with
  | [] => Some (PA 0 default :: ts)
  | _ => None
  end.

(* the process body as values under a valuation: the RTLIL process semantics is exec_atrees above *)
Fixpoint ptree_atree (rho : valuation) (t : ptree) : atree :=
  match t with
  | PA s v => TAssign s (nlen v) (nval rho v)
  | PS sel cs =>
      TSwitch (nlen sel) (nval rho sel)
        ((fix go (cs : list (list pattern * list ptree)) : list (list pattern * list atree) :=
            match cs with
            | [] => []
            | c :: cs' =>
                (fst c, (fix run (ts : list ptree) : list atree :=
                           match ts with [] => [] | t' :: ts' => ptree_atree rho t' :: run ts' end) (snd c)) :: go cs'
            end) cs)
  end.
Definition exec_ptrees (rho : valuation) (w : Z) (ts : list ptree) (acc : Z) : Z :=
  exec_atrees w (map (ptree_atree rho) ts) acc.

(* ====================================================================== *)
(* 5. Descriptors of what the lowering emits (for the structural tie to the real emitter)                         *)
(* ====================================================================== *)
(* the NIR operator and operands _ir.emit_rhs hands to rtlil.emit_operator for one Amaranth operator node
   (lower_op2 above = these, through emit_binary, plus the result slice: Proofs lower_op2_via_ir) *)
Definition ir_op2 (o : op2) (a : list net) (sa : bool) (b : list net) (sb : bool) : nop2 * list net * list net :=
  match o with
  | OAnd | OOr | OXor =>
      let '(a', b', sg) := unify_bitwise a sa b sb in
      (match o with OAnd => N2And | OOr => N2Or | _ => N2Xor end, a', b')
  | OAdd | OSub =>
      let '(a', b', sg) := unify_bitwise a sa b sb in
      let w := nlen a' + 1 in
      (match o with OAdd => N2Add | _ => N2Sub end, extend a' sg w, extend b' sg w)
  | OMul => let w := nlen a + nlen b in (N2Mul, extend a sa w, extend b sb w)
  | ODiv =>
      let w := nlen a + (if sb then 1 else 0) in
      let '(a', b', sg) := unify_bitwise a sa b sb in
      let '(a'', b'') := if nlen a' <? w then (extend a' sg w, extend b' sg w) else (a', b') in
      (if sg then N2DivS else N2DivU, a'', b'')
  | OMod =>
      let '(a', b', sg) := unify_bitwise a sa b sb in (if sg then N2ModS else N2ModU, a', b')
  | OShl => (N2Shl, extend a sa (nlen a + 2 ^ nlen b - 1), b)
  | OShr => (if sa then N2ShrS else N2ShrU, a, b)
  | OEq | ONe =>
      let '(a', b', _) := unify_bitwise a sa b sb in (match o with OEq => N2Eq | _ => N2Ne end, a', b')
  | OLt | OLe | OGt | OGe =>
      let '(a', b', sg) := unify_bitwise a sa b sb in
      (match o, sg with
       | OLt, false => N2LtU | OLt, true => N2LtS | OLe, false => N2LeU | OLe, true => N2LeS
       | OGt, false => N2GtU | OGt, true => N2GtS | OGe, false => N2GeU | _, _ => N2GeS
       end, a', b')
  end.

Definition ckind_code (k : ckind) : Z :=
  match k with
  | KNot => 0 | KNeg => 1 | KRand => 2 | KRor => 3 | KRxor => 4 | KRbool => 5
  | KAdd => 6 | KSub => 7 | KMul => 8 | KDivF => 9 | KModF => 10 | KShl => 11 | KShr => 12 | KSshr => 13 | KShift => 14
  | KAnd => 15 | KOr => 16 | KXor => 17 | KEq => 18 | KNe => 19 | KLt => 20 | KLe => 21 | KGt => 22 | KGe => 23
  end.

(* the first cell emit_operator writes for a binary NIR operator: type, A_SIGNED, B_SIGNED, A_WIDTH, B_WIDTH, Y_WIDTH,
   and whether the $reduce_bool / $mux zero-divisor guard follows *)
Definition cell_desc2 (o : nop2) (a b : list net) : list Z :=
  let '(k, _, _) := bin_table o in
  let '(asg, bsg, oa, ob) := choose_operands o a b in
  [ckind_code k; b2z asg; b2z bsg; nlen oa; nlen ob; nop2_width o a; b2z (is_divmod o)].

Definition cell_desc1 (o : nop1) (a : list net) : list Z :=
  match o with
  | N1Neg =>
      let au := shorten a false in let as_ := shorten a true in
      let '(sg, opd) := if nlen as_ <? nlen au then (true, as_) else (false, au) in
      [ckind_code KNeg; b2z sg; nlen opd; nop1_width o a]
  | _ => [ckind_code (un_table o); 0; nlen a; nop1_width o a]
  end.

(* emit_part: [stride <> 1 ($mul emitted); B_WIDTH of the $shift; A_SIGNED; A_WIDTH; Y_WIDTH] *)
Definition part_desc (v : list net) (vsg : bool) (off : list net) (w stride : Z) : list Z :=
  [b2z (negb (stride =? 1));
   (if stride =? 1 then nlen off else nlen off + bits_for stride false); b2z vsg; nlen v; w].

(* $meminit_v2 with ABITS 0 / ADDR {} : the DATA constant holds WORDS rows of WIDTH bits, row 0 in the low bits *)
Definition meminit_rows (w words data : Z) : list Z :=
  map (fun k => mask w (Z.shiftr data (w * Z.of_nat k))) (seq 0 (Z.to_nat words)).
Definition MemI (w size data : Z) : memdecl := Mem w size (meminit_rows w size data).

(* ====================================================================== *)
(* 6. _ir.NetlistEmitter.emit_assign: an assignment target lowered to windowed, conditional Assignments             *)
(* ====================================================================== *)
(* a condition net described by the chain of Match cells producing it (emit_match(en, value, patterns)[bit]) *)
Inductive acond := ATrue | AMatch (en : acond) (sel : list net) (pats : list (list pattern)) (bit : nat).
Fixpoint aval (rho : valuation) (c : acond) : bool :=
  match c with
  | ATrue => true
  | AMatch en sel pats bit => aval rho en && first_match (nval rho sel) pats bit
  end.

(* to_binary(idx, w) and "-" * w as patterns (MSB first) *)
Definition to_binary (w : nat) (idx : Z) : pattern := map (fun k => Some (Z.testbit idx (Z.of_nat k))) (rev (seq 0 w)).
Definition dashes (w : nat) : pattern := repeat None w.

(* one _nir.Assignment appended to the driver of signal wa_sig *)
Record wassign := WA { wa_sig : nat; wa_cond : acond; wa_start : Z; wa_val : list net }.

Section EmitAssign.
  (* the nets emit_rhs returns for a part-select offset / a choice selector *)
  Variable selnets : expr -> list net.

  (* emit_assign(lhs, lhs_start, rhs, cond): assign rhs to lhs[lhs_start : lhs_start + len(rhs)] *)
  Fixpoint emit_assign (lhs : expr) (start : Z) (rhs : list net) (cond : acond) : list wassign :=
    match lhs with
    | ESig i _ => [WA i cond start rhs]
    | EOp1 OU a | EOp1 OS a => emit_assign a start rhs cond
    | ESlice a lo hi => emit_assign a (start + lo) rhs cond
    | ECat parts =>
        (fix go (ps : list expr) (part_stop : Z) : list wassign :=
           match ps with
           | [] => []
           | p :: ps' =>
               let part_start := part_stop in
               let part_stop := part_start + ewidth p in
               if part_stop <=? start then go ps' part_stop
               else if start + nlen rhs <=? part_start then go ps' part_stop
               else
                 let pls := if start <? part_start then 0 else start - part_start in
                 let prs := if start <? part_start then part_start - start else 0 in
                 let pre := if part_stop <=? start + nlen rhs then part_stop - start else nlen rhs in
                 emit_assign p pls (nslice rhs prs pre) cond ++ go ps' part_stop
           end) parts 0
    | EPart a off w st =>
        let offn := selnets off in
        let width := ewidth a in
        let ncases := Z.to_nat (Z.min ((width + st - 1) / st) (2 ^ nlen offn)) in
        let pats := map (fun k => [to_binary (length offn) (Z.of_nat k)]) (seq 0 ncases) in
        (fix go (ks : list nat) : list wassign :=
           match ks with
           | [] => []
           | k :: ks' =>
               let s := start + Z.of_nat k * st in
               (if width <=? s then []
                else emit_assign a s (if width <=? s + nlen rhs then firstn (Z.to_nat (width - s)) rhs else rhs)
                                 (AMatch cond offn pats k))
               ++ go ks'
           end) (seq 0 ncases)
    | ESwitch t cs =>
        let tn := selnets t in
        let pats := map (fun c : option (list pattern) * expr =>
                           match fst c with Some ps => ps | None => [dashes (length tn)] end) cs in
        (fix go (cs : list (option (list pattern) * expr)) (k : nat) : list wassign :=
           match cs with
           | [] => []
           | c :: cs' =>
               (* if lhs_start >= len(val): continue ; rhs[:len(val) - lhs_start]   (/repo 961f42e; before that fix
                  rhs[:len(val)] without the skip wrote past a narrower element) *)
               (if ewidth (snd c) <=? start then []
                else emit_assign (snd c) start (firstn (Z.to_nat (ewidth (snd c) - start)) rhs) (AMatch cond tn pats k))
               ++ go cs' (S k)
           end) cs 0%nat
    | _ => []
    end.
End EmitAssign.

(* the AssignmentList semantics restricted to one signal of width w *)
Definition wa_step (rho : valuation) (i : nat) (w : Z) (acc : Z) (a : wassign) : Z :=
  if Nat.eqb (wa_sig a) i && aval rho (wa_cond a)
  then put w acc (wa_start a) (nlen (wa_val a)) (nval rho (wa_val a)) else acc.
Definition wa_run (rho : valuation) (i : nat) (w : Z) (l : list wassign) (acc : Z) : Z :=
  fold_left (wa_step rho i w) l acc.

(* DslRaw.v — designs AS WRITTEN in the Module DSL (hdl/_dsl.py) and their simulation:
   * `rstmt` / `rfsm` / `ritem`: a module body as the user writes it — assignments tagged with their domain,
     If/Elif/Else, Switch with RAW Case patterns (ints, strings with whitespace, Enum members by value), FSM with its
     states in order, early ongoing() references, `m.next = s` where it occurs, `init=`;
   * `lower_module`: what Module.elaborate produces per domain — raw patterns go through `normalize_patterns`
     (Derived.v, tied to the source by unit `derived`), If/Switch through `lower` (Dsl.v), FSMs through `fsm_ref`
     (encoding by first reference), `pop_fsm` (register shape, init value, ongoing() assignments, Switch) and
     `m.next = s` becomes the assignment of the code of s to the state register in the FSM's domain;
     exceptions are returned as the class of the first one raised;
   * `run_design`: the simulator's delta-cycle loop (sim/pysim.py step_design / commit, sim/_pyrtl.py wakers): one
     comb process and one process per clock domain for every module; a clock-domain process runs when its clock makes
     its active edge (the whole process) or its asynchronous reset rises alone (reset values only).
   No proofs here (Proofs/DslRawP.v). *)
From Coq Require Import ZArith List Bool.
From V.Model Require Import Bits Shape Ast Denote PyRTL PyEval Stmt Process Derived Dsl.
Import ListNotations.
Open Scope Z_scope.

(* ---------- programs ---------- *)
(* domain 0 is comb, domain k+1 the k-th clock domain of the design *)
Inductive rstmt :=
| RAssign (dom : nat) (lhs rhs : expr)
| RIf (branches : list (expr * list rstmt)) (has_else : bool) (els : list rstmt)
| RSwitch (test : expr) (cases : list (option (list rawpat) * list rstmt))       (* None = Default *)
| RNext (s : nat).                                                              (* m.next = s *)

(* with m.FSM(init=.., domain=..) as fsm: [fsm.ongoing(p) for p in pre]; with m.State(s): body ...
   f_reg: identity of the state register; f_og: identity of the signal ongoing(s) returns *)
Record rfsm := RFsm { f_reg : nat; f_dom : nat; f_init : option nat; f_pre : list nat;
                      f_states : list (nat * list rstmt); f_og : list (nat * nat) }.

Inductive ritem := IStmt (r : rstmt) | IFsm (f : rfsm).

(* result or exception class *)
Definition res (A : Type) : Type := sum A Z.
Definition E_OTHER : Z := 0.      (* TypeError / ValueError / IndexError of an ill-formed expression or target *)
Definition E_SYNTAX : Z := 1.     (* SyntaxError *)
Definition E_NAME : Z := 2.       (* NameError *)
Definition E_KEY : Z := 3.        (* KeyError *)

(* Switch.__init__: a normalised int pattern becomes to_binary(key & mask, len(test)) *)
Definition pat_of_npat (w : Z) (p : npat) : pattern :=
  match p with NStr p => p | NInt v => bin_pattern w v end.

(* m.Case(patterns...) *)
Definition case_patterns (t : expr) (ps : option (list rawpat)) : res (option (list pattern)) :=
  match ps with
  | None => inl None
  | Some raw => match normalize_patterns (shape_of t) raw with
                | None => inr E_SYNTAX
                | Some l => inl (Some (map (pat_of_npat (ewidth t)) l))
                end
  end.

(* the enclosing FSM of a statement: state register, domain, encoding *)
Definition fsm_ctx : Type := option (expr * nat * list (nat * Z)).

(* the part of a statement that lands in domain `dom` *)
Fixpoint rproj (ctx : fsm_ctx) (dom : nat) (r : rstmt) {struct r} : res (list dstmt) :=
  let run := (fix run (l : list rstmt) : res (list dstmt) :=
                match l with
                | [] => inl []
                | x :: l' => match rproj ctx dom x with
                             | inr e => inr e
                             | inl a => match run l' with inr e => inr e | inl b => inl (a ++ b) end
                             end
                end) in
  match r with
  | RAssign d l rhs => inl (if Nat.eqb d dom then [DAssign l rhs] else [])
  | RIf brs he els =>
      match (fix go (brs : list (expr * list rstmt)) : res (list (expr * list dstmt)) :=
               match brs with
               | [] => inl []
               | br :: brs' => match run (snd br) with
                               | inr e => inr e
                               | inl b => match go brs' with inr e => inr e | inl r => inl ((fst br, b) :: r) end
                               end
               end) brs with
      | inr e => inr e
      | inl brs' => match run els with inr e => inr e | inl els' => inl [DIf brs' he els'] end
      end
  | RSwitch t cs =>
      match (fix go (cs : list (option (list rawpat) * list rstmt)) : res (list (option (list pattern) * list dstmt)) :=
               match cs with
               | [] => inl []
               | c :: cs' => match case_patterns t (fst c) with
                             | inr e => inr e
                             | inl ps => match run (snd c) with
                                         | inr e => inr e
                                         | inl b => match go cs' with inr e => inr e | inl r => inl ((ps, b) :: r) end
                                         end
                             end
               end) cs with
      | inr e => inr e
      | inl cs' => inl [DSwitch t cs']
      end
  | RNext s =>
      match ctx with
      | None => inr E_SYNTAX                     (* `m.next = <...>` is only permitted inside an FSM state *)
      | Some (reg, fdom, enc) =>
          match assoc_get enc s with
          | Some k => inl (if Nat.eqb fdom dom then [DAssign reg (mk_const_auto k)] else [])
          | None => inr E_KEY
          end
      end
  end.

Fixpoint rproj_list (ctx : fsm_ctx) (dom : nat) (l : list rstmt) : res (list dstmt) :=
  match l with
  | [] => inl []
  | x :: l' => match rproj ctx dom x with
               | inr e => inr e
               | inl a => match rproj_list ctx dom l' with inr e => inr e | inl b => inl (a ++ b) end
               end
  end.

(* lowered statements of a body for one domain (ill-formed expressions / targets: exception) *)
Definition lower_body (ctx : fsm_ctx) (dom : nat) (l : list rstmt) : res (list stmt) :=
  match rproj_list ctx dom l with
  | inr e => inr e
  | inl ds => if forallb wf_dstmt ds then inl (map lower ds) else inr E_OTHER
  end.

(* ---------- FSM ---------- *)
(* state names referenced by `m.next = ` in program order *)
Fixpoint next_refs (r : rstmt) : list nat :=
  let run := (fix run (l : list rstmt) : list nat :=
                match l with [] => [] | x :: l' => next_refs x ++ run l' end) in
  match r with
  | RAssign _ _ _ => []
  | RIf brs _ els =>
      (fix go (brs : list (expr * list rstmt)) : list nat :=
         match brs with [] => [] | br :: brs' => run (snd br) ++ go brs' end) brs ++ run els
  | RSwitch _ cs =>
      (fix go (cs : list (option (list rawpat) * list rstmt)) : list nat :=
         match cs with [] => [] | c :: cs' => run (snd c) ++ go cs' end) cs
  | RNext s => [s]
  end.

(* all references in the order they happen: ongoing() before the states, then State(s) and the m.next inside it *)
Definition fsm_refs (f : rfsm) : list nat :=
  f_pre f ++ flat_map (fun sb => fst sb :: flat_map next_refs (snd sb)) (f_states f).

Definition og_id (f : rfsm) (s : nat) : nat := match assoc_get (f_og f) s with Some i => i | None => O end.

(* (encoding, ongoing) after all references *)
Definition fsm_tables (f : rfsm) : list (nat * Z) * list (nat * expr) :=
  fold_left (fun st s => fsm_ref st s (og_id f s)) (fsm_refs f) ([], []).

Fixpoint memb (x : nat) (l : list nat) : bool :=
  match l with [] => false | y :: l' => Nat.eqb y x || memb x l' end.
Fixpoint nodupb (l : list nat) : bool :=
  match l with [] => true | x :: l' => negb (memb x l') && nodupb l' end.

Fixpoint res_map {A B : Type} (f : A -> res B) (l : list A) : res (list B) :=
  match l with
  | [] => inl []
  | x :: l' => match f x with
               | inr e => inr e
               | inl y => match res_map f l' with inr e => inr e | inl ys => inl (y :: ys) end
               end
  end.

(* what an FSM contributes: (state register, its init value, top-level comb statements, statements per domain) *)
Definition fsm_lower (ndom : nat) (f : rfsm) : res (expr * Z * list stmt * list (list stmt)) :=
  let names := map fst (f_states f) in
  if negb (nodupb names) then inr E_NAME                                    (* FSM state is already defined *)
  else
    let enc := fst (fsm_tables f) in
    let og := snd (fsm_tables f) in
    if negb (forallb (fun s => memb s names) (map fst enc)) then inr E_NAME  (* referenced but not defined *)
    else
      let reg := ESig (f_reg f) (fsm_state_shape (fsm_decoding [] enc)) in
      let ctx : fsm_ctx := Some (reg, f_dom f, enc) in
      match res_map (fun d =>
               match res_map (fun sb => match lower_body ctx d (snd sb) with
                                        | inr e => inr e
                                        | inl b => inl (fst sb, b)
                                        end) (f_states f) with
               | inr e => inr e
               | inl states_d =>
                   match pop_fsm (f_reg f) (f_init f) enc [] states_d og with
                   | None => inr E_KEY
                   | Some out => inl out
                   end
               end) (seq 0 ndom) with
      | inr e => inr e
      | inl [] => inr E_OTHER
      | inl ((r0, iv, ogs, sw0) :: rest) =>
          inl (r0, iv, ogs, sw0 :: map (fun o => snd o) rest)
      end.

(* ---------- a module ---------- *)
Record lowered := Lowered { l_doms : list (list stmt);          (* statements per domain *)
                            l_sigs : list (nat * sigdesc);      (* signals the module creates (FSM registers, ongoing) *)
                            l_info : list Z }.                  (* per FSM: register width, signedness, init *)

Fixpoint zip_app {A : Type} (a b : list (list A)) : list (list A) :=
  match a, b with
  | x :: a', y :: b' => (x ++ y) :: zip_app a' b'
  | _, [] => a
  | [], _ => b
  end.

Definition mk_sd (s : shape) (init : Z) (rl : bool) : sigdesc := {| sd_shape := s; sd_init := init; sd_reset_less := rl |}.

(* per item: (statements per domain, top-level comb statements, new signals, info) *)
Definition lower_item (ndom : nat) (it : ritem) : res (list (list stmt) * list stmt * list (nat * sigdesc) * list Z) :=
  match it with
  | IStmt r =>
      match res_map (fun d => lower_body None d [r]) (seq 0 ndom) with
      | inr e => inr e
      | inl ds => inl (ds, [], [], [])
      end
  | IFsm f =>
      match fsm_lower ndom f with
      | inr e => inr e
      | inl (reg, iv, ogs, ds) =>
          inl (ds, ogs,
               (f_reg f, mk_sd (shape_of reg) iv false) ::
               map (fun so => (match snd so with ESig i _ => i | _ => O end, mk_sd (Sh 1 false) 0 false)) (snd (fsm_tables f)),
               [width (shape_of reg); if sgn (shape_of reg) then 1 else 0; iv])
      end
  end.

Fixpoint lower_items (ndom : nat) (items : list ritem)
  : res (list (list stmt) * list stmt * list (nat * sigdesc) * list Z) :=
  match items with
  | [] => inl (repeat [] ndom, [], [], [])
  | it :: items' =>
      match lower_item ndom it with
      | inr e => inr e
      | inl (ds, top, sg, info) =>
          match lower_items ndom items' with
          | inr e => inr e
          | inl (ds', top', sg', info') => inl (zip_app ds ds', top ++ top', sg ++ sg', info ++ info')
          end
      end
  end.

(* Module.elaborate: the statements of every domain, then the top-level comb statements *)
Definition lower_module (ndom : nat) (items : list ritem) : res lowered :=
  match lower_items ndom items with
  | inr e => inr e
  | inl (ds, top, sg, info) => inl (Lowered (zip_app ds [top]) sg info)
  end.

(* ---------- simulation ---------- *)
Record domdesc := DomDesc { d_clk : nat; d_pos : bool; d_rst : option nat; d_async : bool }.

(* a design: for every module the statements per domain *)
Definition design : Type := list (list (list stmt)).

Definition run_comb (tab : sigtab) (mods : design) (st : slots) : slots :=
  fold_left (fun st m => comb_process tab (nth 0 m []) st) mods st.

Definition run_sync (tab : sigtab) (mods : design) (k : nat) (d : domdesc) (st : slots) : slots :=
  fold_left (fun st m => sync_process tab (nth (S k) m []) (d_rst d) st) mods st.

(* a clock-domain process woken by the rising edge of its ASYNCHRONOUS reset alone (no active clock edge in the same
   delta): it only loads the reset values — every driven signal that is not reset-less gets update(init, mask) — and
   returns; the statements do not run *)
Definition async_reset_process (tab : sigtab) (ss : list stmt) (st : slots) : slots :=
  let m := stmts_mask ss in
  {| s_curr := s_curr st;
     s_next := fun i => if (m i =? 0) || sd_reset_less (tab i) then s_next st i
                        else slot_update (s_next st i) (sd_init (tab i)) (update_mask (sd_shape (tab i)) (m i)) |}.

Definition run_async_reset (tab : sigtab) (mods : design) (k : nat) (st : slots) : slots :=
  fold_left (fun st m => async_reset_process tab (nth (S k) m []) st) mods st.

(* edge_waker / clock_edge_waker: the process is woken when the signal CHANGES TO the polarity *)
Definition clk_fires (old new : env) (d : domdesc) : bool :=
  negb (old (d_clk d) =? new (d_clk d)) && (new (d_clk d) =? (if d_pos d then 1 else 0)).
Definition rst_fires (old new : env) (d : domdesc) : bool :=
  match d_rst d with
  | Some r => d_async d && negb (old r =? new r) && (new r =? 1)
  | None => false
  end.

(* the clock-domain processes woken by the change old -> new of the signal values *)
Definition run_doms (tab : sigtab) (doms : list domdesc) (mods : design) (old new : env) (st : slots) : slots :=
  fold_left (fun st kd =>
               let '(k, d) := kd in
               if clk_fires old new d then run_sync tab mods k d st
               else if rst_fires old new d then run_async_reset tab mods k st
               else st)
            (combine (seq 0 (length doms)) doms) st.

Definition env_eqb (n : nat) (a b : env) : bool := forallb (fun i => a i =? b i) (seq 0 n).

(* delta cycles of the comb processes until a commit changes nothing; false = fuel exhausted *)
Fixpoint settle (fuel n : nat) (tab : sigtab) (mods : design) (st : slots) : slots * bool :=
  match fuel with
  | O => (st, false)
  | S f =>
      let st' := commit (run_comb tab mods st) in
      if env_eqb n (s_curr st') (s_curr st) then (st', true) else settle f n tab mods st'
  end.

(* ctx.set of several signals at once, then step_design *)
Definition apply_sets (l : list (nat * Z)) (st : slots) : slots :=
  commit {| s_curr := s_curr st; s_next := fold_left (fun nx iv => upd nx (fst iv) (snd iv)) l (s_next st) |}.

Definition step (fuel n : nat) (tab : sigtab) (doms : list domdesc) (mods : design) (st : slots) (l : list (nat * Z))
  : slots * bool :=
  let st1 := apply_sets l st in
  let st2 := commit (run_doms tab doms mods (s_curr st) (s_curr st1) (run_comb tab mods st1)) in
  settle fuel n tab mods st2.

Definition init_slots (tab : sigtab) : slots :=
  let e : env := fun i => sd_init (tab i) in {| s_curr := e; s_next := e |}.

Definition read_env (n : nat) (e : env) : list Z := map e (seq 0 n).

Fixpoint run_events (fuel n : nat) (tab : sigtab) (doms : list domdesc) (mods : design) (st : slots)
    (evs : list (list (nat * Z))) : option (list Z) :=
  match evs with
  | [] => Some []
  | ev :: evs' =>
      let '(st', ok) := step fuel n tab doms mods st ev in
      if ok then match run_events fuel n tab doms mods st' evs' with
                 | Some r => Some (read_env n (s_curr st') ++ r)
                 | None => None
                 end
      else None
  end.

(* all signal values at time 0 and after every event; None = a settle did not converge within the fuel *)
Definition run_design (fuel n : nat) (tab : sigtab) (doms : list domdesc) (mods : design)
    (evs : list (list (nat * Z))) : option (list Z) :=
  let '(st0, ok) := settle fuel n tab mods (init_slots tab) in
  if ok then match run_events fuel n tab doms mods st0 evs with
             | Some r => Some (read_env n (s_curr st0) ++ r)
             | None => None
             end
  else None.

(* signal table: the declared signals, then the signals the modules create at the identities they were given *)
Definition base_tab (l : list sigdesc) : sigtab := fun i => nth i l (mk_sd (Sh 0 false) 0 false).
Fixpoint sd_lookup (l : list (nat * sigdesc)) (i : nat) : option sigdesc :=
  match l with [] => None | (j, d) :: r => if Nat.eqb j i then Some d else sd_lookup r i end.
Definition full_tab (l : list sigdesc) (extra : list (nat * sigdesc)) : sigtab :=
  fun i => match sd_lookup extra i with Some d => d | None => base_tab l i end.

(* a whole design written in the DSL: every module lowered by the model, then simulated.
   answer: [0; class] if building raises; [2] if a settle does not converge; else 1 :: per FSM (width, signed, init)
   ++ all signal values at time 0 and after every event *)
Definition dsl_design (fuel : nat) (sigs : list sigdesc) (doms : list domdesc) (mods : list (list ritem))
    (evs : list (list (nat * Z))) : list Z :=
  match res_map (lower_module (S (length doms))) mods with
  | inr e => [0; e]
  | inl lows =>
      let extra := flat_map l_sigs lows in
      let n := (length sigs + length extra)%nat in
      match run_design fuel n (full_tab sigs extra) doms (map l_doms lows) evs with
      | None => [2]
      | Some tr => 1 :: flat_map l_info lows ++ tr
      end
  end.

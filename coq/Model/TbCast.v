(* TbCast.v — C05 (added after the coverage audit): TestbenchContext.get / .set on a value-castable whose shape is a
   ShapeCastable (sim/_async.py:727-748):
     set(expr, obj): value = Const.cast(shape.const(obj)).value ; engine.set_value(expr, value)
     get(expr):      shape.from_bits(engine.get_value(expr))
   for the shape-castables of the standard library (lib.data layouts, shaped lib.enum enumerations; their const / from_bits
   are the models of Data.v) and for a user-defined one.  No proofs here (see Proofs/TbCastP.v). *)
From Coq Require Import ZArith List Bool.
From V.Model Require Import Bits Shape Data.
Import ListNotations.
Open Scope Z_scope.

(* the value a signal of shape s holds after engine.set_value(sig, v): _PySignalState.update normalises *)
Definition sig_store (s : shape) (v : Z) : Z := norm s v.

(* --- a signal whose shape is a layout: Signal(layout) is a View of a Signal(unsigned(size)) --- *)
Definition layout_sig_shape (l : layout) : shape := Sh (layout_size l) false.
(* ctx.set(view, init): the stored bits, or the class of the exception raised by layout.const(init) *)
Definition tb_set_layout (l : layout) (i : init) : resz :=
  match layout_const l i with
  | Okz v => Okz (sig_store (layout_sig_shape l) v)
  | e => e
  end.
(* ctx.get(view) when the signal holds `stored`: layout.from_bits(stored) = data.Const(layout, stored) *)
Definition tb_get_layout (l : layout) (stored : Z) : res := from_bits l stored.

(* --- a signal whose shape is a shaped enumeration (members ms, shape s) --- *)
Definition tb_set_enum (s : shape) (ms : list Z) (i : Z) : resz :=
  match enum_const s ms i with
  | Okz v => Okz (sig_store s v)
  | e => e
  end.
Definition tb_get_enum (ms : list Z) (stored : Z) : resz := enum_from_bits ms stored.

(* --- a user-defined shape-castable (the harness's `Offset(w, k)`): as_shape() = unsigned(w), const(obj) = Const(obj + k, w),
   from_bits(raw) = raw - k --- *)
Definition tb_set_offset (w k obj : Z) : Z := sig_store (Sh w false) (const_norm (Sh w false) (obj + k)).
Definition tb_get_offset (k stored : Z) : Z := stored - k.

(* --- does ctx.set(target, v) raise ValueError("... cannot be assigned")?  _eval_assign_inner only complains when the
   recursion actually REACHES a node that is not assignable: a constant or an operator hidden in a part that the write
   window does not touch, or in a case that is not selected, is never noticed.  Mirrors Stmt.assign_tb (same windows). --- *)
From V.Model Require Import Ast PyEval.
Fixpoint tb_assign_err (curr : env) (lhs : expr) (start len : Z) : bool :=
  match lhs with
  | EOp1 OU a | EOp1 OS a => tb_assign_err curr a start len
  | ESig _ _ => false
  | ESlice a lo hi =>
      let lhs_len := hi - lo in
      if lhs_len <=? start then false
      else let len' := if lhs_len <? start + len then lhs_len - start else len in
           tb_assign_err curr a (start + lo) len'
  | ECat parts =>
      (fix go (ps : list expr) (part_stop : Z) : bool :=
         match ps with
         | [] => false
         | p :: ps' =>
             let part_start := part_stop in
             let part_len := ewidth p in
             let part_stop := part_start + part_len in
             if part_stop <=? start then go ps' part_stop
             else if start + len <=? part_start then go ps' part_stop
             else
               let part_lhs_start := if start <? part_start then 0 else start - part_start in
               let part_rhs_start := if start <? part_start then part_start - start else 0 in
               let part_rhs_len := if part_stop <=? start + len then part_stop - start - part_rhs_start
                                   else len - part_rhs_start in
               tb_assign_err curr p part_lhs_start part_rhs_len || go ps' part_stop
         end) parts 0
  | EPart a off w st =>
      let offset := eval_tb curr off * st in
      if w <=? start then false
      else let len' := if w <? start + len then w - start else len in
           tb_assign_err curr a (start + offset) len'
  | ESwitch t cs =>
      let tv := eval_tb curr t in
      (fix go (cs : list (option (list pattern) * expr)) : bool :=
         match cs with
         | [] => false
         | c :: cs' => if tb_case_match tv (fst c) then tb_assign_err curr (snd c) start len else go cs'
         end) cs
  | _ => true
  end.
Definition tb_set_err (curr : env) (lhs : expr) : bool := tb_assign_err curr lhs 0 (ewidth lhs).

(* TbCast.v — C05 (added after the coverage audit): TestbenchContext.get / .set on a value-castable whose shape is a
   ShapeCastable (sim/_async.py:727-748):
     set(expr, obj): value = Const.cast(shape.const(obj)).value ; engine.set_value(expr, value)
     get(expr):      shape.from_bits(engine.get_value(expr))
   for the shape-castables of the standard library (lib.data layouts, shaped lib.enum enumerations; their const / from_bits
   are the models of Data.v) and for a user-defined one.  No proofs here (see Proofs/TbCastP.v). *)
From Coq Require Import ZArith List Bool.
From V.Model Require Import Bits Shape Data.
Import ListNotations.
Open Scope Z_scope.

(* the value a signal of shape s holds after engine.set_value(sig, v): _PySignalState.update normalises *)
Definition sig_store (s : shape) (v : Z) : Z := norm s v.

(* --- a signal whose shape is a layout: Signal(layout) is a View of a Signal(unsigned(size)) --- *)
Definition layout_sig_shape (l : layout) : shape := Sh (layout_size l) false.
(* ctx.set(view, init): the stored bits, or the class of the exception raised by layout.const(init) *)
Definition tb_set_layout (l : layout) (i : init) : resz :=
  match layout_const l i with
  | Okz v => Okz (sig_store (layout_sig_shape l) v)
  | e => e
  end.
(* ctx.get(view) when the signal holds `stored`: layout.from_bits(stored) = data.Const(layout, stored) *)
Definition tb_get_layout (l : layout) (stored : Z) : res := from_bits l stored.

(* --- a signal whose shape is a shaped enumeration (members ms, shape s) --- *)
Definition tb_set_enum (s : shape) (ms : list Z) (i : Z) : resz :=
  match enum_const s ms i with
  | Okz v => Okz (sig_store s v)
  | e => e
  end.
Definition tb_get_enum (ms : list Z) (stored : Z) : resz := enum_from_bits ms stored.

(* --- a user-defined shape-castable (the harness's `Offset(w, k)`): as_shape() = unsigned(w), const(obj) = Const(obj + k, w),
   from_bits(raw) = raw - k --- *)
Definition tb_set_offset (w k obj : Z) : Z := sig_store (Sh w false) (const_norm (Sh w false) (obj + k)).
Definition tb_get_offset (k stored : Z) : Z := stored - k.

(* Crc.v — model of amaranth/lib/crc/__init__.py (Algorithm, Parameters.compute / residue / _matrices /
   _reflect, Processor.elaborate) and the Williams/Rocksoft bit-serial specification.
   No proofs here (see Proofs/CrcP.v). *)
From Coq Require Import ZArith List Bool.
From V.Model Require Import Bits.
Import ListNotations.
Open Scope Z_scope.

(* ------------------------------------------------------------------ parameters *)
(* Algorithm(crc_width, polynomial, initial_crc, reflect_input, reflect_output, xor_output) *)
Record algo := Algo {
  cw : Z; poly : Z; init : Z; refin : bool; refout : bool; xorout : Z }.

Definition in_bits (w v : Z) : bool := (0 <=? v) && (v <? 2 ^ w).

(* Algorithm.__init__ : the four ValueError checks *)
Definition algo_ok (a : algo) : bool :=
  (0 <? cw a) && in_bits (cw a) (poly a) && in_bits (cw a) (init a) && in_bits (cw a) (xorout a).

(* Parameters.__init__ : data_width > 0 *)
Definition params_ok (a : algo) (d : Z) : bool := algo_ok a && (0 <? d).

(* ------------------------------------------------------------------ bit helpers *)
(* the integer whose bit i (LSB first) is f i, for i < n *)
Fixpoint of_bits (f : nat -> bool) (n : nat) : Z :=
  match n with
  | O => 0
  | S n' => Z.b2z (f O) + 2 * of_bits (fun i => f (S i)) n'
  end.

(* sig[::-1] on an n-bit signal / n-bit reversal *)
Definition rev_bits (x n : Z) : Z :=
  of_bits (fun i => Z.testbit x (n - 1 - Z.of_nat i)) (Z.to_nat n).

(* Parameters._reflect(word, n) = int(f"{word:0{n}b}"[::-1], 2): the string has
   max(n, word.bit_length()) characters (word >= 0) *)
Definition reflect (word n : Z) : Z := rev_bits word (Z.max n (bit_length word)).

(* for _ in range(n): x = f(x) *)
Fixpoint iter {A : Type} (n : nat) (f : A -> A) (x : A) : A :=
  match n with O => x | S n' => iter n' f (f x) end.

(* ------------------------------------------------------------------ Parameters.compute *)
(* one pass of the inner loop; Python integers: no truncation here *)
Definition inner_step (top_bit poly_shifted crc : Z) : Z :=
  if negb (Z.land crc top_bit =? 0) then Z.lxor (Z.shiftl crc 1) poly_shifted
  else Z.shiftl crc 1.

(* body of `for word in data` after the range check *)
Definition word_update (a : algo) (d : Z) (crc word : Z) : Z :=
  let top_bit := Z.shiftl 1 (cw a + d - 1) in
  let crc_mask := Z.shiftl 1 (cw a + d) - 1 in
  let poly_shifted := Z.shiftl (poly a) d in
  let word := if refin a then reflect word d else word in
  let crc := Z.lxor crc (Z.shiftl word (cw a)) in
  let crc := iter (Z.to_nat d) (inner_step top_bit poly_shifted) crc in
  Z.land crc crc_mask.

(* the (crc_width + data_width)-bit shifted register after all words *)
Definition compute_reg (a : algo) (d : Z) (data : list Z) : Z :=
  fold_left (word_update a d) data (Z.shiftl (init a) d).

Definition compute_raw (a : algo) (d : Z) (data : list Z) : Z :=
  let crc := Z.shiftr (compute_reg a d data) d in
  let crc := if refout a then reflect crc (cw a) else crc in
  Z.lxor crc (xorout a).

(* `if not 0 <= word <= word_max: raise ValueError` (no side effect precedes it, so it is
   equivalent to a check of all words up front); None = ValueError *)
Definition word_ok (d word : Z) : bool := (0 <=? word) && (word <=? Z.shiftl 1 d - 1).
Definition compute (a : algo) (d : Z) (data : list Z) : option Z :=
  if forallb (word_ok d) data then Some (compute_raw a d data) else None.

(* Parameters.residue(); compute([0]) always passes the range check *)
Definition residue (a : algo) : Z :=
  let i := if refout a then reflect (xorout a) (cw a) else xorout a in
  compute_raw (Algo (cw a) (poly a) i false (refout a) 0) (cw a) [0].

(* [int(x) for x in reversed(f"{w:0{n}b}")], w < 2^n *)
Definition bits_lsb (x : Z) (n : Z) : list bool :=
  map (fun i => Z.testbit x (Z.of_nat i)) (seq 0 (Z.to_nat n)).

(* Parameters._matrices(): (f, g), transposed, LSB first *)
Definition matrices (a : algo) (d : Z) : list (list bool) * list (list bool) :=
  let al i := Algo (cw a) (poly a) i false false 0 in
  (map (fun i => bits_lsb (compute_raw (al (2 ^ Z.of_nat i)) d [0]) (cw a)) (seq 0 (Z.to_nat (cw a))),
   map (fun i => bits_lsb (compute_raw (al 0) d [2 ^ Z.of_nat i]) (cw a)) (seq 0 (Z.to_nat d))).

(* ------------------------------------------------------------------ Processor.elaborate *)
Definition mat_bit (m : list (list bool)) (j i : nat) : bool := nth i (nth j m []) false.

(* the XOR network: for i: bit = 0; for j: if F[j][i]: bit ^= source[j]; for j: if G[j][i]: bit ^= data_in[j] *)
Definition xor_network (F G : list (list bool)) (w d : Z) (source data_in : Z) : Z :=
  of_bits (fun i =>
    let bit := fold_left (fun bit j => if mat_bit F j i then xorb bit (Z.testbit source (Z.of_nat j)) else bit)
                         (seq 0 (Z.to_nat w)) false in
    fold_left (fun bit j => if mat_bit G j i then xorb bit (Z.testbit data_in (Z.of_nat j)) else bit)
              (seq 0 (Z.to_nat d)) bit) (Z.to_nat w).

Record cycle := Cy { c_start : bool; c_valid : bool; c_data : Z }.

(* next value of crc_reg at a clock edge; data is a data_width-bit signal *)
Definition hw_next (a : algo) (d : Z) (FG : list (list bool) * list (list bool)) (reg : Z) (c : cycle) : Z :=
  let data_in := if refin a then rev_bits (c_data c) d else c_data c in
  let source := if c_start c then init a else reg in
  if c_valid c then xor_network (fst FG) (snd FG) (cw a) d source data_in
  else if c_start c then init a
  else reg.

(* crc_reg after the given cycles (reset value: initial_crc) *)
Definition hw_run (a : algo) (d : Z) (cs : list cycle) : Z :=
  let FG := matrices a d in fold_left (hw_next a d FG) cs (init a).

(* combinational outputs *)
Definition hw_crc (a : algo) (reg : Z) : Z :=
  Z.lxor (if refout a then rev_bits reg (cw a) else reg) (xorout a).
(* match_detected against a precomputed residue (self._residue is computed once in __init__) *)
Definition hw_match_r (a : algo) (res reg : Z) : bool :=
  (if refout a then rev_bits reg (cw a) else reg) =? res.
Definition hw_match (a : algo) (reg : Z) : bool := hw_match_r a (residue a) reg.

(* (crc, match_detected) observed after every clock edge *)
Definition hw_trace (a : algo) (d : Z) (cs : list cycle) : list (Z * bool) :=
  let FG := matrices a d in
  let res := residue a in
  let fix go reg cs :=
    match cs with
    | [] => []
    | c :: r => let reg' := hw_next a d FG reg c in (hw_crc a reg', hw_match_r a res reg') :: go reg' r
    end in
  go (init a) cs.

(* ------------------------------------------------------------------ specification: Williams model *)
(* one message bit through the crc_width-bit register *)
Definition wstep (w p : Z) (reg : Z) (b : bool) : Z :=
  let top := xorb (Z.testbit reg (w - 1)) b in
  let reg := (Z.shiftl reg 1) mod 2 ^ w in
  if top then Z.lxor reg p else reg.

(* bits of one d-bit word in processing order: MSB first, or LSB first when the input is reflected *)
Definition word_bits (rin : bool) (d : Z) (x : Z) : list bool :=
  map (fun i => Z.testbit x (if rin then Z.of_nat i else d - 1 - Z.of_nat i)) (seq 0 (Z.to_nat d)).

Definition message_bits (a : algo) (d : Z) (data : list Z) : list bool :=
  flat_map (word_bits (refin a) d) data.

Definition williams_reg (a : algo) (bits : list bool) : Z :=
  fold_left (wstep (cw a) (poly a)) bits (init a).

Definition williams (a : algo) (bits : list bool) : Z :=
  let reg := williams_reg a bits in
  Z.lxor (if refout a then rev_bits reg (cw a) else reg) (xorout a).

(* words fed to the register since the last effective start *)
Definition since_start (cs : list cycle) : list Z :=
  fold_left (fun ws c => if c_valid c then (if c_start c then [c_data c] else ws ++ [c_data c])
                         else if c_start c then [] else ws) cs [].

Definition cycles_ok (d : Z) (cs : list cycle) : bool := forallb (fun c => word_ok d (c_data c)) cs.

(* the CRC value c as k data words in transmission order: register order (highest-order coefficient
   first), cut into k words of d bits, each presented so that input reflection restores it.
   For reflect_input = reflect_output this is: the little-endian words of c when reflected,
   the big-endian words of c otherwise. *)
Definition split_words (d : Z) (k : nat) (u : Z) : list Z :=
  map (fun i => (Z.shiftr u (d * (Z.of_nat k - 1 - Z.of_nat i))) mod 2 ^ d) (seq 0 k).

Definition trailer (a : algo) (d : Z) (k : nat) (c : Z) : list Z :=
  let u := if refout a then rev_bits c (cw a) else c in
  map (fun x => if refin a then rev_bits x d else x) (split_words d k u).

(* ------------------------------------------------------------------ published table *)
Definition check_msg : list Z := [49; 50; 51; 52; 53; 54; 55; 56; 57].   (* b"123456789" *)
(* (parameters, (check, residue)) — copied from /verif/data/crc_reveng.json (reveng catalogue values carried by
   tests/test_lib_crc.py); the harness compares this table with the JSON file and with the live catalog.py on every run *)
Definition reveng_table : list (algo * (Z * Z)) := [
  (Algo 3 3 0 false false 7, (4, 2));  (* CRC3_GSM *)
  (Algo 3 3 7 true true 0, (6, 0));  (* CRC3_ROHC *)
  (Algo 4 3 0 true true 0, (7, 0));  (* CRC4_G_704 *)
  (Algo 4 3 0 true true 0, (7, 0));  (* CRC4_ITU *)
  (Algo 4 3 15 false false 15, (11, 2));  (* CRC4_INTERLAKEN *)
  (Algo 5 9 9 false false 0, (0, 0));  (* CRC5_EPC_C1G2 *)
  (Algo 5 9 9 false false 0, (0, 0));  (* CRC5_EPC *)
  (Algo 5 21 0 true true 0, (7, 0));  (* CRC5_G_704 *)
  (Algo 5 21 0 true true 0, (7, 0));  (* CRC5_ITU *)
  (Algo 5 5 31 true true 31, (25, 6));  (* CRC5_USB *)
  (Algo 6 39 63 false false 0, (13, 0));  (* CRC6_CDMA2000_A *)
  (Algo 6 7 63 false false 0, (59, 0));  (* CRC6_CDMA2000_B *)
  (Algo 6 25 0 true true 0, (38, 0));  (* CRC6_DARC *)
  (Algo 6 3 0 true true 0, (6, 0));  (* CRC6_G_704 *)
  (Algo 6 3 0 true true 0, (6, 0));  (* CRC6_ITU *)
  (Algo 6 47 0 false false 63, (19, 58));  (* CRC6_GSM *)
  (Algo 7 9 0 false false 0, (117, 0));  (* CRC7_MMC *)
  (Algo 7 79 127 true true 0, (83, 0));  (* CRC7_ROHC *)
  (Algo 7 69 0 false false 0, (97, 0));  (* CRC7_UMTS *)
  (Algo 8 47 255 false false 255, (223, 66));  (* CRC8_AUTOSAR *)
  (Algo 8 167 0 true true 0, (38, 0));  (* CRC8_BLUETOOTH *)
  (Algo 8 155 255 false false 0, (218, 0));  (* CRC8_CDMA2000 *)
  (Algo 8 57 0 true true 0, (21, 0));  (* CRC8_DARC *)
  (Algo 8 213 0 false false 0, (188, 0));  (* CRC8_DVB_S2 *)
  (Algo 8 29 0 false false 0, (55, 0));  (* CRC8_GSM_A *)
  (Algo 8 73 0 false false 255, (148, 83));  (* CRC8_GSM_B *)
  (Algo 8 29 255 false false 0, (180, 0));  (* CRC8_HITAG *)
  (Algo 8 7 0 false false 85, (161, 172));  (* CRC8_I_432_1 *)
  (Algo 8 7 0 false false 85, (161, 172));  (* CRC8_ITU *)
  (Algo 8 29 253 false false 0, (126, 0));  (* CRC8_I_CODE *)
  (Algo 8 155 0 false false 0, (234, 0));  (* CRC8_LTE *)
  (Algo 8 49 0 true true 0, (161, 0));  (* CRC8_MAXIM_DOW *)
  (Algo 8 49 0 true true 0, (161, 0));  (* CRC8_MAXIM *)
  (Algo 8 29 199 false false 0, (153, 0));  (* CRC8_MIFARE_MAD *)
  (Algo 8 49 255 false false 0, (247, 0));  (* CRC8_NRSC_5 *)
  (Algo 8 47 0 false false 0, (62, 0));  (* CRC8_OPENSAFETY *)
  (Algo 8 7 255 true true 0, (208, 0));  (* CRC8_ROHC *)
  (Algo 8 29 255 false false 255, (75, 196));  (* CRC8_SAE_J1850 *)
  (Algo 8 7 0 false false 0, (244, 0));  (* CRC8_SMBUS *)
  (Algo 8 29 255 true true 0, (151, 0));  (* CRC8_TECH_3250 *)
  (Algo 8 29 255 true true 0, (151, 0));  (* CRC8_AES *)
  (Algo 8 29 255 true true 0, (151, 0));  (* CRC8_ETU *)
  (Algo 8 155 0 true true 0, (37, 0));  (* CRC8_WCDMA *)
  (Algo 10 563 0 false false 0, (409, 0));  (* CRC10_ATM *)
  (Algo 10 563 0 false false 0, (409, 0));  (* CRC10_I_610 *)
  (Algo 10 985 1023 false false 0, (563, 0));  (* CRC10_CDMA2000 *)
  (Algo 10 373 0 false false 1023, (298, 198));  (* CRC10_GSM *)
  (Algo 11 901 26 false false 0, (1443, 0));  (* CRC11_FLEXRAY *)
  (Algo 11 775 0 false false 0, (97, 0));  (* CRC11_UMTS *)
  (Algo 12 3859 4095 false false 0, (3405, 0));  (* CRC12_CDMA2000 *)
  (Algo 12 2063 0 false false 0, (3931, 0));  (* CRC12_DECT *)
  (Algo 12 3377 0 false false 4095, (2868, 376));  (* CRC12_GSM *)
  (Algo 12 2063 0 false true 0, (3503, 0));  (* CRC12_UMTS *)
  (Algo 12 2063 0 false true 0, (3503, 0));  (* CRC12_3GPP *)
  (Algo 13 7413 0 false false 0, (1274, 0));  (* CRC13_BBC *)
  (Algo 14 2053 0 true true 0, (2093, 0));  (* CRC14_DARC *)
  (Algo 14 8237 0 false false 16383, (12462, 798));  (* CRC14_GSM *)
  (Algo 15 17817 0 false false 0, (1438, 0));  (* CRC15_CAN *)
  (Algo 15 26645 0 false false 1, (9574, 26645));  (* CRC15_MPT1327 *)
  (Algo 16 32773 0 true true 0, (47933, 0));  (* CRC16_ARC *)
  (Algo 16 32773 0 true true 0, (47933, 0));  (* CRC16_IBM *)
  (Algo 16 51303 65535 false false 0, (19462, 0));  (* CRC16_CDMA2000 *)
  (Algo 16 32773 65535 false false 0, (44775, 0));  (* CRC16_CMS *)
  (Algo 16 32773 32781 false false 0, (40655, 0));  (* CRC16_DDS_110 *)
  (Algo 16 1417 0 false false 1, (126, 1417));  (* CRC16_DECT_R *)
  (Algo 16 1417 0 false false 0, (127, 0));  (* CRC16_DECT_X *)
  (Algo 16 15717 0 true true 65535, (60034, 26309));  (* CRC16_DNP *)
  (Algo 16 15717 0 false false 65535, (49847, 41830));  (* CRC16_EN_13757 *)
  (Algo 16 4129 65535 false false 65535, (54862, 7439));  (* CRC16_GENIBUS *)
  (Algo 16 4129 65535 false false 65535, (54862, 7439));  (* CRC16_DARC *)
  (Algo 16 4129 65535 false false 65535, (54862, 7439));  (* CRC16_EPC *)
  (Algo 16 4129 65535 false false 65535, (54862, 7439));  (* CRC16_EPC_C1G2 *)
  (Algo 16 4129 65535 false false 65535, (54862, 7439));  (* CRC16_I_CODE *)
  (Algo 16 4129 0 false false 65535, (52796, 7439));  (* CRC16_GSM *)
  (Algo 16 4129 65535 false false 0, (10673, 0));  (* CRC16_IBM_3740 *)
  (Algo 16 4129 65535 false false 0, (10673, 0));  (* CRC16_AUTOSAR *)
  (Algo 16 4129 65535 false false 0, (10673, 0));  (* CRC16_CCITT_FALSE *)
  (Algo 16 4129 65535 true true 65535, (36974, 61624));  (* CRC16_IBM_SDLC *)
  (Algo 16 4129 65535 true true 65535, (36974, 61624));  (* CRC16_ISO_HDLC *)
  (Algo 16 4129 65535 true true 65535, (36974, 61624));  (* CRC16_ISO_IEC_14443_3_B *)
  (Algo 16 4129 65535 true true 65535, (36974, 61624));  (* CRC16_X25 *)
  (Algo 16 4129 50886 true true 0, (48901, 0));  (* CRC16_ISO_IEC_14443_3_A *)
  (Algo 16 4129 0 true true 0, (8585, 0));  (* CRC16_KERMIT *)
  (Algo 16 4129 0 true true 0, (8585, 0));  (* CRC16_BLUETOOTH *)
  (Algo 16 4129 0 true true 0, (8585, 0));  (* CRC16_CCITT *)
  (Algo 16 4129 0 true true 0, (8585, 0));  (* CRC16_CCITT_TRUE *)
  (Algo 16 4129 0 true true 0, (8585, 0));  (* CRC16_V_41_LSB *)
  (Algo 16 28515 0 false false 0, (48628, 0));  (* CRC16_LJ1200 *)
  (Algo 16 22837 65535 false false 0, (30507, 0));  (* CRC16_M17 *)
  (Algo 16 32773 0 true true 65535, (17602, 45057));  (* CRC16_MAXIM_DOW *)
  (Algo 16 32773 0 true true 65535, (17602, 45057));  (* CRC16_MAXIM *)
  (Algo 16 4129 65535 true true 0, (28561, 0));  (* CRC16_MCRF4XX *)
  (Algo 16 32773 65535 true true 0, (19255, 0));  (* CRC16_MODBUS *)
  (Algo 16 2059 65535 true true 0, (41062, 0));  (* CRC16_NRSC_5 *)
  (Algo 16 22837 0 false false 0, (23864, 0));  (* CRC16_OPENSAFETY_A *)
  (Algo 16 30043 0 false false 0, (8446, 0));  (* CRC16_OPENSAFETY_B *)
  (Algo 16 7631 65535 false false 65535, (43033, 58260));  (* CRC16_PROFIBUS *)
  (Algo 16 7631 65535 false false 65535, (43033, 58260));  (* CRC16_IEC_61158_2 *)
  (Algo 16 4129 45738 true true 0, (25552, 0));  (* CRC16_RIELLO *)
  (Algo 16 4129 7439 false false 0, (58828, 0));  (* CRC16_SPI_FUJITSU *)
  (Algo 16 4129 7439 false false 0, (58828, 0));  (* CRC16_AUG_CCITT *)
  (Algo 16 35767 0 false false 0, (53467, 0));  (* CRC16_T10_DIF *)
  (Algo 16 41111 0 false false 0, (4019, 0));  (* CRC16_TELEDISK *)
  (Algo 16 4129 35308 true true 0, (9905, 0));  (* CRC16_TMS37157 *)
  (Algo 16 32773 0 false false 0, (65256, 0));  (* CRC16_UMTS *)
  (Algo 16 32773 0 false false 0, (65256, 0));  (* CRC16_BUYPASS *)
  (Algo 16 32773 0 false false 0, (65256, 0));  (* CRC16_VERIFONE *)
  (Algo 16 32773 65535 true true 65535, (46280, 45057));  (* CRC16_USB *)
  (Algo 16 4129 0 false false 0, (12739, 0));  (* CRC16_XMODEM *)
  (Algo 16 4129 0 false false 0, (12739, 0));  (* CRC16_ACORN *)
  (Algo 16 4129 0 false false 0, (12739, 0));  (* CRC16_LTE *)
  (Algo 16 4129 0 false false 0, (12739, 0));  (* CRC16_V_41_MSB *)
  (Algo 16 4129 0 false false 0, (12739, 0));  (* CRC16_ZMODEM *)
  (Algo 17 92251 0 false false 0, (20227, 0));  (* CRC17_CAN_FD *)
  (Algo 21 1058969 0 false false 0, (972865, 0));  (* CRC21_CAN_FD *)
  (Algo 24 1627 5592405 true true 0, (12737110, 0));  (* CRC24_BLE *)
  (Algo 24 6122955 16702650 false false 0, (7961021, 0));  (* CRC24_FLEXRAY_A *)
  (Algo 24 6122955 11259375 false false 0, (2040760, 0));  (* CRC24_FLEXRAY_B *)
  (Algo 24 3312483 16777215 false false 16777215, (11858918, 1330787));  (* CRC24_INTERLAKEN *)
  (Algo 24 8801531 0 false false 0, (13494019, 0));  (* CRC24_LTE_A *)
  (Algo 24 8388707 0 false false 0, (2355026, 0));  (* CRC24_LTE_B *)
  (Algo 24 8801531 11994318 false false 0, (2215682, 0));  (* CRC24_OPENPGP *)
  (Algo 24 8388707 16777215 false false 16777215, (2101157, 8392675));  (* CRC24_OS_9 *)
  (Algo 30 540064199 1073741823 false false 1073741823, (79907519, 888120666));  (* CRC30_CDMA *)
  (Algo 31 79764919 2147483647 false false 2147483647, (216654956, 1320101617));  (* CRC31_PHILIPS *)
  (Algo 32 2168537515 0 false false 0, (806403967, 0));  (* CRC32_AIXM *)
  (Algo 32 4104977171 4294967295 true true 4294967295, (379048042, 2420956607));  (* CRC32_AUTOSAR *)
  (Algo 32 2821953579 4294967295 true true 4294967295, (2268157302, 1160185169));  (* CRC32_BASE91_D *)
  (Algo 32 79764919 4294967295 false false 4294967295, (4236843288, 3338984827));  (* CRC32_BZIP2 *)
  (Algo 32 79764919 4294967295 false false 4294967295, (4236843288, 3338984827));  (* CRC32_AAL5 *)
  (Algo 32 79764919 4294967295 false false 4294967295, (4236843288, 3338984827));  (* CRC32_DECT_B *)
  (Algo 32 2147581979 0 true true 0, (1858268612, 0));  (* CRC32_CD_ROM_EDC *)
  (Algo 32 79764919 0 false false 4294967295, (1985902208, 3338984827));  (* CRC32_CKSUM *)
  (Algo 32 79764919 0 false false 4294967295, (1985902208, 3338984827));  (* CRC32_POSIX *)
  (Algo 32 517762881 4294967295 true true 4294967295, (3808858755, 3080238136));  (* CRC32_ISCSI *)
  (Algo 32 517762881 4294967295 true true 4294967295, (3808858755, 3080238136));  (* CRC32_BASE91_C *)
  (Algo 32 517762881 4294967295 true true 4294967295, (3808858755, 3080238136));  (* CRC32_CASTAGNOLI *)
  (Algo 32 517762881 4294967295 true true 4294967295, (3808858755, 3080238136));  (* CRC32_INTERLAKEN *)
  (Algo 32 79764919 4294967295 true true 4294967295, (3421780262, 3736805603));  (* CRC32_ISO_HDLC *)
  (Algo 32 79764919 4294967295 true true 4294967295, (3421780262, 3736805603));  (* CRC32_ADCCP *)
  (Algo 32 79764919 4294967295 true true 4294967295, (3421780262, 3736805603));  (* CRC32_V_42 *)
  (Algo 32 79764919 4294967295 true true 4294967295, (3421780262, 3736805603));  (* CRC32_XZ *)
  (Algo 32 79764919 4294967295 true true 4294967295, (3421780262, 3736805603));  (* CRC32_PKZIP *)
  (Algo 32 79764919 4294967295 true true 4294967295, (3421780262, 3736805603));  (* CRC32_ETHERNET *)
  (Algo 32 79764919 4294967295 true true 0, (873187033, 0));  (* CRC32_JAMCRC *)
  (Algo 32 1947962583 4294967295 true true 0, (3535941457, 0));  (* CRC32_MEF *)
  (Algo 32 79764919 4294967295 false false 0, (58124007, 0));  (* CRC32_MPEG_2 *)
  (Algo 32 175 0 false false 0, (3171672888, 0));  (* CRC32_XFER *)
  (Algo 40 75628553 0 false false 1099511627775, (910907393606, 846100197887));  (* CRC40_GSM *)
  (Algo 64 4823603603198064275 0 false false 0, (7800480153909949255, 0));  (* CRC64_ECMA_182 *)
  (Algo 64 27 18446744073709551615 true true 18446744073709551615, (13333283586479230977, 5980780305148018688));  (* CRC64_GO_ISO *)
  (Algo 64 2710187085972792137 18446744073709551615 true true 0, (8490612747469246186, 0));  (* CRC64_MS *)
  (Algo 64 12507571717709313449 0 true true 0, (16845390139448941002, 0));  (* CRC64_REDIS *)
  (Algo 64 4823603603198064275 18446744073709551615 false false 18446744073709551615, (7128171145767219210, 18207137114006595986));  (* CRC64_WE *)
  (Algo 64 4823603603198064275 18446744073709551615 true true 18446744073709551615, (11051210869376104954, 5302298732530578751));  (* CRC64_XZ *)
  (Algo 64 4823603603198064275 18446744073709551615 true true 18446744073709551615, (11051210869376104954, 5302298732530578751));  (* CRC64_ECMA *)
  (Algo 82 229256212191916381701137 0 true true 0, (749237524598872659187218, 0))  (* CRC82_DARC *)
].
